#!/bin/bash
# usage: nintake.sh Na S-a
W=/tmp/r12/$1; PFX=$2
cd $W; git checkout -- . 2>/dev/null
for i in 1 2 3 4 5 6; do
  d=$W/seeds/$i; [ -f $d/patch.diff ] || continue
  git checkout -- lib 2>/dev/null
  a=$(PYTHONPATH=$W/lib /venv/bin/python $d/diff_test.py 2>&1 | md5sum)
  git apply $d/patch.diff || { echo "$PFX-0$i APPLY-FAIL"; continue; }
  suite=$(PYTHONPATH=$W/lib /venv/bin/python -m pytest -q -p no:cacheprovider -x tests 2>&1 | tail -1)
  b=$(PYTHONPATH=$W/lib /venv/bin/python $d/diff_test.py 2>&1 | md5sum)
  git checkout -- lib
  if [ "$a" == "$b" ] && echo "$suite" | grep -q "2608 passed"; then
     dst=/verif/neutral/$PFX-0$i; mkdir -p $dst; cp $d/patch.diff $d/diff_test.py $d/notes.md $dst/ 2>/dev/null; echo "$PFX-0$i confirmed"
  else echo "$PFX-0$i NOT-CONFIRMED digest_equal=$([ "$a" == "$b" ] && echo y || echo n) suite=$suite"; fi
done
