#!/bin/bash
# usage: intake.sh C10   -> renumber seeds/1..3 after the highest existing seed, confirm, run own check
P=$1
WT=/tmp/r12/$P
cd /verif
max=$(ls seeded | grep "^$P-" | sed "s/^$P-//" | sort -n | tail -1); max=${max:-0}
names=""
for i in 1 2 3; do
  if [ -d $WT/seeds/$i ]; then n=$((max+i)); mv $WT/seeds/$i $WT/seeds/$n; names="$names $P-$n"; fi
done
git -C $WT checkout -- . 2>/dev/null
/venv/bin/python -m sa.seedconfirm $P $WT 2>&1 | python3 -c "
import sys,json
for l in sys.stdin:
    try: r=json.loads(l)
    except Exception: print(l.rstrip()[:300]); continue
    print(r['property'], r['seed'], 'confirmed' if r.get('confirmed') else 'NOT-CONFIRMED', {k:r.get(k) for k in ('demo_on_original_exit','suite_passes','demo_on_changed_exit','apply_exit')})
"
for n in $names; do [ -d seeded/$n ] && /venv/bin/python -m sa.seedtest --all-checks -k "$n" 2>&1 | grep -v "^WARNING" | cut -c1-400; done
