"""python -m sa.show <qualname> ... : print the normalised (expanded + canonicalised) source the rules see."""
import ast
import sys

from .srcmodel import Repo


def main(argv):
    repo = Repo()
    for q in argv:
        f = repo.func(q)
        print('# %s  (%s)' % (f.qualname, f.loc()))
        print(ast.unparse(f.node))
        print()
    if not argv:
        print(repo.expansion)


if __name__ == '__main__':
    main(sys.argv[1:])
