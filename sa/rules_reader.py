"""C07: the result does not depend on how the input is delivered (reader clauses).

The rules here (and in rules_marks, which shares the helpers of the first section) find the variables they talk about by
their *role* - "the local assigned from self.stream.read(...)", "the second result of the decoder call", "the argument
that ReaderError stores as .position" - through reaching definitions on the CFG, never by their names, and compare
conditions / index arithmetic as evaluated conditions / linear forms, never as text.
"""
import ast

from . import astutil as A
from . import charworld as CW
from . import match as M
from .cfg import CFG, own_exprs, reaching_defs, defs_of
from .srcmodel import AnalysisError, ClassInfo, FuncInfo, norm, walk_function


# ======================================================================================================================
# shared helpers: roles by data flow
# ======================================================================================================================

def self_name(f):
    return f.params[0] if f.params else 'self'


def is_self_attr(e, f, attr=None):
    """e is `self.<attr>` (self = the first parameter of f)."""
    return A.is_attr(e, self_name(f), attr)


def is_self_call(c, f, attr=None):
    return isinstance(c, ast.Call) and is_self_attr(c.func, f, attr)


def pat(src):
    return M.compile_pattern(src)[1]


def matches(src, node, env=None):
    e = dict(env or {})
    return e if M.match(pat(src), node, e) else None


def name_env(**kw):
    """{'_N_x': Name} environment for sa.match from local names."""
    return {'_N_' + k: ast.Name(id=v, ctx=ast.Load()) for k, v in kw.items()}


_BASELINE = []


def baseline_functions():
    if not _BASELINE:
        from . import expand
        b = expand.load_baseline()
        _BASELINE.append(set(b['functions']) if b else None)
    return _BASELINE[0]


def is_new_helper(f):
    """f does not exist in the reference inventory: a helper introduced by a refactoring.  (A method that was only moved
    to another class of its module - a new mixin / base - is not new.)"""
    b = baseline_functions()
    if b is None or f.qualname in b:
        return False
    if not _BASELINE[1:]:
        _BASELINE.append({(q.split('.')[0], q.rsplit('.', 1)[1]) for q in b})
    return (f.module.name, f.name) not in _BASELINE[1]


def dead_helpers(repo):
    """qualnames of the helpers sa.expand has inlined at *every* use: their statements are already seen at the call
    sites, so a rule that ranges over all methods of a class must not see them a second time."""
    d = getattr(repo, '_dead_helpers', None)
    if d is not None:
        return d
    exp = repo.expansion if isinstance(repo.expansion, dict) else {}
    inl = set(exp.get('inlined_helpers', []) or [])
    d = set()
    if inl:
        names = {q.rsplit('.', 1)[1] for q in inl}
        used = set()
        for f in repo.all_functions():
            for n in walk_function(f.node):
                nm = n.attr if isinstance(n, ast.Attribute) else n.id if isinstance(n, ast.Name) else None
                if nm in names and nm != f.name:
                    used.add(nm)
        d = {q for q in inl if q.rsplit('.', 1)[1] not in used}
    repo._dead_helpers = d
    return d


def live_methods(repo, cls):
    dead = dead_helpers(repo)
    return [f for f in cls.methods.values() if f.qualname not in dead]


def helper_group(repo, cls, f):
    """f together with the same-class helpers (methods outside the reference inventory) it still calls, transitively:
    the unit a rule about "what f does" has to look at when a part of f has been moved into a helper."""
    out, work = [f], [f]
    while work:
        g = work.pop()
        for c in A.func_calls(g.node):
            if is_self_call(c, g):
                h = cls.methods.get(c.func.attr)
                if h is not None and h not in out and is_new_helper(h):
                    out.append(h)
                    work.append(h)
    return out


class Flow:
    """CFG + cached reaching definitions of one function."""

    def __init__(self, f):
        self.f = f
        self.cfg = CFG(f.node)
        self._rd = {}
        self._where = None

    def rd(self, var):
        r = self._rd.get(var)
        if r is None:
            r = self._rd[var] = reaching_defs(self.cfg, var)
        return r

    def node_of(self, astnode):
        """the CFG node at which `astnode` (an expression or a simple statement) is evaluated."""
        if self._where is None:
            self._where = {}
            for n in self.cfg.nodes:
                for sub in own_exprs(n):
                    self._where.setdefault(id(sub), n)
        n = self._where.get(id(astnode))
        if n is None:
            raise AnalysisError('%s: %s is not on the control-flow graph' % (self.f.qualname, norm(astnode)[:50]))
        return n

    def def_nodes(self, var):
        return [n for n in self.cfg.nodes if defs_of(n, var)]

    def entry_reaches(self, var, at):
        return at in self.cfg.reach([self.cfg.entry], blocked=self.def_nodes(var))

    def between(self, a, b):
        """nodes that can execute after a and before b."""
        after = self.cfg.reach([m for (m, lab) in self.cfg.succ[a]])
        return [n for n in after if n is not b and b in self.cfg.reach([n])]


def origins(flow, expr, at, depth=0):
    """where the value of `expr`, evaluated at CFG node `at`, comes from: a list of (kind, expr, node, index)

        ('param', Name, entry, None)     a parameter that has not been reassigned
        ('global', Name, at, None)       a name that is never assigned in the function
        ('expr', e, node, None)          the value of expression e evaluated at node (local aliases are followed)
        ('elt', e, node, i)              element i of the value of e (tuple unpacking)
        ('iter'|'aug'|'unknown', ...)    a loop target / augmented assignment / something else
    """
    if not isinstance(expr, ast.Name):
        return [('expr', expr, at, None)]
    name = expr.id
    dn = flow.rd(name).get(at, set())
    out = []
    if name in flow.f.params and (not dn or flow.entry_reaches(name, at)):
        out.append(('param', expr, flow.cfg.entry, None))
    if not dn and not out:
        return [('global', expr, at, None)]
    for d in sorted(dn, key=lambda n: n.id):
        a = d.ast
        if d.kind == 'for':
            out.append(('iter', a, d, None))
        elif isinstance(a, (ast.Assign, ast.AnnAssign)):
            targets = a.targets if isinstance(a, ast.Assign) else [a.target]
            done = False
            for t in targets:
                if isinstance(t, ast.Name) and t.id == name:
                    if isinstance(a.value, ast.Name) and depth < 8:
                        out.extend(origins(flow, a.value, d, depth + 1))
                    else:
                        out.append(('expr', a.value, d, None))
                    done = True
                elif isinstance(t, (ast.Tuple, ast.List)):
                    idx = [i for i, x in enumerate(t.elts) if isinstance(x, ast.Name) and x.id == name]
                    if idx:
                        if isinstance(a.value, (ast.Tuple, ast.List)) and len(a.value.elts) == len(t.elts):
                            v = a.value.elts[idx[0]]
                            if isinstance(v, ast.Name) and depth < 8:
                                out.extend(origins(flow, v, d, depth + 1))
                            else:
                                out.append(('expr', v, d, None))
                        else:
                            out.append(('elt', a.value, d, idx[0]))
                        done = True
                if done:
                    break
            if not done:
                out.append(('unknown', a, d, None))
        elif isinstance(a, ast.AugAssign):
            out.append(('aug', a, d, None))
        else:
            out.append(('unknown', a, d, None))
    return out


def alias_of_self_attr(flow, expr, at, attr):
    """expr, evaluated at `at`, denotes the object self.<attr> holds there: either the attribute itself or a local bound to
    it with no rebinding of the attribute (assignment, or a call of a method of self) in between."""
    f = flow.f
    if is_self_attr(expr, f, attr):
        return True
    if not isinstance(expr, ast.Name):
        return False
    og = origins(flow, expr, at)
    if not og:
        return False
    for kind, e, node, idx in og:
        if kind != 'expr' or not is_self_attr(e, f, attr):
            return False
        for n in flow.between(node, at):
            for sub in own_exprs(n):
                if isinstance(sub, ast.Attribute) and isinstance(sub.ctx, ast.Store) and is_self_attr(sub, f, attr):
                    return False
                if is_self_call(sub, f):
                    return False
    return True


def _init_param_for(repo, cls, attr, depth=0):
    """(init FuncInfo, name of the parameter of cls.__init__ that ends up in self.<attr>): assigned there directly or
    handed to a base-class initialiser (`Base.__init__(self, ...)` / `super().__init__(...)`) that stores it."""
    found = repo.lookup(cls, '__init__')
    if not found or not isinstance(found[1], FuncInfo):
        raise AnalysisError('%s has no __init__ to bind constructor arguments with' % cls.qualname)
    owner, init = found
    for n in walk_function(init.node):
        if isinstance(n, ast.Assign) and any(is_self_attr(t, init, attr) for t in n.targets) and isinstance(n.value, ast.Name) \
                and n.value.id in init.params:
            return init, n.value.id
    if depth < 4:
        for c in A.func_calls(init.node):
            if not (isinstance(c.func, ast.Attribute) and c.func.attr == '__init__'):
                continue
            recv, args, base = c.func.value, list(c.args), None
            if isinstance(recv, ast.Call) and isinstance(recv.func, ast.Name) and recv.func.id == 'super':
                nxt = repo.lookup_after(cls, owner, '__init__')
                base = nxt[0] if nxt else None
            else:
                r = repo.resolve_expr(init.module, recv)
                if r is not None and r.kind == 'class' and isinstance(r.obj, ClassInfo) and args and isinstance(args[0], ast.Name) \
                        and args[0].id == self_name(init):
                    base, args = r.obj, args[1:]
            if base is None or any(isinstance(a, ast.Starred) for a in args) or any(k.arg is None for k in c.keywords):
                continue
            try:
                binit, bparam = _init_param_for(repo, base, attr, depth + 1)
            except AnalysisError:
                continue
            i = binit.params.index(bparam) - 1
            arg = args[i] if 0 <= i < len(args) else next((k.value for k in c.keywords if k.arg == bparam), None)
            if isinstance(arg, ast.Name) and arg.id in init.params:
                return init, arg.id
    raise AnalysisError('%s.__init__ does not store a parameter as .%s' % (cls.qualname, attr))


def ctor_arg(repo, cls, call, attr):
    """the argument of `call` (a construction of class `cls`) that cls.__init__ stores as self.<attr>; None if the call
    does not pass it; AnalysisError if __init__ does not store a parameter there."""
    init, param = _init_param_for(repo, cls, attr)
    i = init.params.index(param) - 1
    if any(isinstance(a, ast.Starred) for a in call.args) or any(k.arg is None for k in call.keywords):
        raise AnalysisError('construction of %s with * / ** arguments (line %d)' % (cls.name, call.lineno))
    if 0 <= i < len(call.args):
        return call.args[i]
    for k in call.keywords:
        if k.arg == param:
            return k.value
    return None


def callee_classes(repo, cls, flow, call, _depth=0):
    """the classes a call `X(...)` with a plain-name callee may construct: X a class of the package, a local bound to
    classes, or a parameter (then: what the same-class callers pass).  [] if X is not (only) classes."""
    fn = call.func
    if not isinstance(fn, ast.Name):
        return []
    return _classes_of(repo, cls, flow, fn, flow.node_of(call), _depth)


def _classes_of(repo, cls, flow, expr, at, depth):
    f = flow.f
    if isinstance(expr, ast.IfExp):
        a = _classes_of(repo, cls, flow, expr.body, at, depth)
        b = _classes_of(repo, cls, flow, expr.orelse, at, depth)
        return (a + [x for x in b if x not in a]) if a and b else []
    if not isinstance(expr, ast.Name):
        return []
    out = []
    for kind, e, node, idx in origins(flow, expr, at):
        if kind == 'global':
            r = repo.resolve_name(f.module, e.id)
            if r is None or r.kind != 'class' or not isinstance(r.obj, ClassInfo):
                return []
            got = [r.obj]
        elif kind == 'param' and depth < 3 and f.cls is not None:
            i = f.params.index(e.id) - 1
            got = []
            for g in live_methods(repo, cls):
                for c in A.func_calls(g.node):
                    if is_self_call(c, g, f.name):
                        arg = c.args[i] if 0 <= i < len(c.args) else next((k.value for k in c.keywords if k.arg == e.id), None)
                        if arg is None:
                            d = f.defaults().get(e.id)
                            sub = _classes_of(repo, cls, flow, d, flow.cfg.entry, depth + 1) if isinstance(d, ast.Name) else []
                        else:
                            gf = g._flow = getattr(g, '_flow', None) or Flow(g)
                            sub = _classes_of(repo, cls, gf, arg, gf.node_of(c), depth + 1)
                        if not sub:
                            return []
                        got.extend(x for x in sub if x not in got)
            if not got:
                return []
        elif kind == 'expr' and isinstance(e, ast.IfExp):
            got = _classes_of(repo, cls, flow, e, node, depth)
            if not got:
                return []
        else:
            return []
        out.extend(x for x in got if x not in out)
    return out


def reach_under(cfg, atom, starts=None, blocked=()):
    """nodes reachable when every test is evaluated with the three-valued `atom`: a decided test follows one edge only."""
    blocked = set(blocked)
    seen = set()
    stack = [s for s in (starts or [cfg.entry]) if s not in blocked]
    memo = {}
    while stack:
        n = stack.pop()
        if n in seen:
            continue
        seen.add(n)
        v = None
        if n.kind == 'test' and n.ast is not None:
            if n not in memo:
                memo[n] = A.eval3(n.ast, atom)
            v = memo[n]
        for (m, lab) in cfg.succ[n]:
            if v is not None and lab in (True, False) and lab != v:
                continue
            if m not in blocked:
                stack.append(m)
    return seen


def clone(node, repl):
    """copy of an expression (without parent links); repl(node) may supply a replacement for a sub-expression."""
    r = repl(node)
    if r is not None:
        return r
    new = type(node)()
    for field, val in ast.iter_fields(node):
        if isinstance(val, list):
            setattr(new, field, [clone(x, repl) if isinstance(x, ast.AST) else x for x in val])
        elif isinstance(val, ast.AST):
            setattr(new, field, clone(val, repl))
        else:
            setattr(new, field, val)
    return ast.copy_location(new, node)


def subst_attrs(expr, subs):
    """copy of expr with every sub-expression whose normal form is a key of subs replaced by the constant value."""
    def repl(n):
        if isinstance(n, ast.expr) and not isinstance(n, ast.Constant) and norm(n) in subs:
            return ast.copy_location(ast.Constant(subs[norm(n)]), n)
        return None
    return ast.fix_missing_locations(clone(expr, repl))


# ======================================================================================================================
# linear forms
# ======================================================================================================================

def linear_form(e, atom_name=None, expand=None):
    """{atom text: coefficient, '': constant} of an expression built from + - and atoms; None if not linear.
    atom_name(expr) may give an atom a canonical (role) name instead of its source text; expand(expr) may give the
    linear form an atom stands for (a local holding an intermediate result)."""
    if isinstance(e, ast.Constant) and isinstance(e.value, int) and not isinstance(e.value, bool):
        return {'': e.value}
    if isinstance(e, ast.BinOp) and isinstance(e.op, (ast.Add, ast.Sub)):
        l, r = linear_form(e.left, atom_name, expand), linear_form(e.right, atom_name, expand)
        if l is None or r is None:
            return None
        out = dict(l)
        sign = 1 if isinstance(e.op, ast.Add) else -1
        for k, v in r.items():
            out[k] = out.get(k, 0) + sign * v
        return {k: v for k, v in out.items() if v != 0 or k == ''}
    if isinstance(e, ast.UnaryOp) and isinstance(e.op, ast.USub):
        l = linear_form(e.operand, atom_name, expand)
        return None if l is None else {k: -v for k, v in l.items()}
    if isinstance(e, ast.UnaryOp) and isinstance(e.op, ast.UAdd):
        return linear_form(e.operand, atom_name, expand)
    if isinstance(e, ast.BinOp) and isinstance(e.op, ast.Mult):
        for a, b in ((e.left, e.right), (e.right, e.left)):
            if isinstance(a, ast.Constant) and isinstance(a.value, int):
                l = linear_form(b, atom_name, expand)
                return None if l is None else {k: v * a.value for k, v in l.items()}
        return None
    if expand is not None:
        x = expand(e)
        if x is not None:
            return dict(x)
    k = atom_name(e) if atom_name else None
    return {k or norm(e): 1}


def _stable(flow, x, node, at):
    """nothing the expression x (evaluated at node) reads is assigned between node and at"""
    attrs = {norm(a) for a in ast.walk(x) if isinstance(a, ast.Attribute)}
    names = {a.id for a in ast.walk(x) if isinstance(a, ast.Name)}
    for n in flow.between(node, at):
        if n is node:
            return False            # a loop carries the definition around
        for sub in own_exprs(n):
            if isinstance(sub, ast.Attribute) and isinstance(sub.ctx, ast.Store) and norm(sub) in attrs:
                return False
            if isinstance(sub, ast.Name) and isinstance(sub.ctx, ast.Store) and sub.id in names:
                return False
    return True


def lf_at(flow, expr, at, atom_name=None, depth=0):
    """linear form of expr as evaluated at CFG node `at`; a local that holds an intermediate result (one definition, nothing
    it reads reassigned since) is replaced by the form of that result.  atom_name(expr, node) names atoms by role."""
    def expand(e):
        if isinstance(e, ast.Name) and depth < 4:
            og = origins(flow, e, at)
            if len(og) == 1 and og[0][0] == 'expr' and not isinstance(og[0][1], ast.Name):
                k, x, node, i = og[0]
                if isinstance(x, (ast.BinOp, ast.UnaryOp, ast.Constant)) and _stable(flow, x, node, at):
                    return lf_at(flow, x, node, atom_name, depth + 1)
        return None
    return linear_form(expr, (lambda e: atom_name(e, at)) if atom_name else None, expand)


def _clean(f):
    return {k: v for k, v in (f or {}).items() if v != 0}


def lf_sub(a, b):
    out = dict(a)
    for k, v in b.items():
        out[k] = out.get(k, 0) - v
    return out


def inequality(test, lf=None):
    """a comparison `l OP r` with OP in < <= > >= over linear forms as (D, strict): it holds iff D > 0 (strict) or
    D >= 0; None if the test is not such a comparison.  lf(expr) computes the forms (default: linear_form)."""
    if not (isinstance(test, ast.Compare) and len(test.ops) == 1):
        return None
    lf = lf or linear_form
    l, r = lf(test.left), lf(test.comparators[0])
    if l is None or r is None:
        return None
    op = test.ops[0]
    if isinstance(op, ast.GtE):
        return lf_sub(l, r), False
    if isinstance(op, ast.Gt):
        return lf_sub(l, r), True
    if isinstance(op, ast.LtE):
        return lf_sub(r, l), False
    if isinstance(op, ast.Lt):
        return lf_sub(r, l), True
    return None


def _fmt(lf):
    if lf is None:
        return '?'
    parts = []
    for k, v in lf.items():
        if k == '' or v == 0:
            continue
        parts.append(('%d*%s' % (v, k)) if v != 1 else k)
    c = lf.get('', 0)
    if c:
        parts.append(str(c))
    return '+'.join(parts).replace('+-', '-') or '0'


# ======================================================================================================================
# R-INCREMENTAL-DECODE
# ======================================================================================================================

def _call_arg(call, i, kw):
    if i < len(call.args) and not any(isinstance(a, ast.Starred) for a in call.args[:i + 1]):
        return call.args[i]
    for k in call.keywords:
        if k.arg == kw:
            return k.value
    return None


def _stream_reads(f):
    """(local name, assignment) for every `x = self.stream.read(...)` of f: the chunk just read."""
    out = []
    for n in walk_function(f.node):
        if isinstance(n, ast.Assign) and isinstance(n.value, ast.Call) and isinstance(n.value.func, ast.Attribute) \
                and n.value.func.attr == 'read' and is_self_attr(n.value.func.value, f, 'stream'):
            for t in n.targets:
                if isinstance(t, ast.Name):
                    out.append((t.id, n))
    return out


def _is_stream_read(f, e):
    return isinstance(e, ast.Call) and isinstance(e.func, ast.Attribute) and e.func.attr == 'read' \
        and is_self_attr(e.func.value, f, 'stream')


def r_incremental_decode(ctx, repo):
    rule = ctx.rule('R-INCREMENTAL-DECODE', 'Reader.update decodes incrementally: final=self.eof, the undecoded tail is kept, update_raw '
                                            'appends to it, and end of input is declared only on an empty read')
    R = repo.cls('reader.Reader')
    upd, raw = R.methods.get('update'), R.methods.get('update_raw')
    if upd is None or raw is None:
        raise AnalysisError('Reader.update/update_raw have vanished')
    # update together with the helpers a part of it may have been moved into
    group = helper_group(repo, R, upd)
    flows = {g: Flow(g) for g in group}
    dec = [(g, c) for g in group for c in A.func_calls(g.node) if is_self_call(c, g, 'raw_decode')]
    if len(dec) != 1:
        raise AnalysisError('Reader.update: decoder call not found')
    dfun, c = dec[0]
    # codecs.*_decode(input, errors='strict', final=False)
    a_in, a_final = _call_arg(c, 0, 'input'), _call_arg(c, 2, 'final')
    if a_in is not None and a_final is not None and is_self_attr(a_in, dfun, 'raw_buffer') and is_self_attr(a_final, dfun, 'eof'):
        rule.ok(dfun.loc(c), 'raw_decode(self.raw_buffer, ..., final=self.eof)')
    else:
        rule.fail('%s|final' % upd.qualname, dfun.module.rel, c.lineno, dfun.qualname, norm(c),
                  'the decoder is not called with final=self.eof on the whole undecoded tail: a multi-byte sequence split across '
                  'two reads is reported as invalid (or silently dropped) depending on where the stream was chunked')

    def consumed(g, kind, e, idx, depth=0):
        """this origin is the decoder's second result (the number of units it consumed), possibly handed back by a helper."""
        if kind != 'elt':
            return False
        if e is c:
            return idx == 1
        if is_self_call(e, g) and depth < 4:
            h = R.methods.get(e.func.attr)
            if h is None or h not in flows:
                return False
            rets = [r for r in walk_function(h.node) if isinstance(r, ast.Return)]
            hit = False
            for r in rets:
                if not (isinstance(r.value, ast.Tuple) and idx < len(r.value.elts)):
                    return False
                og = origins(flows[h], r.value.elts[idx], flows[h].node_of(r))
                if any(consumed(h, k2, e2, i2, depth + 1) for k2, e2, n2, i2 in og):
                    hit = True
            return hit
        return False

    keeps = [(g, n) for g in group for n in walk_function(g.node)
             if isinstance(n, ast.Assign) and any(is_self_attr(t, g, 'raw_buffer') for t in n.targets)
             and isinstance(n.value, ast.Subscript) and isinstance(n.value.slice, ast.Slice)]
    good = bool(keeps)
    for g, k in keeps:
        sl = k.value.slice
        if not (is_self_attr(k.value.value, g, 'raw_buffer') and sl.upper is None and sl.step is None and isinstance(sl.lower, ast.Name)):
            good = False
            continue
        og = origins(flows[g], sl.lower, flows[g].node_of(k))
        if not any(consumed(g, kind, e, idx) for kind, e, node, idx in og):
            good = False
    if good:
        rule.ok(keeps[0][0].loc(keeps[0][1]), 'undecoded tail kept: raw_buffer = raw_buffer[<units the decoder consumed>:]')
    else:
        rule.fail('%s|tail' % upd.qualname, upd.module.rel, (keeps[0][1].lineno if keeps else upd.node.lineno), upd.qualname,
                  'self.raw_buffer = self.raw_buffer[converted:]',
                  'the bytes the decoder did not consume are not kept for the next refill')
    # update_raw appends what it has read
    rflow = Flow(raw)
    cfg = rflow.cfg
    app = []
    for n in cfg.nodes:
        if n.kind != 'stmt':
            continue
        if isinstance(n.ast, ast.AugAssign) and is_self_attr(n.ast.target, raw, 'raw_buffer') and isinstance(n.ast.op, ast.Add):
            app.append((n, n.ast.value))
        elif isinstance(n.ast, ast.Assign) and any(is_self_attr(t, raw, 'raw_buffer') for t in n.ast.targets) \
                and isinstance(n.ast.value, ast.BinOp) and isinstance(n.ast.value.op, ast.Add) \
                and is_self_attr(n.ast.value.left, raw, 'raw_buffer'):
            app.append((n, n.ast.value.right))
    if app:
        for n, v in app:
            og = origins(rflow, v, n)
            if not og or not all(kind == 'expr' and _is_stream_read(raw, e) for kind, e, node, idx in og):
                raise AnalysisError('update_raw: what is appended to raw_buffer (%s) is not recognised as the data just read' % norm(v)[:40])
        rule.ok(raw.loc(app[0][0].ast), 'update_raw appends to the undecoded tail')
    else:
        rule.fail('%s|append' % raw.qualname, raw.module.rel, raw.node.lineno, raw.qualname, 'self.raw_buffer += data',
                  'update_raw no longer appends new data to the undecoded tail')
    # eof only on an empty read: evaluated on the CFG for concrete read results
    eofs = [n for n in cfg.nodes if n.kind == 'stmt' and isinstance(n.ast, ast.Assign) and any(is_self_attr(t, raw, 'eof') for t in n.ast.targets)
            and isinstance(n.ast.value, ast.Constant) and n.ast.value.value is True]
    if not eofs:
        raise AnalysisError('update_raw: no `self.eof = True`')
    reads = _stream_reads(raw)
    if not reads:
        raise AnalysisError('update_raw: the stream.read() whose result decides end of input was not found')
    chunk_names = {nm for nm, st in reads}
    size_param = raw.params[1] if len(raw.params) > 1 else None

    def world(probe):
        env = {nm: probe for nm in chunk_names}
        if size_param:
            env[size_param] = 4096
        return lambda t: CW.eval_cond(repo, t, env)
    bad = None
    for probe in ('x', 'abc', b'\xff', 'x' * 10):
        r = reach_under(cfg, world(probe))
        if any(e in r for e in eofs):
            bad = probe
    empty_ok = True
    for probe in ('', b''):
        r = reach_under(cfg, world(probe), blocked=eofs)
        if cfg.exit_return in r or cfg.exit_fall in r:
            empty_ok = False
    e0 = eofs[0].ast
    if bad is None and empty_ok:
        rule.ok(raw.loc(e0), 'eof is declared exactly when read() returned nothing')
    else:
        rule.fail('%s|eof' % raw.qualname, raw.module.rel, e0.lineno, raw.qualname, norm(getattr(e0, '_parent', e0))[:70],
                  'end of input is declared although read() returned data (e.g. %r): a stream that delivers short reads '
                  '(pipe, socket) has its document silently cut off' % (bad,) if bad is not None else
                  'end of input is not declared when read() returns nothing')
    return rule


# ======================================================================================================================
# R-LOOKAHEAD-SUFFICIENT
# ======================================================================================================================

def _refill_guard(f, L, maxoff):
    """the `if <pointer + a >= len(buffer)>: self.update(u)` of f checked against the largest offset read.
    -> ('missing', None, None) | ('ok'|'guard'|'amount', guard statement, update call, u)"""
    guards = [n for n in walk_function(f.node) if isinstance(n, ast.If) and any(is_self_call(c, f, 'update') for c in A.calls_in(n.body))]
    if len(guards) != 1:
        return ('missing', None, None, None)
    g = guards[0]
    okg = False
    flow = Flow(f)
    tests = flow.cfg.nodes_of(g.test)
    if not tests:
        return ('missing', None, None, None)
    ineq = inequality(g.test, lambda e: lf_at(flow, e, tests[0]))
    if ineq is not None:
        D, strict = ineq
        # fires iff pointer + a - len(buffer) >= 0
        if D.get('self.pointer') == 1 and D.get('len(self.buffer)') == -1:
            a = {k: v for k, v in D.items() if k not in ('self.pointer', 'len(self.buffer)') and (v != 0 or k == '')}
            a.setdefault('', 0)
            if strict:
                a[''] -= 1
            if set(a) <= {L, ''} and a.get(L, 0) == maxoff.get(L, 0) and a[''] >= maxoff.get('', 0):
                okg = True
    upd = [c for c in A.calls_in(g.body) if is_self_call(c, f, 'update')][0]
    u = lf_at(flow, upd.args[0], flow.node_of(upd)) if upd.args else None
    oku = u is not None and set(_clean(u)) <= {L, ''} and u.get(L, 0) == 1 and u.get('', 0) >= maxoff.get('', 0) + 1
    return ('ok' if okg and oku else 'guard' if not okg else 'amount', g, upd, u)


class ConsumingLoop:
    """the loop of Reader.forward that consumes characters (the one that advances self.pointer).  Reads of the buffer in it
    are identified by their offset from the pointer at the start of the iteration - 0: the consumed character, 1: the one
    after it - whatever local they are kept in and whether they happen before or after the increment."""

    def __init__(self, f):
        self.f = f
        self.flow = Flow(f)
        cfg = self.flow.cfg
        incs = [n for n in walk_function(f.node) if isinstance(n, ast.AugAssign) and is_self_attr(n.target, f, 'pointer')]
        if not incs:
            raise AnalysisError('%s: the pointer is not advanced' % f.qualname)
        loops = {}
        for a in incs:
            p = getattr(a, '_parent', None)
            while p is not None and not isinstance(p, (ast.While, ast.For)):
                p = getattr(p, '_parent', None)
            if p is None:
                raise AnalysisError('%s: the pointer is advanced outside a loop' % f.qualname)
            loops[id(p)] = p
        if len(loops) != 1:
            raise AnalysisError('%s: more than one consuming loop' % f.qualname)
        self.loop = list(loops.values())[0]
        if isinstance(self.loop, ast.While):
            self.head = cfg.entry_of(self.loop)
        else:
            hn = cfg.nodes_of(self.loop.iter)
            self.head = hn[0] if hn else None
        if self.head is None:
            raise AnalysisError('%s: consuming loop not on the control-flow graph' % f.qualname)
        self.incs = [self.flow.node_of(s) for s in incs]
        self.in_iter = cfg.reach([m for (m, lab) in cfg.succ[self.head]], blocked=[self.head])

    def incs_before(self, r):
        """how many pointer increments have certainly happened in this iteration when node r executes; None if it depends
        on the path."""
        cfg = self.flow.cfg
        k = 0
        for p in self.incs:
            a = p.ast
            if not (isinstance(a.op, ast.Add) and isinstance(a.value, ast.Constant) and a.value.value == 1):
                return None
            if p is r:
                continue
            maybe = p in self.in_iter and r in cfg.reach([m for (m, lab) in cfg.succ[p]], blocked=[self.head])
            if not maybe:
                continue
            certainly = r not in cfg.reach([m for (m, lab) in cfg.succ[self.head]], blocked=[self.head, p])
            if not certainly:
                return None
            k += 1
        return k

    @staticmethod
    def _one_char_slice(sl):
        """buffer[a:a+1] reads the character at a (or nothing, silently, when a is beyond the buffer)."""
        if not (isinstance(sl, ast.Slice) and sl.lower is not None and sl.upper is not None and sl.step is None):
            return None
        lo, hi = linear_form(sl.lower), linear_form(sl.upper)
        if lo is None or hi is None:
            return None
        d = dict(hi)
        for k, v in lo.items():
            d[k] = d.get(k, 0) - v
        d = {k: v for k, v in d.items() if v != 0}
        return sl.lower if d == {'': 1} else None

    def is_buffer_read(self, e, node):
        if not (isinstance(e, ast.Subscript) and isinstance(e.ctx, ast.Load) and alias_of_self_attr(self.flow, e.value, node, 'buffer')):
            return False
        return not isinstance(e.slice, ast.Slice) or self._one_char_slice(e.slice) is not None

    def read_offset(self, e, node):
        """e (evaluated at node) reads buffer[pointer + k]: the offset of that character from the iteration's start"""
        if not self.is_buffer_read(e, node):
            return None
        ptr = '%s.pointer' % self_name(self.f)
        idx = self._one_char_slice(e.slice) if isinstance(e.slice, ast.Slice) else e.slice
        lf = linear_form(idx)
        if lf is None or lf.get(ptr) != 1 or set(_clean(lf)) - {ptr, ''}:
            return None
        if node not in self.in_iter:
            return None
        b = self.incs_before(node)
        return None if b is None else lf.get('', 0) + b

    def reads(self):
        """[(subscript, offset or None)] for every character read of the buffer inside the loop"""
        out = []
        for n in self.in_iter:
            if n.ast is None:
                continue
            for sub in own_exprs(n):
                if self.is_buffer_read(sub, n):
                    out.append((sub, self.read_offset(sub, n)))
        return out


def r_lookahead_sufficient(ctx, repo):
    rule = ctx.rule('R-LOOKAHEAD-SUFFICIENT', 'peek/prefix/forward refill the buffer far enough for the largest offset they read (forward '
                                              'needs one character beyond the last consumed one for the CR LF test)')
    R = repo.cls('reader.Reader')
    for name in ('forward', 'prefix'):
        f = R.methods.get(name)
        if f is None:
            raise AnalysisError('Reader.%s has vanished' % name)
        if len(f.params) < 2:
            raise AnalysisError('Reader.%s: expected (self, length)' % name)
        L = f.params[1]
        # largest offset read relative to the entry pointer
        if name == 'forward':
            # iteration i (0-based) reads up to offset i + k; the last one is i = length - 1
            reads = ConsumingLoop(f).reads()
            if not reads or any(off is None for sub, off in reads):
                raise AnalysisError('Reader.forward: a read of the buffer at an offset that is not pointer + constant')
            maxoff = {L: 1, '': max(off for sub, off in reads) - 1}
        else:
            maxoff = {L: 1, '': -1}
        st, g, upd, u = _refill_guard(f, L, maxoff)
        if st == 'missing':
            rule.fail('%s|refill' % f.qualname, f.module.rel, f.node.lineno, f.qualname, 'if ...: self.update(...)',
                      'Reader.%s has no (single) guarded refill before it reads the buffer' % name)
        elif st == 'ok':
            rule.ok(f.loc(g), 'Reader.%s: refill guard and amount cover offset %s' % (name, _fmt(maxoff)))
        else:
            rule.fail('%s|lookahead' % f.qualname, f.module.rel, g.lineno, f.qualname, norm(g.test) + ': ' + norm(upd),
                      'Reader.%s reads up to offset pointer+%s but %s: with input delivered in small pieces the read runs past the '
                      'buffer (IndexError) or a CR LF pair split across two refills is counted as two line breaks'
                      % (name, _fmt(maxoff), 'the refill guard does not fire early enough' if st == 'guard'
                         else 'the refill only asks for %s characters' % _fmt(u)))
    f = R.methods.get('peek')
    if f is None:
        raise AnalysisError('Reader.peek has vanished')
    if len(f.params) < 2:
        raise AnalysisError('Reader.peek: expected (self, index)')
    idx = f.params[1]
    tries = [n for n in walk_function(f.node) if isinstance(n, ast.Try)]
    ok = False
    if len(tries) == 1:
        for h in tries[0].handlers:
            types = h.type.elts if isinstance(h.type, ast.Tuple) else [h.type] if h.type is not None else []
            if not any(isinstance(t, ast.Name) and t.id in ('IndexError', 'LookupError', 'Exception') for t in types):
                continue
            ups = [c for c in A.calls_in(h.body) if is_self_call(c, f, 'update')]
            if ups and ups[0].args:
                pflow = Flow(f)
                u = lf_at(pflow, ups[0].args[0], pflow.node_of(ups[0]))
                if u is not None and set(_clean(u)) <= {idx, ''} and u.get(idx, 0) == 1 and u.get('', 0) >= 1:
                    ok = True
            break
    elif not tries:
        # the same contract written as a guarded refill: offset `index` is read
        ok = _refill_guard(f, idx, {idx: 1, '': 0})[0] == 'ok'
    if ok:
        rule.ok(f.loc(), 'Reader.peek refills index+1 characters when the buffer is too short')
    else:
        rule.fail('%s|lookahead' % f.qualname, f.module.rel, f.node.lineno, f.qualname, 'self.update(index + 1)',
                  'Reader.peek does not refill far enough to read offset `index`')
    return rule


# ======================================================================================================================
# R-BOM-NEEDS-TWO
# ======================================================================================================================

def _subst_eval(repo, test, subs, env):
    return CW.eval_cond(repo, subst_attrs(test, subs), env)


def _is_bom_test(f, e):
    """self.raw_buffer.startswith(codecs.BOM_...)"""
    return isinstance(e, ast.Call) and isinstance(e.func, ast.Attribute) and e.func.attr == 'startswith' and e.args \
        and any(isinstance(x, ast.Attribute) and x.attr.startswith('BOM') for x in ast.walk(e.args[0]))


def r_bom_needs_two(ctx, repo):
    rule = ctx.rule('R-BOM-NEEDS-TWO', 'determine_encoding keeps reading until it has two bytes (or end of input) before it looks for a '
                                       'byte order mark')
    R = repo.cls('reader.Reader')
    f = R.methods.get('determine_encoding')
    if f is None:
        raise AnalysisError('Reader.determine_encoding has vanished')
    loops = [n for n in walk_function(f.node) if isinstance(n, ast.While) and any(
        is_self_call(c, f, 'update_raw') for c in A.calls_in(n.body))]
    if len(loops) != 1:
        rule.fail('%s|loop' % f.qualname, f.module.rel, f.node.lineno, f.qualname, 'while ...: self.update_raw()',
                  'determine_encoding has no read loop before the BOM test')
        return rule
    loop = loops[0]
    s = self_name(f)
    kb, ke = '%s.raw_buffer' % s, '%s.eof' % s
    bad = []
    for probe in (None, b'', b'\xff', b'a'):
        r = _subst_eval(repo, loop.test, {kb: probe, ke: False}, {})
        if r is not True:
            bad.append(repr(probe))
    stop_ok = _subst_eval(repo, loop.test, {kb: b'\xff\xfe', ke: False}, {}) is False and \
        _subst_eval(repo, loop.test, {kb: b'a', ke: True}, {}) is False
    cfg = CFG(f.node)
    tests = [n for n in cfg.nodes if n.kind == 'test' and any(_is_bom_test(f, x) for x in ast.walk(n.ast))]
    head = cfg.entry_of(loop)
    dominated = bool(tests) and head is not None and all(cfg.dominates(head, t) for t in tests)
    if not bad and stop_ok and dominated:
        rule.ok(f.loc(loop), 'reads while fewer than 2 bytes and not eof; BOM tests follow the loop')
    else:
        rule.fail('%s|two-bytes' % f.qualname, f.module.rel, loop.lineno, f.qualname, 'while %s' % norm(loop.test),
                  'the BOM test can run with raw_buffer = %s although the stream has more to deliver: a UTF-16 stream whose first '
                  'read() returns a single byte is taken for UTF-8' % (', '.join(bad) or '?') if bad else
                  'the encoding loop does not stop once two bytes (or end of input) are available, or the BOM tests are not '
                  'dominated by it')
    return rule


# ======================================================================================================================
# R-POSITION-ARITHMETIC
# ======================================================================================================================

def _reader_error_positions(repo, f, flow):
    """for every `ReaderError(...)` constructed in f: (call, handler-name-or-None, [(value expr, node) that can be its
    .position])"""
    RE = repo.cls('reader.ReaderError')
    out = []
    for c in A.func_calls(f.node):
        if not (isinstance(c.func, ast.Name) and RE in callee_classes(repo, f.cls, flow, c)):
            continue
        arg = ctor_arg(repo, RE, c, 'position')
        if arg is None:
            raise AnalysisError('%s: ReaderError constructed without a position' % f.qualname)
        hname = None
        p = c
        while p is not None and p is not f.node:
            if isinstance(p, ast.ExceptHandler) and p.name:
                hname = p.name
                break
            p = getattr(p, '_parent', None)
        vals = []
        for kind, e, node, idx in origins(flow, arg, flow.node_of(c)):
            if kind != 'expr':
                raise AnalysisError('%s: the position passed to ReaderError (%s) is not a plain computed value' % (f.qualname, norm(arg)))
            vals.append((e, node))
        out.append((c, hname, vals))
    return out


def _once_per_iteration(cfg, head, a, b):
    """within one iteration of the loop at `head`, a executes iff b executes."""
    for x, y in ((a, b), (b, a)):
        # an iteration that executes x but not y: head -> x avoiding y, and x -> head/exit avoiding y
        to_x = cfg.reach([m for (m, lab) in cfg.succ[head]], blocked=[y, head])
        if x in to_x:
            frm = cfg.reach([m for (m, lab) in cfg.succ[x]], blocked=[y])
            if head in frm or cfg.exit_return in frm or cfg.exit_fall in frm:
                return False
    return True


def r_positions(ctx, repo):
    rule = ctx.rule('R-POSITION-ARITHMETIC', 'reader error positions are the affine expressions implied by the reader\'s own invariants: '
                                             'buffer[pointer] has absolute index self.index; raw_buffer is the tail of what was read')
    R = repo.cls('reader.Reader')
    f = R.methods.get('check_printable')
    if f is None:
        raise AnalysisError('Reader.check_printable has vanished')
    if len(f.params) < 2:
        raise AnalysisError('Reader.check_printable: expected (self, data)')
    flow = Flow(f)
    sites = _reader_error_positions(repo, f, flow)
    if not sites:
        raise AnalysisError('Reader.check_printable: no ReaderError is raised')

    def match_start(e, node):
        """<m>.start() with m the result of <regex>.search(<the chunk parameter>) -> the offset of the offending character"""
        if isinstance(e, ast.Call) and not e.args and isinstance(e.func, ast.Attribute) and e.func.attr == 'start':
            og = origins(flow, e.func.value, node)
            if og and all(k == 'expr' and isinstance(x, ast.Call) and isinstance(x.func, ast.Attribute) and x.func.attr == 'search'
                          and len(x.args) == 1 and isinstance(x.args[0], ast.Name) and x.args[0].id == f.params[1]
                          for k, x, n, i in og):
                return '<match>.start()'
        return None
    want = {'self.index': 1, 'len(self.buffer)': 1, 'self.pointer': -1, '<match>.start()': 1}
    forms = [(_clean(lf_at(flow, e, node, match_start)), e) for c, h, vals in sites for e, node in vals]
    c0 = sites[0][0]
    if forms and all(fm == want for fm, e in forms):
        rule.ok(f.loc(c0), 'position = index + (len(buffer) - pointer) + match.start()')
    else:
        got = [fm for fm, e in forms if fm != want]
        rule.fail('%s|position' % f.qualname, f.module.rel, c0.lineno, f.qualname,
                  norm(forms[0][1]) if forms else 'position = ...',
                  'the position of a non-printable character is computed as %s; the chunk being checked will be appended at '
                  'len(buffer) while buffer[pointer] has absolute index self.index, so it must be index + len(buffer) - pointer + '
                  'match.start(): positions differ between str input and streamed input' % (got[0] if got else None))
    g = R.methods.get('update')
    if g is None:
        raise AnalysisError('Reader.update has vanished')
    forms = []
    first = None
    for h in helper_group(repo, R, g):
        hflow = Flow(h)
        for c, hname, vals in _reader_error_positions(repo, h, hflow):
            if hname is None:
                continue
            first = first or (h, c)

            def exc_start(e, node, hname=hname):
                return '<exc>.start' if isinstance(e, ast.Attribute) and e.attr == 'start' and isinstance(e.value, ast.Name) \
                    and e.value.id == hname else None
            for e, node in vals:
                forms.append((_clean(lf_at(hflow, e, node, exc_start)), e))
    w1 = {'self.stream_pointer': 1, 'len(self.raw_buffer)': -1, '<exc>.start': 1}
    w2 = {'<exc>.start': 1}
    fl = [fm for fm, e in forms]
    if len(fl) == 2 and w1 in fl and w2 in fl:
        rule.ok(first[0].loc(first[1]), 'decode error position = stream_pointer - len(raw_buffer) + exc.start (stream) / exc.start (bytes)')
    else:
        rule.fail('%s|position' % g.qualname, g.module.rel, (first[1].lineno if first else g.node.lineno), g.qualname,
                  '; '.join(norm(e) for fm, e in forms)[:90],
                  'the position of an undecodable byte is not stream_pointer - len(raw_buffer) + exc.start for streams and '
                  'exc.start for byte strings: got %s' % fl)
    # index / pointer advance together in forward; update re-bases buffer and pointer together
    fw = R.methods.get('forward')
    if fw is None:
        raise AnalysisError('Reader.forward has vanished')
    fcfg = CFG(fw.node)
    body_ok = False
    for loop in walk_function(fw.node):
        if isinstance(loop, ast.While):
            head = fcfg.entry_of(loop)
            pi = [s for s, e in M.find(loop.body, 'self.pointer += 1')]
            ii = [s for s, e in M.find(loop.body, 'self.index += 1')]
            if head is not None and len(pi) == 1 and len(ii) == 1:
                a, b = fcfg.nodes_of(pi[0]), fcfg.nodes_of(ii[0])
                if a and b and _once_per_iteration(fcfg, head, a[0], b[0]):
                    body_ok = True
    gcfg = CFG(g.node)
    cut = [s for s, e in M.find(g.node, 'self.buffer = self.buffer[self.pointer:]')]
    zero = [s for s, e in M.find(g.node, 'self.pointer = 0')]
    rebase = False
    if len(cut) == 1 and zero:
        cn = gcfg.nodes_of(cut[0])
        zn = [n for z in zero for n in gcfg.nodes_of(z)]
        # the prefix is dropped exactly when the pointer is zeroed: neither is reachable without the other
        if cn and zn and all(gcfg.dominates(cn[0], z) for z in zn) \
                and not gcfg.paths_to_normal_exit_avoiding([m for (m, lab) in gcfg.succ[cn[0]]], zn):
            rebase = True
    if body_ok and rebase:
        rule.ok(fw.loc(), 'index and pointer advance together; update drops the consumed prefix and zeroes pointer')
    else:
        rule.fail('reader.Reader|alignment', fw.module.rel, fw.node.lineno, fw.qualname, 'self.pointer += 1; self.index += 1',
                  'self.index and self.pointer no longer advance together (or update re-bases one without the other): marks drift '
                  'away from the text once the buffer has been refilled')
    um = R.methods.get('update_raw')
    if um is None:
        raise AnalysisError('Reader.update_raw has vanished')
    uflow = Flow(um)
    counted = False
    for s, e in M.find(um.node, 'self.stream_pointer += len(__d)'):
        og = origins(uflow, e['__d'], uflow.node_of(s))
        if og and all(k == 'expr' and _is_stream_read(um, x) for k, x, n, i in og):
            counted = True
    if counted:
        rule.ok(um.loc(), 'stream_pointer counts every unit read')
    else:
        rule.fail('%s|stream_pointer' % um.qualname, um.module.rel, um.node.lineno, um.qualname, 'self.stream_pointer += len(data)',
                  'stream_pointer no longer counts what has been read from the stream')
    return rule


# ======================================================================================================================
# R-PYX-INPUT-CACHE
# ======================================================================================================================

def _guarded_by(cfg, node, f, want):
    """every path to `node` passes an edge of a test on which `want(test expr)` says which label establishes the fact."""
    edges = []
    for t in cfg.nodes:
        if t.kind == 'test' and t.ast is not None:
            lab = want(t.ast)
            if lab is not None:
                edges.append((t, lab))
    return bool(edges) and cfg.guarded(node, edges=edges)


def r_pyx_input_cache(ctx, repo):
    rule = ctx.rule('R-PYX-INPUT-CACHE', 'the C input handler copies at most `size` bytes from its cache, advances by what it copied, drops '
                                         'the cache only when exhausted and re-encodes str chunks as UTF-8')
    f = repo.modules['_yaml'].functions.get('input_handler')
    if f is None:
        raise AnalysisError('input_handler has vanished')
    if len(f.params) < 4:
        raise AnalysisError('input_handler: expected (data, buffer, size, read)')
    p_data, p_buf, p_size, p_read = f.params[:4]
    flow = Flow(f)
    cfg = flow.cfg
    # the parser object: the local the opaque `data` pointer is cast into
    objs = {t.id for n in walk_function(f.node) if isinstance(n, ast.Assign) and isinstance(n.value, ast.Name) and n.value.id == p_data
            for t in n.targets if isinstance(t, ast.Name)}
    if len(objs) != 1:
        raise AnalysisError('input_handler: the parser object (cast of the first argument) was not found')
    P = objs.pop()
    env = name_env(p=P, buf=p_buf, size=p_size, read=p_read)
    # the chunk: the local assigned from <parser>.stream.read(...)
    reads = [(n, t.id) for n in walk_function(f.node) if isinstance(n, ast.Assign) and isinstance(n.value, ast.Call)
             and matches('_N_p.stream.read', n.value.func, env) is not None for t in n.targets if isinstance(t, ast.Name)]
    if len({v for n, v in reads}) != 1:
        raise AnalysisError('input_handler: the stream.read() call was not found')
    V = reads[0][1]
    env.update(name_env(v=V))
    LEN, POS = '%s.stream_cache_len' % P, '%s.stream_cache_pos' % P
    remaining = {LEN: 1, POS: -1}

    def is_remaining(e, at):
        return _clean(lf_at(flow, e, at)) == remaining

    # 1. copy length limited to what the cache holds
    limited = False
    for n in walk_function(f.node):
        if isinstance(n, ast.If):
            tn = cfg.nodes_of(n.test)
            iq = inequality(n.test, lambda e: lf_at(flow, e, tn[0])) if tn else None
            if iq is not None and _clean(iq[0]) == {p_size: 1, LEN: -1, POS: 1}:
                for s in n.body:
                    if isinstance(s, ast.Assign) and len(s.targets) == 1 and isinstance(s.targets[0], ast.Name) \
                            and s.targets[0].id == p_size and is_remaining(s.value, flow.node_of(s)):
                        limited = True
        elif isinstance(n, ast.Assign) and len(n.targets) == 1 and isinstance(n.targets[0], ast.Name) and n.targets[0].id == p_size \
                and isinstance(n.value, ast.Call) and isinstance(n.value.func, ast.Name) and n.value.func.id == 'min' \
                and len(n.value.args) == 2 and not n.value.keywords:
            a, b = n.value.args
            at = flow.node_of(n)
            if (isinstance(a, ast.Name) and a.id == p_size and is_remaining(b, at)) or \
                    (isinstance(b, ast.Name) and b.id == p_size and is_remaining(a, at)):
                limited = True
    # 5. the cache is dropped only when exhausted
    drops = [flow.node_of(s) for s, e in M.find(f.node, '_N_p.stream_cache = None', env)]

    def exhausted(t):
        for src, lab in (('_N_p.stream_cache_pos == _N_p.stream_cache_len', True), ('_N_p.stream_cache_len == _N_p.stream_cache_pos', True),
                         ('_N_p.stream_cache_pos != _N_p.stream_cache_len', False), ('_N_p.stream_cache_len != _N_p.stream_cache_pos', False)):
            if matches(src, t, env) is not None:
                return lab
        iq = inequality(t)
        if iq is not None and _clean(iq[0]) == {POS: 1, LEN: -1} and not iq[1]:
            return True             # pos >= len
        if iq is not None and _clean(iq[0]) == {LEN: 1, POS: -1} and iq[1]:
            return False            # len > pos
        return None
    drop_ok = bool(drops) and all(_guarded_by(cfg, d, f, exhausted) for d in drops)

    # 6. str chunks re-encoded as UTF-8
    def is_str(t):
        for src, lab in (('PyUnicode_CheckExact(_N_v) != 0', True), ('PyUnicode_CheckExact(_N_v) == 0', False),
                         ('PyUnicode_CheckExact(_N_v)', True), ('PyUnicode_Check(_N_v) != 0', True), ('PyUnicode_Check(_N_v)', True),
                         ('isinstance(_N_v, str)', True)):
            if matches(src, t, env) is not None:
                return lab
        return None
    enc = [flow.node_of(s) for s, e in M.find(f.node, '_N_v = PyUnicode_AsUTF8String(_N_v)', env)]
    # ... on every path from a str chunk to the cache
    stores = [flow.node_of(s) for s, e in M.find(f.node, '_N_p.stream_cache = _N_v', env)]
    str_edges = [(t, lab) for t in cfg.nodes if t.kind == 'test' and t.ast is not None for lab in [is_str(t.ast)] if lab is not None]
    reenc = bool(enc) and bool(stores) and bool(str_edges) and all(_guarded_by(cfg, e, f, is_str) for e in enc)
    if reenc:
        # a chunk known to be str cannot reach the store without the conversion
        after_str = cfg.reach([m for (t, lab) in str_edges for (m, l2) in cfg.succ[t] if l2 == lab], blocked=enc)
        if any(s in after_str for s in stores):
            reenc = False

    # 7. the stream is read only when the cache is empty
    def empty(t):
        for src, lab in (('_N_p.stream_cache is None', True), ('_N_p.stream_cache is not None', False)):
            if matches(src, t, env) is not None:
                return lab
        return None
    read_ok = all(_guarded_by(cfg, flow.node_of(n), f, empty) for n, v in reads)
    # 8. a fresh chunk is cached together with position 0 and its byte length
    def together(x, s):
        return cfg.dominates(x, s) or cfg.postdominates_normal(x, s)
    pos0 = [flow.node_of(x) for x, e in M.find(f.node, '_N_p.stream_cache_pos = 0', env)]
    ln = [flow.node_of(x) for src in ('_N_p.stream_cache_len = PyBytes_GET_SIZE(_N_v)', '_N_p.stream_cache_len = PyBytes_GET_SIZE(_N_p.stream_cache)',
                                      '_N_p.stream_cache_len = PyBytes_Size(_N_v)', '_N_p.stream_cache_len = len(_N_v)')
          for x, e in M.find(f.node, src, env)]
    fresh = bool(stores) and all(any(together(n, s) for n in pos0) and any(together(n, s) for n in ln) for s in stores)
    facts = [
        (limited, 'copy length limited to what the cache holds'),
        (M.has(f.node, 'memcpy(_N_buf, PyBytes_AS_STRING(_N_p.stream_cache) + _N_p.stream_cache_pos, _N_size)', env),
         'copies from the current cache position'),
        (M.has(f.node, '_N_read[0] = _N_size', env), 'reports the number of bytes copied'),
        (M.has(f.node, '_N_p.stream_cache_pos += _N_size', env), 'advances by the amount copied'),
        (drop_ok, 'drops the cache only when exhausted'),
        (reenc, 'str chunks re-encoded as UTF-8'),
        (read_ok, 'reads the stream only when the cache is empty'),
        (fresh, 'caches a fresh chunk with position 0 and its byte length'),
    ]
    for ok, what in facts:
        if ok:
            rule.ok(f.loc(), 'input_handler ' + what)
        else:
            rule.fail('%s|%s' % (f.qualname, what), f.module.rel, f.node.lineno, f.qualname, what,
                      'the C input handler no longer %s: what libyaml receives depends on the sizes of the pieces read() returns' % what)
    return rule


# ======================================================================================================================
# R-DECODE-ERROR-INDEX: the offsets of a UnicodeDecodeError index the very object that was decoded
# ======================================================================================================================

def r_decode_error_index(ctx, repo):
    """`except UnicodeDecodeError as exc: X[exc.start]` is total only when X is the bytes object whose decoding raised exc:
    exc.start lies inside exc.object.  That needs (i) X to be the (unmodified) first argument of the decoding call in the
    try body, and (ii) the decoder to be stateless - an incremental decoder object prepends bytes it kept from earlier calls,
    so its offsets refer to a buffer the caller does not have (IndexError at the end of input / after a split character)."""
    rule = ctx.rule('R-DECODE-ERROR-INDEX', 'an object subscripted with the offsets of a caught UnicodeDecodeError is the first '
                                            'argument of the stateless decoding call that raised it')
    R = repo.cls('reader.Reader')
    n_sites = 0
    for f in live_methods(repo, R):
        me = self_name(f)
        for t in walk_function(f.node):
            if not isinstance(t, ast.Try):
                continue
            for h in t.handlers:
                if h.name is None or h.type is None or 'UnicodeDecodeError' not in norm(h.type):
                    continue
                subs = [s for b in h.body for s in ast.walk(b) if isinstance(s, ast.Subscript)
                        and any(isinstance(x, ast.Attribute) and isinstance(x.value, ast.Name) and x.value.id == h.name
                                and x.attr in ('start', 'end') for x in ast.walk(s.slice))]
                if not subs:
                    continue
                decs = [c for b in t.body for c in ast.walk(b) if isinstance(c, ast.Call) and c.args
                        and (is_self_attr(c.func, f, 'raw_decode') or (isinstance(c.func, ast.Attribute) and c.func.attr == 'decode')
                             or norm(c.func).startswith('codecs.'))]
                for s in subs:
                    n_sites += 1
                    base = norm(s.value)
                    if base == h.name + '.object':
                        rule.ok(f.loc(s), '%s indexes the exception\'s own object' % norm(s)[:50])
                        continue
                    if len(decs) != 1:
                        raise AnalysisError('%s: the decoding call guarded by `except UnicodeDecodeError` was not identified' % f.qualname)
                    c = decs[0]
                    why = None
                    if norm(c.args[0]) != base:
                        why = ('%s is indexed with the offsets of an error raised while decoding %s'
                               % (base, norm(c.args[0])[:40]))
                    elif any(isinstance(x, (ast.Assign, ast.AugAssign)) and
                             any(norm(tg) == base for tg in (x.targets if isinstance(x, ast.Assign) else [x.target]))
                             for b in t.body + h.body for x in ast.walk(b)):
                        why = '%s is rebound between the decoding call and the use of the error offsets' % base
                    elif is_self_attr(c.func, f, 'raw_decode'):
                        # every value stored in self.raw_decode must be a stateless codec function (codecs.<name>_decode) or None
                        for g in live_methods(repo, R):
                            for a in walk_function(g.node):
                                if not (isinstance(a, ast.Assign) and any(is_self_attr(tg, g, 'raw_decode') for tg in a.targets)):
                                    continue
                                for v in A.local_values(g.node, a.value, g.params):
                                    if isinstance(v, ast.Constant) and v.value is None:
                                        continue
                                    r = repo.resolve_expr(g.module, v, cls=None) if isinstance(v, (ast.Attribute, ast.Name)) else None
                                    vt = norm(v)
                                    if r is not None and r.kind == 'ext' and str(r.obj).startswith('codecs.') and str(r.obj).endswith('_decode'):
                                        continue
                                    if vt.startswith('codecs.') and vt.endswith('_decode') and '(' not in vt:
                                        continue
                                    why = ('self.raw_decode can be %s (%s:%d), which is not one of the stateless codecs.*_decode '
                                           'functions: a decoder that keeps bytes between calls reports offsets into its own '
                                           'buffer, not into %s' % (vt[:50], g.qualname, a.lineno, base))
                    elif isinstance(c.func, ast.Attribute) and c.func.attr == 'decode' and norm(c.func.value) != base:
                        why = 'the decoding call is a method of %s, not of the indexed object' % norm(c.func.value)[:40]
                    if why is None:
                        rule.ok(f.loc(s), '%s: offsets of an error raised by a stateless decoder on %s itself' % (norm(s)[:40], base))
                    else:
                        rule.fail('%s|%s' % (f.qualname, A.anon_text(s, f.node, 60)), f.module.rel, s.lineno, f.qualname, norm(s)[:60],
                                  why + ': undecodable input can end in IndexError instead of ReaderError')
    if n_sites == 0:
        rule.ok('%s' % R.module.rel, 'no handler of UnicodeDecodeError indexes with the error offsets (nothing to check)')
    return rule
