"""C07: the result does not depend on how the input is delivered (reader clauses)."""
import ast

from . import astutil as A
from . import charworld as CW
from .cfg import CFG, own_exprs
from .srcmodel import AnalysisError, FuncInfo, norm, walk_function


def linear_form(e, atoms=None):
    """{atom text: coefficient, '': constant} of an expression built from + - and atoms; None if not linear."""
    if isinstance(e, ast.Constant) and isinstance(e.value, int):
        return {'': e.value}
    if isinstance(e, ast.BinOp) and isinstance(e.op, (ast.Add, ast.Sub)):
        l, r = linear_form(e.left), linear_form(e.right)
        if l is None or r is None:
            return None
        out = dict(l)
        sign = 1 if isinstance(e.op, ast.Add) else -1
        for k, v in r.items():
            out[k] = out.get(k, 0) + sign * v
        return {k: v for k, v in out.items() if v != 0 or k == ''}
    if isinstance(e, ast.UnaryOp) and isinstance(e.op, ast.USub):
        l = linear_form(e.operand)
        return None if l is None else {k: -v for k, v in l.items()}
    if isinstance(e, ast.BinOp) and isinstance(e.op, ast.Mult):
        for a, b in ((e.left, e.right), (e.right, e.left)):
            if isinstance(a, ast.Constant) and isinstance(a.value, int):
                l = linear_form(b)
                return None if l is None else {k: v * a.value for k, v in l.items()}
        return None
    return {norm(e): 1}


def _clean(f):
    return {k: v for k, v in (f or {}).items() if v != 0}


def _subst_eval(repo, test, subs, env):
    src = norm(test)
    for k, v in subs.items():
        src = src.replace(k, v)
    e2 = ast.parse(src, mode='eval').body
    return CW.eval_cond(repo, e2, env)


def r_incremental_decode(ctx, repo):
    rule = ctx.rule('R-INCREMENTAL-DECODE', 'Reader.update decodes incrementally: final=self.eof, the undecoded tail is kept, update_raw '
                                            'appends to it, and end of input is declared only on an empty read')
    R = repo.cls('reader.Reader')
    upd, raw = R.methods.get('update'), R.methods.get('update_raw')
    if upd is None or raw is None:
        raise AnalysisError('Reader.update/update_raw have vanished')
    dec = [c for c in A.func_calls(upd.node) if norm(c.func) == 'self.raw_decode']
    if len(dec) != 1:
        raise AnalysisError('Reader.update: decoder call not found')
    c = dec[0]
    args = [norm(a) for a in c.args]
    if len(args) >= 3 and args[0] == 'self.raw_buffer' and args[2] == 'self.eof':
        rule.ok(upd.loc(c), 'raw_decode(self.raw_buffer, ..., final=self.eof)')
    else:
        rule.fail('%s|final' % upd.qualname, upd.module.rel, c.lineno, upd.qualname, norm(c),
                  'the decoder is not called with final=self.eof on the whole undecoded tail: a multi-byte sequence split across '
                  'two reads is reported as invalid (or silently dropped) depending on where the stream was chunked')
    st = A.enclosing_stmt(c)
    conv = None
    if isinstance(st, ast.Assign) and isinstance(st.targets[0], ast.Tuple) and len(st.targets[0].elts) == 2:
        conv = norm(st.targets[0].elts[1])
    keep = [n for n in walk_function(upd.node) if isinstance(n, ast.Assign) and norm(n.targets[0]) == 'self.raw_buffer'
            and isinstance(n.value, ast.Subscript) and isinstance(n.value.slice, ast.Slice)]
    if conv and keep and all(norm(k.value.value) == 'self.raw_buffer' and k.value.slice.lower is not None
                             and norm(k.value.slice.lower) == conv and k.value.slice.upper is None for k in keep):
        rule.ok(upd.loc(keep[0]), 'undecoded tail kept: raw_buffer = raw_buffer[%s:]' % conv)
    else:
        rule.fail('%s|tail' % upd.qualname, upd.module.rel, (keep[0].lineno if keep else upd.node.lineno), upd.qualname,
                  'self.raw_buffer = self.raw_buffer[converted:]',
                  'the bytes the decoder did not consume are not kept for the next refill')
    t = norm(raw.node)
    cfg = CFG(raw.node)
    app = [n for n in cfg.nodes if n.kind == 'stmt' and isinstance(n.ast, ast.AugAssign) and norm(n.ast.target) == 'self.raw_buffer'
           and isinstance(n.ast.op, ast.Add)]
    if app:
        rule.ok(raw.loc(app[0].ast), 'update_raw appends to the undecoded tail')
    else:
        rule.fail('%s|append' % raw.qualname, raw.module.rel, raw.node.lineno, raw.qualname, 'self.raw_buffer += data',
                  'update_raw no longer appends new data to the undecoded tail')
    # eof only on an empty read
    eofs = [n for n in walk_function(raw.node) if isinstance(n, ast.Assign) and norm(n.targets[0]) == 'self.eof'
            and isinstance(n.value, ast.Constant) and n.value.value is True]
    if not eofs:
        raise AnalysisError('update_raw: no `self.eof = True`')
    from .rules_emit import _path_condition
    size_param = raw.params[1] if len(raw.params) > 1 else 'size'
    for e in eofs:
        conds = _path_condition(e, raw.node)
        bad = None
        for probe in ('x', 'abc', b'\xff', 'x' * 10):
            val = True
            for tt, pol in conds:
                r = CW.eval_cond(repo, tt, {'data': probe, size_param: 4096})
                if r is None:
                    val = None
                    break
                if r != pol:
                    val = False
                    break
            if val is not False:
                bad = probe
        empty_ok = True
        for probe in ('', b''):
            val = True
            for tt, pol in conds:
                r = CW.eval_cond(repo, tt, {'data': probe, size_param: 4096})
                if r is not pol:
                    val = False
            if not val:
                empty_ok = False
        if bad is None and empty_ok and conds:
            rule.ok(raw.loc(e), 'eof is declared exactly when read() returned nothing')
        else:
            rule.fail('%s|eof' % raw.qualname, raw.module.rel, e.lineno, raw.qualname, norm(getattr(e, '_parent', e))[:70],
                      'end of input is declared although read() returned data (e.g. %r): a stream that delivers short reads '
                      '(pipe, socket) has its document silently cut off' % (bad,) if bad is not None else
                      'end of input is not declared when read() returns nothing')
    return rule


def r_lookahead_sufficient(ctx, repo):
    rule = ctx.rule('R-LOOKAHEAD-SUFFICIENT', 'peek/prefix/forward refill the buffer far enough for the largest offset they read (forward '
                                              'needs one character beyond the last consumed one for the CR LF test)')
    R = repo.cls('reader.Reader')
    for name in ('forward', 'prefix'):
        f = R.methods.get(name)
        if f is None:
            raise AnalysisError('Reader.%s has vanished' % name)
        L = f.params[1]
        # largest offset read relative to the entry pointer
        if name == 'forward':
            reads_after_inc = False
            for loop in walk_function(f.node):
                if isinstance(loop, ast.While):
                    seen_inc = False
                    for st in loop.body:
                        if isinstance(st, ast.AugAssign) and norm(st.target) == 'self.pointer':
                            seen_inc = True
                        elif seen_inc and 'self.buffer[self.pointer]' in norm(st):
                            reads_after_inc = True
            maxoff = {L: 1, '': 0} if reads_after_inc else {L: 1, '': -1}
        else:
            maxoff = {L: 1, '': -1}
        guards = [n for n in walk_function(f.node) if isinstance(n, ast.If) and any(
            norm(c.func) == 'self.update' for c in A.calls_in(n.body))]
        if len(guards) != 1:
            rule.fail('%s|refill' % f.qualname, f.module.rel, f.node.lineno, f.qualname, 'if ...: self.update(...)',
                      'Reader.%s has no (single) guarded refill before it reads the buffer' % name)
            continue
        g = guards[0]
        t = g.test
        okg = False
        a = None
        if isinstance(t, ast.Compare) and len(t.ops) == 1 and norm(t.comparators[0]) == 'len(self.buffer)':
            lf = linear_form(t.left)
            if lf is not None and lf.get('self.pointer') == 1:
                a = {k: v for k, v in lf.items() if k != 'self.pointer'}
                a.setdefault('', 0)
                # guard fires iff len <= p + a (>=) or len < p + a (>)
                if isinstance(t.ops[0], ast.GtE):
                    need = dict(maxoff)
                elif isinstance(t.ops[0], ast.Gt):
                    need = {L: maxoff.get(L, 0), '': maxoff.get('', 0) + 1}
                else:
                    need = None
                if need is not None and a.get(L, 0) == need.get(L, 0) and a.get('', 0) >= need.get('', 0):
                    okg = True
        upd = [c for c in A.calls_in(g.body) if norm(c.func) == 'self.update'][0]
        u = linear_form(upd.args[0]) if upd.args else None
        oku = u is not None and u.get(L, 0) == 1 and u.get('', 0) >= maxoff.get('', 0) + 1
        if okg and oku:
            rule.ok(f.loc(g), 'Reader.%s: refill guard and amount cover offset %s' % (name, _fmt(maxoff)))
        else:
            rule.fail('%s|lookahead' % f.qualname, f.module.rel, g.lineno, f.qualname, norm(g.test) + ': ' + norm(upd),
                      'Reader.%s reads up to offset pointer+%s but %s: with input delivered in small pieces the read runs past the '
                      'buffer (IndexError) or a CR LF pair split across two refills is counted as two line breaks'
                      % (name, _fmt(maxoff), 'the refill guard does not fire early enough' if not okg
                         else 'the refill only asks for %s characters' % _fmt(u)))
    f = R.methods.get('peek')
    if f is None:
        raise AnalysisError('Reader.peek has vanished')
    idx = f.params[1]
    tries = [n for n in walk_function(f.node) if isinstance(n, ast.Try)]
    ok = False
    if len(tries) == 1 and tries[0].handlers and norm(tries[0].handlers[0].type) == 'IndexError':
        h = tries[0].handlers[0]
        ups = [c for c in A.calls_in(h.body) if norm(c.func) == 'self.update']
        if ups and ups[0].args:
            u = linear_form(ups[0].args[0])
            if u is not None and u.get(idx, 0) == 1 and u.get('', 0) >= 1:
                ok = True
    if ok:
        rule.ok(f.loc(), 'Reader.peek refills index+1 characters on IndexError')
    else:
        rule.fail('%s|lookahead' % f.qualname, f.module.rel, f.node.lineno, f.qualname, 'self.update(index + 1)',
                  'Reader.peek does not refill far enough to read offset `index`')
    return rule


def _fmt(lf):
    if lf is None:
        return '?'
    parts = []
    for k, v in lf.items():
        if k == '':
            continue
        parts.append(('%d*%s' % (v, k)) if v != 1 else k)
    c = lf.get('', 0)
    if c:
        parts.append(str(c))
    return '+'.join(parts).replace('+-', '-') or '0'


def r_bom_needs_two(ctx, repo):
    rule = ctx.rule('R-BOM-NEEDS-TWO', 'determine_encoding keeps reading until it has two bytes (or end of input) before it looks for a '
                                       'byte order mark')
    R = repo.cls('reader.Reader')
    f = R.methods.get('determine_encoding')
    if f is None:
        raise AnalysisError('Reader.determine_encoding has vanished')
    loops = [n for n in walk_function(f.node) if isinstance(n, ast.While) and any(
        norm(c.func) == 'self.update_raw' for c in A.calls_in(n.body))]
    if len(loops) != 1:
        rule.fail('%s|loop' % f.qualname, f.module.rel, f.node.lineno, f.qualname, 'while ...: self.update_raw()',
                  'determine_encoding has no read loop before the BOM test')
        return rule
    loop = loops[0]
    bad = []
    for probe in ('None', "b''", "b'\\xff'", "b'a'"):
        r = _subst_eval(repo, loop.test, {'self.raw_buffer': probe, 'self.eof': 'False'}, {})
        if r is not True:
            bad.append(probe)
    stop_ok = _subst_eval(repo, loop.test, {'self.raw_buffer': "b'\\xff\\xfe'", 'self.eof': 'False'}, {}) is False and \
        _subst_eval(repo, loop.test, {'self.raw_buffer': "b'a'", 'self.eof': 'True'}, {}) is False
    cfg = CFG(f.node)
    tests = [n for n in cfg.nodes if n.kind == 'test' and 'startswith(codecs.BOM' in norm(n.ast)]
    head = cfg.entry_of(loop)
    dominated = bool(tests) and head is not None and all(cfg.dominates(head, t) for t in tests)
    if not bad and stop_ok and dominated:
        rule.ok(f.loc(loop), 'reads while fewer than 2 bytes and not eof; BOM tests follow the loop')
    else:
        rule.fail('%s|two-bytes' % f.qualname, f.module.rel, loop.lineno, f.qualname, 'while %s' % norm(loop.test),
                  'the BOM test can run with raw_buffer = %s although the stream has more to deliver: a UTF-16 stream whose first '
                  'read() returns a single byte is taken for UTF-8' % (', '.join(bad) or '?') if bad else
                  'the encoding loop does not stop once two bytes (or end of input) are available, or the BOM tests are not '
                  'dominated by it')
    return rule


def r_positions(ctx, repo):
    rule = ctx.rule('R-POSITION-ARITHMETIC', 'reader error positions are the affine expressions implied by the reader\'s own invariants: '
                                             'buffer[pointer] has absolute index self.index; raw_buffer is the tail of what was read')
    R = repo.cls('reader.Reader')
    f = R.methods.get('check_printable')
    if f is None:
        raise AnalysisError('Reader.check_printable has vanished')
    pos = [n for n in walk_function(f.node) if isinstance(n, ast.Assign) and norm(n.targets[0]) == 'position']
    want = {'self.index': 1, 'len(self.buffer)': 1, 'self.pointer': -1, 'match.start()': 1}
    if len(pos) == 1 and _clean(linear_form(pos[0].value)) == want:
        rule.ok(f.loc(pos[0]), 'position = index + (len(buffer) - pointer) + match.start()')
    else:
        got = _clean(linear_form(pos[0].value)) if pos else None
        rule.fail('%s|position' % f.qualname, f.module.rel, (pos[0].lineno if pos else f.node.lineno), f.qualname,
                  norm(pos[0]) if pos else 'position = ...',
                  'the position of a non-printable character is computed as %s; the chunk being checked will be appended at '
                  'len(buffer) while buffer[pointer] has absolute index self.index, so it must be index + len(buffer) - pointer + '
                  'match.start(): positions differ between str input and streamed input' % got)
    g = R.methods.get('update')
    pos = [n for n in walk_function(g.node) if isinstance(n, ast.Assign) and norm(n.targets[0]) == 'position']
    forms = [_clean(linear_form(p.value)) for p in pos]
    w1 = {'self.stream_pointer': 1, 'len(self.raw_buffer)': -1, 'exc.start': 1}
    w2 = {'exc.start': 1}
    if len(forms) == 2 and w1 in forms and w2 in forms:
        rule.ok(g.loc(pos[0]), 'decode error position = stream_pointer - len(raw_buffer) + exc.start (stream) / exc.start (bytes)')
    else:
        rule.fail('%s|position' % g.qualname, g.module.rel, (pos[0].lineno if pos else g.node.lineno), g.qualname,
                  '; '.join(norm(p) for p in pos)[:90],
                  'the position of an undecodable byte is not stream_pointer - len(raw_buffer) + exc.start for streams and '
                  'exc.start for byte strings: got %s' % forms)
    # index / pointer advance together in forward; update re-bases buffer and pointer together
    fw = R.methods.get('forward')
    t = norm(fw.node)
    body_ok = False
    for loop in walk_function(fw.node):
        if isinstance(loop, ast.While):
            incs = [norm(s) for s in loop.body if isinstance(s, ast.AugAssign)]
            if 'self.pointer += 1' in incs and 'self.index += 1' in incs:
                body_ok = True
    up = norm(g.node)
    rebase = 'self.buffer = self.buffer[self.pointer:]' in up and 'self.pointer = 0' in up
    if body_ok and rebase:
        rule.ok(fw.loc(), 'index and pointer advance together; update drops the consumed prefix and zeroes pointer')
    else:
        rule.fail('reader.Reader|alignment', fw.module.rel, fw.node.lineno, fw.qualname, 'self.pointer += 1; self.index += 1',
                  'self.index and self.pointer no longer advance together (or update re-bases one without the other): marks drift '
                  'away from the text once the buffer has been refilled')
    um = R.methods.get('update_raw')
    if 'self.stream_pointer += len(data)' in norm(um.node):
        rule.ok(um.loc(), 'stream_pointer counts every unit read')
    else:
        rule.fail('%s|stream_pointer' % um.qualname, um.module.rel, um.node.lineno, um.qualname, 'self.stream_pointer += len(data)',
                  'stream_pointer no longer counts what has been read from the stream')
    return rule


def r_pyx_input_cache(ctx, repo):
    rule = ctx.rule('R-PYX-INPUT-CACHE', 'the C input handler copies at most `size` bytes from its cache, advances by what it copied, drops '
                                         'the cache only when exhausted and re-encodes str chunks as UTF-8')
    f = repo.modules['_yaml'].functions.get('input_handler')
    if f is None:
        raise AnalysisError('input_handler has vanished')
    t = norm(f.node)
    facts = [
        ('parser.stream_cache_len - parser.stream_cache_pos < size' in t and
         'size = parser.stream_cache_len - parser.stream_cache_pos' in t, 'copy length limited to what the cache holds'),
        ('memcpy(buffer, PyBytes_AS_STRING(parser.stream_cache) + parser.stream_cache_pos, size)' in t, 'copies from the current cache position'),
        ('read[0] = size' in t, 'reports the number of bytes copied'),
        ('parser.stream_cache_pos += size' in t, 'advances by the amount copied'),
        ('if parser.stream_cache_pos == parser.stream_cache_len:\n    parser.stream_cache = None' in
         '\n'.join('if %s:\n    %s' % (norm(n.test), norm(n.body[0])) for n in walk_function(f.node) if isinstance(n, ast.If)),
         'drops the cache only when exhausted'),
        ('value = PyUnicode_AsUTF8String(value)' in t and 'PyUnicode_CheckExact(value) != 0' in t, 'str chunks re-encoded as UTF-8'),
        ('if parser.stream_cache is None' in t, 'reads the stream only when the cache is empty'),
    ]
    for ok, what in facts:
        if ok:
            rule.ok(f.loc(), 'input_handler ' + what)
        else:
            rule.fail('%s|%s' % (f.qualname, what), f.module.rel, f.node.lineno, f.qualname, what,
                      'the C input handler no longer %s: what libyaml receives depends on the sizes of the pieces read() returns' % what)
    return rule
