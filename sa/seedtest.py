"""Run the checks against every confirmed seeded change in /verif/seeded/ (on scratch copies, never on /repo).

    python -m sa.seedtest [-k substring] [--all-checks]

Default: run the check of the property the seed breaks; --all-checks runs every claimed check, which also shows
which other checks notice the change.
"""
import concurrent.futures
import json
import os
import shutil
import subprocess
import sys
import tempfile

from . import selftest

VERIF = selftest.VERIF
PY = sys.executable


def claimed():
    with open(os.path.join(VERIF, 'MANIFEST.json')) as f:
        m = json.load(f)
    return [c['property_id'] for c in m['checks']]


def run_seed(args):
    name, checks = args
    d = os.path.join(VERIF, 'seeded', name)
    tmp = tempfile.mkdtemp(prefix='sa-seedtest-')
    try:
        selftest.make_copy(tmp)
        p = subprocess.run(['git', 'apply', os.path.join(d, 'patch.diff')], cwd=tmp, capture_output=True, text=True)
        if p.returncode != 0:
            return name, [('apply', 99, p.stderr)]
        res = []
        env = dict(os.environ, SA_REPO=tmp, SA_NO_EVIDENCE='1')
        for prop in checks:
            mod = os.path.join(VERIF, 'checks', prop.lower() + '.py')
            if not os.path.exists(mod):
                res.append((prop, -1, 'no check'))
                continue
            q = subprocess.run([PY, '-m', 'checks.' + prop.lower()], cwd=VERIF, env=env,
                               capture_output=True, text=True, timeout=600)
            res.append((prop, q.returncode, q.stdout + q.stderr))
        return name, res
    finally:
        shutil.rmtree(tmp, ignore_errors=True)


def main(argv):
    pat = None
    allc = False
    verbose = False
    it = iter(argv)
    for a in it:
        if a == '-k':
            pat = next(it)
        elif a == '--all-checks':
            allc = True
        elif a == '-v':
            verbose = True
    names = sorted(n for n in os.listdir(os.path.join(VERIF, 'seeded'))
                   if os.path.exists(os.path.join(VERIF, 'seeded', n, 'patch.diff')) and (pat is None or pat in n))
    every = sorted(f[:-3].upper() for f in os.listdir(os.path.join(VERIF, 'checks'))
                   if f.startswith('c') and f.endswith('.py') and f[1:3].isdigit())
    jobs = []
    for n in names:
        prop = n.split('-')[0]
        jobs.append((n, every if allc else [prop]))
    caught = 0
    with concurrent.futures.ThreadPoolExecutor(max_workers=16) as ex:
        for name, res in ex.map(run_seed, jobs):
            own = name.split('-')[0]
            hits = [p for p, c, o in res if c == 1]
            errs = [p for p, c, o in res if c not in (0, 1)]
            status = 'CAUGHT' if own in hits else ('caught-by-other' if hits else 'MISSED')
            if own in hits:
                caught += 1
            print('%-16s %-15s fired=%s%s' % (name, status, ','.join(hits) or '-',
                                                 (' errors=' + ','.join(errs)) if errs else ''))
            for p, c, o in res:
                if c == 1 and (verbose or p == own):
                    lines = [l for l in o.split('\n') if l and not l.startswith('VIOLATION') and 'KNOWN-FINDING' not in l]
                    print('      [%s] %s' % (p, lines[0][:220] if lines else ''))
                if c not in (0, 1):
                    print('      [%s] exit %s: %s' % (p, c, o.strip().split('\n')[-1][:200]))
    print('%d seeds, %d caught by their own property check' % (len(jobs), caught))
    return 0


if __name__ == '__main__':
    sys.exit(main(sys.argv[1:]))
