"""Round 6, second batch: generic defect patterns (each a necessary condition of the listed properties) and a few
component-specific ones.  All are decided on the normalised AST / CFG.

  R-ASSERT-INVENTORY       C03/C18  no unproved `assert` on the read path (AssertionError is not a YAML error; its test may look ahead)
  R-FINALLY-BOUND          C19      a local used in a finally/except block is bound before the try statement is entered
  R-NO-TRUNCATING-ZIP      C08      no zip() of a run-time sequence with a fixed-length literal (silently drops the rest)
  R-OPTION-IMMUTABLE       C15/C16  attributes set from constructor options are never rebound outside __init__
  R-IMPORT-RESULT-UNUSED   C17/C04  the value of __import__() is not used (it is the top-level package, not the named module)
  R-GENERATORS-FIFO        C17/C13  postponed second-phase generators are resumed in the order in which they were postponed
  R-MAPPING-STORE-ONLY     C16/C14  construct_mapping only ever stores into the dict it builds (position of a key = first store)
  R-ONE-TOKEN-PER-FETCH    C18      fetch_more_tokens fetches one token per call
  R-NO-LOOKAHEAD-AT-DOC-END C18     compose_document does not ask for an event after the DOCUMENT-END it consumes
  R-GROWN-STATE-RESET      C11      per-instance containers that only ever grow are re-created at the document / call boundary
  R-INSTANCE-WRITES-CLASS  C11      methods that run during load/dump do not store attributes on the class
  R-NO-MODULE-STATE        C11/C19  no module-level mutable object is used by the API functions
  R-MULTI-REPRESENTER-SET  C17      only `type` and `object` have multi-representers in the full dumpers, none in the safe ones
  R-FLOW-PLAIN-AGREE       C02/C05  every character that ends a plain scalar in the flow context is marked by analyze_scalar
"""
import ast

from . import astutil as A
from . import charworld as CW
from .cfg import CFG, own_exprs, reaching_defs
from .srcmodel import AnalysisError, FuncInfo, norm, walk_function
from .rules_r6 import _all_funcs, _method

def _class_names(repo):
    if not hasattr(repo, '_class_name_set'):
        repo._class_name_set = {c.name for c in repo.classes.values()}
    return repo._class_name_set


READ_PATH = ('reader', 'scanner', 'parser', 'composer', 'constructor', 'resolver')

# asserts confirmed by reading: (module.Class.func, anonymised test) -> why it cannot fail
CONFIRMED_ASSERTS = {
    ('parser.Parser.parse_document_start', 'not self.states'): 'at STREAM-END every pushed state has been popped (R-PARSER-GRAMMAR: balanced)',
    ('parser.Parser.parse_document_start', 'not self.marks'): 'marks are pushed/popped with the collection states',
}


def r_assert_inventory(ctx, repo, modules=READ_PATH):
    rule = ctx.rule('R-ASSERT-INVENTORY', 'the read path contains no `assert` other than the ones confirmed by reading: an assert that '
                                          'input can falsify raises AssertionError (not a YAMLError), and one that calls '
                                          'check_*/peek_* makes the reader look ahead')
    n = 0
    for f in _all_funcs(repo, modules):
        for s in walk_function(f.node):
            if not isinstance(s, ast.Assert):
                continue
            n += 1
            key = (f.qualname, A.anon_text(s.test, f.node, 80))
            if key in CONFIRMED_ASSERTS or (isinstance(s.test, ast.Constant) and s.test.value):
                rule.ok(f.loc(s), 'assert %s: %s' % (key[1], CONFIRMED_ASSERTS.get(key, 'constant')))
            else:
                rule.fail('%s|assert|%s' % key, f.module.rel, s.lineno, f.qualname, 'assert ' + key[1],
                          '%s asserts a condition that is not among the invariants confirmed for the read path: when an input '
                          'falsifies it, scanning / parsing / composing raises AssertionError instead of a YAMLError (and with '
                          'python -O the check silently disappears)' % f.qualname)
    rule.instances += 1
    rule.ok('%d modules' % len(modules), '%d assert statements examined' % n)
    return rule


# ------------------------------------------------------------------------------------------------ R-FINALLY-BOUND
def r_finally_bound(ctx, repo):
    rule = ctx.rule('R-FINALLY-BOUND', 'every local that a finally / except block reads is bound on every path that enters the try '
                                       'statement: otherwise a failure in the first statements of the try body is replaced by '
                                       'UnboundLocalError')
    n = 0
    for f in _all_funcs(repo, list(repo.modules)):
        tries = [t for t in walk_function(f.node) if isinstance(t, ast.Try) and (t.finalbody or t.handlers)]
        if not tries:
            continue
        stored = {x.id for x in walk_function(f.node) if isinstance(x, ast.Name) and isinstance(x.ctx, ast.Store)}
        stored |= {h.name for t in tries for h in t.handlers if h.name}
        params = set(f.params) | {a.arg for a in f.node.args.kwonlyargs}
        if f.node.args.vararg:
            params.add(f.node.args.vararg.arg)
        if f.node.args.kwarg:
            params.add(f.node.args.kwarg.arg)
        cfg = None
        for t in tries:
            blocks = [('finally', t.finalbody)] + [('except', h.body) for h in t.handlers]
            for kind, blk in blocks:
                hname = None
                used = set()
                for s in blk:
                    for x in ast.walk(s):
                        if isinstance(x, ast.Name) and isinstance(x.ctx, ast.Load) and x.id in stored and x.id not in params:
                            used.add(x.id)
                # names bound inside the block itself before use are not our concern: keep only those stored in the try body
                for nm in sorted(used):
                    if any(h.name == nm for h in t.handlers):
                        continue
                    if cfg is None:
                        cfg = CFG(f.node)
                    first = t.body[0]
                    sites = cfg.nodes_of(first) or [x for x in cfg.nodes if x.stmt is first]
                    ent = cfg.entry_of(first)
                    if ent is not None:
                        sites = [ent]
                    if not sites:
                        continue
                    n += 1
                    rd = reaching_defs(cfg, nm, entry_def=True)
                    unbound = any(cfg.entry in rd.get(s, set()) for s in sites)
                    # does the block itself bind the name on every path to its first read?
                    from .cfg import defs_of
                    blk_ids = {id(x) for st in blk for x in ast.walk(st)}
                    in_blk = [x for x in cfg.nodes if x.ast is not None and (id(x.ast) in blk_ids or id(x.stmt) in blk_ids)]
                    b0 = [x for x in in_blk if x.stmt is blk[0] or x.ast is blk[0]] or \
                        ([cfg.entry_of(blk[0])] if cfg.entry_of(blk[0]) is not None else [])
                    dn = [x for x in in_blk if defs_of(x, nm)]
                    uses = [x for x in in_blk if x not in dn and any(
                        isinstance(y, ast.Name) and y.id == nm and isinstance(y.ctx, ast.Load) for y in own_exprs(x))]
                    uses += [x for x in dn if any(isinstance(y, ast.Name) and y.id == nm and isinstance(y.ctx, ast.Load)
                                                  for y in ast.walk(getattr(x.ast, 'value', None) or ast.Pass()))]
                    r = cfg.reach(b0, blocked=[x for x in dn if x not in uses], follow_exc=False) if b0 else set(in_blk)
                    rebound_first = not any(u in r for u in uses)
                    if unbound and not rebound_first:
                        rule.fail('%s|%s|unbound' % (f.qualname, kind), f.module.rel, t.lineno, f.qualname,
                                  A.anon_text(first, f.node, 60),
                                  'the %s block of %s reads a local that is first bound inside the try body: when the statement '
                                  'that binds it raises (e.g. the caller\'s stream fails while the loader is being created), the '
                                  '%s block raises UnboundLocalError and the caller\'s exception is lost' % (kind, f.qualname, kind))
                    else:
                        rule.ok(f.loc(t), 'local read in the %s block is bound before the try' % kind)
    rule.require_min(6, 'try blocks reading locals')
    return rule


# -------------------------------------------------------------------------------------------- R-NO-TRUNCATING-ZIP
def _fixed_len(e):
    if isinstance(e, (ast.Tuple, ast.List)) and not any(isinstance(x, ast.Starred) for x in e.elts):
        return len(e.elts)
    if isinstance(e, ast.Constant) and isinstance(e.value, (str, bytes, tuple)):
        return len(e.value)
    if isinstance(e, ast.Call) and isinstance(e.func, ast.Name) and e.func.id == 'range' and e.args \
            and all(isinstance(a, ast.Constant) for a in e.args):
        try:
            return len(range(*[a.value for a in e.args]))
        except (TypeError, ValueError):
            return None
    return None


def r_no_truncating_zip(ctx, repo, modules):
    rule = ctx.rule('R-NO-TRUNCATING-ZIP', 'zip() never pairs a sequence of run-time length with a literal of fixed length: zip stops '
                                           'at the shorter one, so longer input is silently cut')
    n = 0
    for f in _all_funcs(repo, modules):
        for c in A.func_calls(f.node):
            if isinstance(c.func, ast.Name) and c.func.id == 'zip' and len(c.args) >= 2 and not any(
                    k.arg == 'strict' and isinstance(k.value, ast.Constant) and k.value.value for k in c.keywords):
                n += 1
                lens = [_fixed_len(a) for a in c.args]
                if any(l is not None for l in lens) and any(l is None for l in lens) and not any(
                        isinstance(a, ast.Call) and norm(a.func) in ('itertools.count', 'count', 'itertools.repeat', 'itertools.cycle')
                        for a in c.args):
                    rule.fail('%s|zip' % f.qualname, f.module.rel, c.lineno, f.qualname, A.anon_text(c, f.node, 70),
                              '%s zips a sequence whose length depends on the input with a literal of %d elements: elements '
                              'beyond that are dropped without an error (e.g. the fourth group of a base-60 number)'
                              % (f.qualname, min(l for l in lens if l is not None)))
                else:
                    rule.ok(f.loc(c), 'zip of sequences of related length')
    rule.instances += 1
    rule.ok('%d modules' % len(modules), '%d zip() calls examined' % n)
    return rule


# --------------------------------------------------------------------------------------------- R-OPTION-IMMUTABLE
def _option_attrs(init):
    """self attributes that __init__ sets from one of its parameters (directly, or to a constant under a test of one)."""
    params = set(init.params[1:]) | {a.arg for a in init.node.args.kwonlyargs}
    selfn = init.params[0]
    out = {}
    for s in walk_function(init.node):
        if isinstance(s, ast.Assign):
            for t in s.targets:
                if isinstance(t, ast.Attribute) and isinstance(t.value, ast.Name) and t.value.id == selfn:
                    reads = {x.id for x in ast.walk(s.value) if isinstance(x, ast.Name)}
                    guards = {x.id for (g, br) in A.guarding_ifs(s, init.node) for x in ast.walk(g.test) if isinstance(x, ast.Name)}
                    if (reads | guards) & params:
                        out.setdefault(t.attr, s)
    return out


def r_option_immutable(ctx, repo, classes):
    rule = ctx.rule('R-OPTION-IMMUTABLE', 'an attribute that a constructor sets from one of its options is not rebound anywhere else: '
                                          'the option a call was given stays in force for the whole call, for nested values and for '
                                          'every later document')
    n = 0
    for cq in classes:
        c = repo.cls(cq)
        init = c.methods.get('__init__')
        if init is None:
            raise AnalysisError('%s.__init__ has vanished' % cq)
        opts = _option_attrs(init)
        if not opts:
            raise AnalysisError('%s.__init__ sets no attribute from its parameters' % cq)
        family = [k for k in repo.classes.values() if k is c or k.is_subclass_of(c) or c.is_subclass_of(k)]
        # mixins combined with this class in a shipped loader/dumper
        for k in list(repo.classes.values()):
            if k.is_subclass_of(c):
                for b in k.mro:
                    if hasattr(b, 'methods') and b not in family:
                        family.append(b)
        for k in family:
            for m in k.methods.values():
                if m is init or not m.params:
                    continue
                selfn = m.params[0]
                for mu in A.find_mutations(m.node):
                    if mu.kind in ('rebind', 'augassign') and isinstance(mu.receiver, ast.Attribute) \
                            and isinstance(mu.receiver.value, ast.Name) and mu.receiver.value.id == selfn \
                            and mu.receiver.attr in opts:
                        if m.name == '__init__' and k is not c:
                            continue
                        rule.fail('%s|%s' % (m.qualname, mu.receiver.attr), m.module.rel, mu.node.lineno, m.qualname,
                                  A.anon_text(mu.stmt, m.node, 70),
                                  '%s rebinds self.%s, which %s.__init__ set from the caller\'s options: while the changed value '
                                  'is in force (nested values, a later document, an exception in between) the output no longer '
                                  'follows the option' % (m.qualname, mu.receiver.attr, c.name))
        n += len(opts)
        rule.ok(init.loc(), '%s: %d option attributes (%s) are set only by __init__' % (c.name, len(opts), ', '.join(sorted(opts))[:80]))
        rule.instances += len(opts) - 1
    return rule


# ----------------------------------------------------------------------------------------- R-IMPORT-RESULT-UNUSED
def r_import_result_unused(ctx, repo):
    rule = ctx.rule('R-IMPORT-RESULT-UNUSED', '__import__(name) is called for its effect only; the module is then taken from '
                                              'sys.modules[name]: for a dotted name __import__ returns the top-level package')
    n = 0
    for f in _all_funcs(repo, ['constructor']):
        for c in A.func_calls(f.node):
            if isinstance(c.func, ast.Name) and c.func.id == '__import__':
                n += 1
                par = getattr(c, '_parent', None)
                if isinstance(par, ast.Expr) or (len(c.args) >= 4) or any(k.arg == 'fromlist' for k in c.keywords):
                    rule.ok(f.loc(c), '__import__ called as a statement')
                else:
                    rule.fail('%s|import-value' % f.qualname, f.module.rel, c.lineno, f.qualname, A.anon_text(par, f.node, 70),
                              '%s uses the value of __import__(): for `pkg.sub` that is the package `pkg`, so a name is looked up '
                              'in (or a module tag yields) the wrong module when the sub-module was not imported before'
                              % f.qualname)
    if not n:
        raise AnalysisError('no __import__ call found in the constructor')
    return rule


# ---------------------------------------------------------------------------------------------- R-GENERATORS-FIFO
def r_generators_fifo(ctx, repo):
    rule = ctx.rule('R-GENERATORS-FIFO', 'construct_document resumes the postponed generators in the order in which they were '
                                         'appended (a for loop over the list, or pop(0)): the state of an object is applied only after '
                                         'the containers postponed before it have been filled')
    f = _method(repo, 'constructor.BaseConstructor', 'construct_document')
    selfn = f.params[0]
    attr = 'state_generators'
    aliases = {None}
    for s in walk_function(f.node):
        if isinstance(s, ast.Assign) and isinstance(s.value, ast.Attribute) and s.value.attr == attr \
                and isinstance(s.value.value, ast.Name) and s.value.value.id == selfn:
            for t in s.targets:
                if isinstance(t, ast.Name):
                    aliases.add(t.id)

    def is_list(e):
        return (isinstance(e, ast.Attribute) and e.attr == attr and isinstance(e.value, ast.Name) and e.value.id == selfn) or \
            (isinstance(e, ast.Name) and e.id in aliases)
    good = bad = 0
    for s in walk_function(f.node):
        if isinstance(s, ast.For) and is_list(s.iter):
            good += 1
            rule.ok(f.loc(s), 'generators resumed by iterating over the list')
        elif isinstance(s, ast.For) and isinstance(s.iter, ast.Call) and norm(s.iter.func) in ('reversed', 'sorted') \
                and s.iter.args and is_list(s.iter.args[0]):
            bad += 1
            rule.fail('%s|order' % f.qualname, f.module.rel, s.lineno, f.qualname, A.anon_text(s.iter, f.node, 60),
                      'the postponed generators are not resumed in the order in which they were postponed')
        elif isinstance(s, ast.Call) and isinstance(s.func, ast.Attribute) and is_list(s.func.value):
            if s.func.attr == 'pop':
                if s.args and isinstance(s.args[0], ast.Constant) and s.args[0].value == 0:
                    good += 1
                    rule.ok(f.loc(s), 'generators taken with pop(0)')
                else:
                    bad += 1
                    rule.fail('%s|pop' % f.qualname, f.module.rel, s.lineno, f.qualname, A.anon_text(s, f.node, 60),
                              'construct_document takes the postponed generators from the end of the list: the state of an object '
                              'is applied before a list / dict that was postponed earlier (and that the state refers to) has been '
                              'filled, so __setstate__ sees it empty')
            elif s.func.attr in ('reverse', 'sort'):
                bad += 1
                rule.fail('%s|%s' % (f.qualname, s.func.attr), f.module.rel, s.lineno, f.qualname, A.anon_text(s, f.node, 60),
                          'the list of postponed generators is reordered before it is drained')
        elif isinstance(s, ast.Subscript) and is_list(s.value) and isinstance(s.ctx, ast.Load):
            idx = s.slice
            if isinstance(idx, ast.Slice) and idx.step is not None:
                bad += 1
                rule.fail('%s|slice' % f.qualname, f.module.rel, s.lineno, f.qualname, A.anon_text(s, f.node, 60),
                          'the list of postponed generators is traversed with a step')
            elif isinstance(idx, ast.UnaryOp) or (isinstance(idx, ast.Constant) and idx.value not in (0,)):
                bad += 1
                rule.fail('%s|index' % f.qualname, f.module.rel, s.lineno, f.qualname, A.anon_text(s, f.node, 60),
                          'a postponed generator other than the oldest one is taken first')
    if not good and not bad:
        raise AnalysisError('construct_document: the place where the postponed generators are resumed was not found')
    return rule


# ------------------------------------------------------------------------------------------- R-MAPPING-STORE-ONLY
def r_mapping_store_only(ctx, repo):
    rule = ctx.rule('R-MAPPING-STORE-ONLY', 'construct_mapping only stores into the dict it returns (mapping[key] = value): a key keeps the '
                                            'position of its first occurrence and takes the value of its last one')
    f = _method(repo, 'constructor.BaseConstructor', 'construct_mapping')
    rets = {r.value.id for r in walk_function(f.node) if isinstance(r, ast.Return) and isinstance(r.value, ast.Name)}
    if not rets:
        raise AnalysisError('construct_mapping does not return a local')
    n = 0
    for m in A.find_mutations(f.node):
        if isinstance(m.root, ast.Name) and m.root.id in rets and m.depth == 0:
            n += 1
            if m.kind == 'setitem':
                rule.ok(f.loc(m.node), 'store into the result dict')
            else:
                rule.fail('%s|%s' % (f.qualname, m.kind), f.module.rel, m.node.lineno, f.qualname, A.anon_text(m.stmt, f.node, 60),
                          'construct_mapping %s the dict it is building: a repeated (or equal) key then moves to the position of its '
                          'last occurrence, so a mapping without merge keys is no longer in document order'
                          % ('deletes from' if m.kind in ('delitem', 'call:pop', 'call:popitem', 'call:clear') else 'rearranges'))
    for c in A.func_calls(f.node):
        if isinstance(c.func, ast.Attribute) and isinstance(c.func.value, ast.Name) and c.func.value.id in rets \
                and c.func.attr in ('move_to_end', 'update', 'setdefault', '__delitem__', 'popitem'):
            n += 1
            rule.fail('%s|%s' % (f.qualname, c.func.attr), f.module.rel, c.lineno, f.qualname, A.anon_text(c, f.node, 60),
                      'construct_mapping changes the dict it is building with .%s()' % c.func.attr)
    if not n:
        raise AnalysisError('construct_mapping: no store into the result dict found')
    return rule


# ------------------------------------------------------------------------------------------ R-ONE-TOKEN-PER-FETCH
def r_one_token_per_fetch(ctx, repo):
    rule = ctx.rule('R-ONE-TOKEN-PER-FETCH', 'fetch_more_tokens produces one token (group) per call: no path runs two fetch_* methods and '
                                             'none is in a loop - how far the scanner reads ahead is decided by need_more_tokens alone')
    f = _method(repo, 'scanner.Scanner', 'fetch_more_tokens')
    cfg = CFG(f.node)
    selfn = f.params[0]
    sites = []
    for n in cfg.nodes:
        if n.ast is None:
            continue
        for x in own_exprs(n):
            if isinstance(x, ast.Call) and isinstance(x.func, ast.Attribute) and isinstance(x.func.value, ast.Name) \
                    and x.func.value.id == selfn and x.func.attr.startswith('fetch_'):
                sites.append((n, x))
                break
    if len(sites) < 5:
        raise AnalysisError('fetch_more_tokens: only %d fetch_* calls found' % len(sites))
    nodes = {n for n, x in sites}
    for n, x in sites:
        r = cfg.reach([m for (m, lab) in cfg.succ[n] if lab != 'exc'], follow_exc=False)
        again = [m for m in nodes if m in r]
        if again:
            rule.fail('%s|%s' % (f.qualname, 'loop' if n in again else 'second'), f.module.rel, n.lineno, f.qualname,
                      A.anon_text(x, f.node, 50),
                      'after self.%s() fetch_more_tokens can go on to fetch another token in the same call: the scanner reads '
                      'beyond the token that was asked for (a document is delivered only after input that follows its end has '
                      'been read, and an error there overtakes it)' % x.func.attr)
        else:
            rule.ok(f.loc(x), 'self.%s() is the last fetch of the call' % x.func.attr)
    return rule


# -------------------------------------------------------------------------------------- R-NO-LOOKAHEAD-AT-DOC-END
def r_no_lookahead_at_doc_end(ctx, repo):
    rule = ctx.rule('R-NO-LOOKAHEAD-AT-DOC-END', 'in compose_document every check_event / peek_event is followed by a call that consumes '
                                                 '(get_event / compose_node) before the function returns: once DOCUMENT-END is taken, the '
                                                 'parser is not asked for the event after it')
    f = _method(repo, 'composer.Composer', 'compose_document')
    cfg = CFG(f.node)
    look, consume = [], []
    for n in cfg.nodes:
        if n.ast is None:
            continue
        for x in own_exprs(n):
            if isinstance(x, ast.Call) and isinstance(x.func, ast.Attribute):
                if x.func.attr in ('check_event', 'peek_event', 'check_node', 'check_token', 'peek_token'):
                    look.append(n)
                elif x.func.attr in ('get_event', 'compose_node'):
                    consume.append(n)
    if not consume:
        raise AnalysisError('compose_document consumes no event')
    for n in look:
        starts = [m for (m, lab) in cfg.succ[n] if lab != 'exc']
        if cfg.paths_to_normal_exit_avoiding(starts, consume) and n not in consume:
            rule.fail('%s|lookahead' % f.qualname, f.module.rel, n.lineno, f.qualname, A.anon_text(n.ast, f.node, 70),
                      'compose_document asks the parser about the next event and returns without consuming one: the parser has to '
                      'read the start of the next document (directives, `---`, or an arbitrary amount of `...`) before this document '
                      'is delivered, and an error there is raised instead of the document')
        else:
            rule.ok(f.loc(n.ast), 'look-ahead followed by a consuming call')
    rule.instances += 1
    rule.ok(f.loc(), '%d look-ahead call(s), %d consuming call(s)' % (len(look), len(consume)))
    return rule


# -------------------------------------------------------------------------------------------- R-GROWN-STATE-RESET
GROW = {'call:add', 'call:append', 'call:extend', 'call:insert', 'call:update', 'call:setdefault', 'setitem'}
SHRINK = {'call:pop', 'call:remove', 'call:discard', 'call:clear', 'call:popitem', 'delitem'}


def _is_empty_container(e):
    if isinstance(e, (ast.Dict, ast.List, ast.Set)):
        return not (getattr(e, 'keys', None) or getattr(e, 'elts', None))
    if isinstance(e, ast.Call) and isinstance(e.func, ast.Name) and e.func.id in ('set', 'dict', 'list', 'frozenset') and not e.args:
        return True
    if isinstance(e, ast.Call) and norm(e.func) in ('collections.OrderedDict', 'collections.deque', 'collections.defaultdict',
                                                    'OrderedDict', 'deque', 'defaultdict'):
        return True
    return False


def r_grown_state_reset(ctx, repo, classes, minimum=8):
    rule = ctx.rule('R-GROWN-STATE-RESET', 'an instance attribute that starts as an empty container and is filled while documents are '
                                           'processed is either emptied / re-created somewhere outside __init__ or also shrinks (a '
                                           'stack): nothing accumulates from one document (or call) to the next')
    n = 0
    for cq in classes:
        c = repo.cls(cq)
        init = c.methods.get('__init__')
        if init is None:
            continue
        selfn = init.params[0]
        conts = {}
        for s in walk_function(init.node):
            if isinstance(s, ast.Assign) and _is_empty_container(s.value):
                for t in s.targets:
                    if isinstance(t, ast.Attribute) and isinstance(t.value, ast.Name) and t.value.id == selfn:
                        conts[t.attr] = s
        if not conts:
            continue
        family = [k for k in repo.classes.values() if k is c or c.is_subclass_of(k) or k.is_subclass_of(c)]
        grown, shrunk, reset = {}, set(), set()
        for k in family:
            for m in k.methods.values():
                if not m.params:
                    continue
                sn = m.params[0]
                for mu in A.find_mutations(m.node):
                    root = mu.root if mu.kind != 'rebind' else mu.receiver
                    if not (isinstance(root, ast.Attribute) and isinstance(root.value, ast.Name) and root.value.id == sn
                            and root.attr in conts):
                        continue
                    if mu.kind == 'rebind':
                        if m.name != '__init__':
                            reset.add(root.attr)
                    elif mu.depth == 0 and mu.kind in GROW:
                        if m.name != '__init__':
                            grown.setdefault(root.attr, (m, mu))
                    elif mu.depth == 0 and mu.kind in SHRINK:
                        shrunk.add(root.attr)
                # local alias that is then rebound: x = self.attr; self.attr = []
        for attr, (m, mu) in sorted(grown.items()):
            n += 1
            if attr in reset or attr in shrunk:
                rule.ok(m.loc(mu.node), '%s.%s grows in %s and is %s elsewhere' % (c.name, attr, m.name,
                                                                                   're-created' if attr in reset else 'shrunk'))
            else:
                rule.fail('%s|%s' % (c.qualname, attr), m.module.rel, mu.node.lineno, m.qualname, A.anon_text(mu.stmt, m.node, 60),
                          'self.%s is created empty by %s.__init__, filled by %s and never emptied or re-created: what one document '
                          'put there is still there for the next document of the stream, so a document is no longer interpreted '
                          'on its own' % (attr, c.name, m.qualname))
    if n < minimum:
        raise AnalysisError('R-GROWN-STATE-RESET: only %d growing containers found (%d confirmed by reading)' % (n, minimum))
    return rule


# --------------------------------------------------------------------------------------- R-INSTANCE-WRITES-CLASS
def r_instance_writes_class(ctx, repo, modules):
    rule = ctx.rule('R-INSTANCE-WRITES-CLASS', 'a method that runs while loading / dumping (not a classmethod) stores nothing on its '
                                               'class: no result of one call is kept where later calls - and subclasses - find it')
    n = 0
    for f in _all_funcs(repo, modules):
        if f.cls is None or f.is_classmethod or not f.params:
            continue
        selfn = f.params[0]
        cls_aliases = set()
        for s in walk_function(f.node):
            if isinstance(s, ast.Assign) and len(s.targets) == 1 and isinstance(s.targets[0], ast.Name):
                v = s.value
                if (isinstance(v, ast.Attribute) and v.attr == '__class__' and isinstance(v.value, ast.Name) and v.value.id == selfn) \
                        or (isinstance(v, ast.Call) and isinstance(v.func, ast.Name) and v.func.id == 'type' and len(v.args) == 1
                            and isinstance(v.args[0], ast.Name) and v.args[0].id == selfn):
                    cls_aliases.add(s.targets[0].id)

        def is_class_expr(e):
            if isinstance(e, ast.Name) and (e.id in cls_aliases or e.id in _class_names(repo)):
                return True
            if isinstance(e, ast.Attribute) and e.attr == '__class__':
                return True
            if isinstance(e, ast.Call) and isinstance(e.func, ast.Name) and e.func.id == 'type' and len(e.args) == 1:
                return True
            return False
        for mu in A.find_mutations(f.node):
            n += 1
            tgt = mu.receiver
            hit = None
            if mu.kind in ('rebind', 'augassign') and isinstance(tgt, ast.Attribute) and is_class_expr(tgt.value):
                hit = tgt
            elif mu.kind != 'rebind' and isinstance(mu.root, ast.Attribute) and is_class_expr(mu.root.value):
                hit = mu.root
            if hit is not None:
                rule.fail('%s|%s' % (f.qualname, hit.attr), f.module.rel, mu.node.lineno, f.qualname, A.anon_text(mu.stmt, f.node, 70),
                          '%s writes %s on the class: the value computed during one call is seen by every later call and by '
                          'subclasses (hasattr / attribute lookup finds the inherited value), so the result of a call depends on '
                          'which calls came before it' % (f.qualname, hit.attr))
        for c in A.func_calls(f.node):
            if isinstance(c.func, ast.Name) and c.func.id == 'setattr' and c.args and is_class_expr(c.args[0]):
                rule.fail('%s|setattr' % f.qualname, f.module.rel, c.lineno, f.qualname, A.anon_text(c, f.node, 70),
                          '%s sets an attribute on the class with setattr()' % f.qualname)
    rule.instances += 1
    rule.ok('%d modules' % len(modules), '%d mutation sites examined' % n)
    return rule


# ---------------------------------------------------------------------------------------------- R-NO-MODULE-STATE
_IMMUTABLE_CALLS = ('re.compile', 'frozenset', 'tuple', 'object', 'float', 'int', 'str', 'bytes')


def r_no_module_state(ctx, repo, modules=('__init__',)):
    rule = ctx.rule('R-NO-MODULE-STATE', 'the API functions use no module-level mutable object (buffer, list, dict, counter): every call '
                                         'works on objects it created itself or was given')
    n = 0
    for mn in modules:
        m = repo.modules[mn]
        muts = {}
        for st in m.tree.body:
            if isinstance(st, ast.Assign) and len(st.targets) == 1 and isinstance(st.targets[0], ast.Name):
                v = st.value
                nm = st.targets[0].id
                if nm.startswith('__') and nm.endswith('__'):
                    continue
                if isinstance(v, (ast.List, ast.Dict, ast.Set, ast.ListComp, ast.DictComp, ast.SetComp)):
                    muts[nm] = st
                elif isinstance(v, ast.Call) and norm(v.func) not in _IMMUTABLE_CALLS and not (
                        isinstance(v.func, ast.Name) and v.func.id in _class_names(repo)):
                    muts[nm] = st
        for f in m.functions.values():
            local = {x.id for x in walk_function(f.node) if isinstance(x, ast.Name) and isinstance(x.ctx, ast.Store)} | set(f.params)
            glob = {g for x in walk_function(f.node) if isinstance(x, ast.Global) for g in x.names}
            for x in walk_function(f.node):
                if isinstance(x, ast.Name) and x.id in muts and (x.id not in local or x.id in glob):
                    n += 1
                    rule.fail('%s|%s' % (f.qualname, x.id), m.rel, x.lineno, f.qualname, x.id,
                              '%s uses the module-level object %s (created at import, line %d): what one call leaves in it - for '
                              'instance the text written before a callback failed - is seen by the next call'
                              % (f.qualname, x.id, muts[x.id].lineno))
            for x in walk_function(f.node):
                if isinstance(x, ast.Global):
                    stored = [y for y in walk_function(f.node) if isinstance(y, ast.Name) and isinstance(y.ctx, ast.Store) and y.id in x.names]
                    if stored and f.name not in ('warnings',):
                        n += 1
                        rule.fail('%s|global|%s' % (f.qualname, stored[0].id), m.rel, stored[0].lineno, f.qualname, 'global ' + stored[0].id,
                                  '%s rebinds the module global %s' % (f.qualname, stored[0].id))
        rule.instances += 1
        rule.ok(m.rel, '%d module-level mutable object(s); none used by a function' % len(muts))
    return rule


# ---------------------------------------------------------------------------------------- R-MULTI-REPRESENTER-SET
def r_multi_representer_set(ctx, repo):
    from . import rules_registry as RR
    rm = RR.model(repo)
    rule = ctx.rule('R-MULTI-REPRESENTER-SET', 'in the full dumpers only `type` (classes by name) and `object` (the reduce protocol) have '
                                               'multi-representers, the safe dumpers have none: instances of a subclass of any other type '
                                               'go through their own reduction, as with pickle')
    want = {'dumper.Dumper': {'type', 'object'}, 'cyaml.CDumper': {'type', 'object'}, 'dumper.SafeDumper': set(),
            'cyaml.CSafeDumper': set(), 'dumper.BaseDumper': set(), 'cyaml.CBaseDumper': set()}
    for cq, allowed in want.items():
        c = repo.cls(cq)
        t = rm.heap.table(c, 'yaml_multi_representers')
        keys = {str(k) if not hasattr(k, 'id') else k.id for k in t}
        keys = {getattr(k, 'name', None) or str(k) for k in t}
        extra = sorted(k for k in keys if k.split('.')[-1] not in allowed)
        if extra:
            rule.fail('%s|%s' % (cq, ','.join(extra)), c.module.rel, c.node.lineno, cq, 'yaml_multi_representers',
                      '%s has a multi-representer for %s: every subclass of it is then written by that representer instead of '
                      'through its own __reduce_ex__, so instance attributes / constructor arguments of such subclasses are lost '
                      '(pickle keeps them)' % (cq, ', '.join(extra)))
        else:
            rule.ok('%s:%d' % (c.module.rel, c.node.lineno), '%s: multi-representers %s' % (cq, sorted(keys)))
    return rule


# ---------------------------------------------------------------------------------------------- R-FLOW-PLAIN-AGREE
def r_flow_plain_agree(ctx, repo):
    from . import rules_opts as RO
    from . import rules_emit as RE
    rule = ctx.rule('R-FLOW-PLAIN-AGREE', 'every character at which the scanner ends a plain scalar in the flow context (whatever '
                                          'follows it) makes analyze_scalar forbid the plain style in flow collections, wherever in '
                                          'the scalar it stands')
    sp = _method(repo, 'scanner.Scanner', 'scan_plain')
    # the stop test of the inner loop: the `if ...: break` whose test reads a character variable bound from self.peek(...)
    cvars = {t.id for s in walk_function(sp.node) if isinstance(s, ast.Assign) and isinstance(s.value, ast.Call)
             and isinstance(s.value.func, ast.Attribute) and s.value.func.attr == 'peek' for t in s.targets if isinstance(t, ast.Name)}
    stops = [s for s in walk_function(sp.node) if isinstance(s, ast.If) and s.body and isinstance(s.body[-1], ast.Break)
             and any(isinstance(x, ast.Name) and x.id in cvars for x in ast.walk(s.test))
             and any(isinstance(x, ast.Attribute) and x.attr == 'flow_level' for x in ast.walk(s.test))]
    if len(stops) != 1 or not cvars:
        raise AnalysisError('scan_plain: the test that ends a plain scalar was not found')
    test = stops[0].test
    cv = [x.id for x in ast.walk(test) if isinstance(x, ast.Name) and x.id in cvars][0]
    probes = sorted(set(CW.representative_chars(repo, 'scanner')) | set(',?[]{}:#-&*!|>\'"%@`'))
    flow_only = []
    for c in probes:
        in_flow = CW.eval_cond(repo, RE.subst(test, {'self.flow_level': 1}), {cv: c})
        in_block = CW.eval_cond(repo, RE.subst(test, {'self.flow_level': 0}), {cv: c})
        if in_flow is True and in_block is not True:
            flow_only.append(c)
    if len(flow_only) < 4:
        raise AnalysisError('scan_plain: fewer than 4 flow-only terminators found (%r)' % flow_only)
    f = _method(repo, 'emitter.Emitter', 'analyze_scalar')
    loop, cvs, _flags = RO._scalar_analysis_parts(repo, f)
    body = f.node.body
    ret = [s for s in body[body.index(loop) + 1:] if isinstance(s, ast.Return) and isinstance(s.value, ast.Call)
           and norm(s.value.func) == 'ScalarAnalysis'][-1]
    tail = body[body.index(loop) + 1:body.index(ret)]
    kws = {k.arg: k.value for k in ret.value.keywords}
    if 'allow_flow_plain' not in kws:
        raise AnalysisError('analyze_scalar: ScalarAnalysis has no allow_flow_plain')
    cands = sorted({t.id for x in ast.walk(loop) if isinstance(x, ast.Assign) and isinstance(x.value, ast.Constant)
                    and x.value.value is True for t in x.targets if isinstance(t, ast.Name)})
    flags = set()
    for F in cands:
        it = CW.Interp(repo, None, '\uffff', '<none>', None)
        try:
            ends = it.run_block(tail, CW.State({F: CW.C(True)}), 0)
            forced = bool(ends)
            for kind, val, st in ends:
                if kind != 'fall' or any(CW.truth(v) is not False for v, s2 in it.ev(kws['allow_flow_plain'], st, 0)):
                    forced = False
                    break
        except (CW.Budget, AnalysisError):
            forced = False
        if forced:
            flags.add(F)
    if not flags:
        raise AnalysisError('analyze_scalar: no flag forbids allow_flow_plain')
    S = RE.Scenario(repo, f)
    cfg = S.cfg
    text = f.params[1]
    in_loop = {id(x) for x in ast.walk(loop)}
    in_prefix = {id(x) for s in body[:body.index(loop)] for x in ast.walk(s)}

    def binds_flag(n):
        return [nm for nm in RE.Flow.bound_names(n) if nm in flags] if n.ast is not None else []

    def sets_true(n):
        return isinstance(n.ast, ast.Assign) and isinstance(n.ast.value, ast.Constant) and n.ast.value.value is True
    # a flag is raised for good by `flag = True` in the per-character loop or in the code in front of it, provided no later
    # statement can bind the flag to anything else (the initialisation `flag = False` comes first)
    def keeps(n):
        """`flag = flag or ...` / `flag |= ...` never lowers a raised flag"""
        a = n.ast
        if isinstance(a, ast.AugAssign) and isinstance(a.op, ast.BitOr):
            return True
        return isinstance(a, ast.Assign) and len(a.targets) == 1 and isinstance(a.targets[0], ast.Name) \
            and isinstance(a.value, ast.BoolOp) and isinstance(a.value.op, ast.Or) \
            and any(isinstance(v, ast.Name) and v.id == a.targets[0].id for v in a.value.values)
    kills = [n for n in cfg.nodes if binds_flag(n) and not sets_true(n) and not keeps(n)]
    raising = []
    for n in cfg.nodes:
        if not (sets_true(n) and (id(n.ast) in in_loop or id(n.ast) in in_prefix) and binds_flag(n)):
            continue
        after = cfg.reach([m for (m, lab) in cfg.succ[n]])
        if any(k in after and set(binds_flag(k)) & set(binds_flag(n)) for k in kills):
            continue
        raising.append(n)
    head = cfg.entry_of(loop) if isinstance(loop, ast.While) else None
    if isinstance(loop, ast.For):
        fn = [n for n in cfg.nodes if n.kind == 'for' and n.stmt is loop]
        head = fn[0] if fn else None
    body_entry = [m for n in cfg.nodes if n.stmt is loop and n.kind in ('test', 'for') for (m, lab) in cfg.succ[n] if lab is True]
    if head is None or not body_entry:
        raise AnalysisError('analyze_scalar: loop head not found')
    # the position of the character: the variable that indexes the scalar where the character variable is bound
    # (`ch = scalar[index]`, `for index, ch in enumerate(scalar)`); without one, the loop body cannot tell positions apart
    ivars = {x.value.slice.id for x in ast.walk(loop) if isinstance(x, ast.Assign) and len(x.targets) == 1
             and isinstance(x.targets[0], ast.Name) and x.targets[0].id in cvs and isinstance(x.value, ast.Subscript)
             and isinstance(x.value.value, ast.Name) and x.value.value.id == text and isinstance(x.value.slice, ast.Name)}
    if isinstance(loop, ast.For) and isinstance(loop.iter, ast.Call) and norm(loop.iter.func) == 'enumerate' \
            and isinstance(loop.target, ast.Tuple) and len(loop.target.elts) == 2 and isinstance(loop.target.elts[0], ast.Name):
        ivars.add(loop.target.elts[0].id)
    ivar = sorted(ivars)[0] if len(ivars) == 1 else None
    # locals that hold the first character (`first = scalar[0]` is their only binding)
    firsts = set()
    for nm in {b for n in cfg.nodes for b in RE.Flow.bound_names(n)} - set(cvs) - {ivar}:
        defs = [n for n in cfg.nodes if nm in RE.Flow.bound_names(n)]
        if defs and all(isinstance(n.ast, ast.Assign) and len(n.ast.targets) == 1 and isinstance(n.ast.value, ast.Subscript)
                        and isinstance(n.ast.value.value, ast.Name) and n.ast.value.value.id == text
                        and isinstance(n.ast.value.slice, ast.Constant) and n.ast.value.slice.value == 0 for n in defs):
            firsts.add(nm)

    def later_hook(e):
        """a test that reads the position (and constants) only has, for every position after the first, the value it has
        for each of a few sample positions - when they agree"""
        if ivar is None or not any(isinstance(x, ast.Name) and x.id == ivar for x in ast.walk(e)):
            return None
        vals = {A.const_truth(e, {ivar: k}) for k in (1, 2, 3, 1000)}
        return vals.pop() if len(vals) == 1 else None

    def escapes(r):
        return head in r or any(x in r for x in cfg.normal_exits())
    for c in flow_only:
        env = {v: c for v in cvs}
        where = []
        if ivar is None:
            # no position variable: one pass over the loop body stands for every position
            if escapes(S.reach(env=env, blocked=raising, starts=body_entry, must_decide=cvs, what=' for %r' % c)):
                where.append('at some position')
        else:
            # first position: the code in front of the loop sees the character as scalar[0]; when it can reach the loop without
            # having raised a flag, the first pass through the loop body (position 0) has to
            env0 = dict(env)
            env0.update({nm: c for nm in firsts})
            if head in S.reach(env=env0, table={'%s[0]' % text: c}, blocked=raising):
                env0[ivar] = 0
                if escapes(S.reach(env=env0, table={'%s[0]' % text: c}, blocked=raising, starts=body_entry, must_decide=cvs,
                                   what=' for %r at position 0' % c)):
                    where.append('as its first character')
            # every later position: the loop body with the position variable > 0
            if escapes(S.reach(env=env, blocked=raising, starts=body_entry, must_decide=cvs, hook=later_hook,
                               what=' for %r after position 0' % c)):
                where.append('after its first character')
        if where:
            rule.fail('%s|flow-plain|%s' % (f.qualname, c), f.module.rel, loop.lineno, f.qualname, 'character %r' % c,
                      'a scalar containing %r %s (and nothing else special) is still allowed the plain style inside '
                      'flow collections, but the scanner ends a plain scalar at %r there: [a%sb] does not read back'
                      % (c, ' / '.join(where), c, c))
        else:
            rule.ok(f.loc(loop), '%r forbids the plain style in the flow context at every position' % c)
    return rule


# ---------------------------------------------------------------------------------------------- R-NO-CODEC-LOOKUP
_CODEC_LOOKUPS = {'lookup', 'getencoder', 'getdecoder', 'getincrementalencoder', 'getincrementaldecoder', 'getreader', 'getwriter',
                  'encode', 'decode', 'open', 'iterdecode', 'iterencode', 'EncodedFile'}
_BUILTIN_CODECS = {'utf-8', 'utf8', 'ascii', 'latin-1', 'latin1', 'utf-16', 'utf-16-le', 'utf-16-be', 'utf-32', 'utf-32-le',
                   'utf-32-be', 'iso-8859-1'}


def r_no_codec_lookup(ctx, repo, modules=READ_PATH):
    rule = ctx.rule('R-NO-CODEC-LOOKUP', 'the load path decodes with the codec functions it names directly (codecs.utf_8_decode ...) and '
                                         'encodes / decodes only with literal built-in codec names: a look-up in the codec registry '
                                         'imports an encodings.* module the first time it is used')
    n = 0
    for f in _all_funcs(repo, modules):
        for c in A.func_calls(f.node):
            fn = c.func
            if isinstance(fn, ast.Attribute) and isinstance(fn.value, ast.Name) and fn.value.id == 'codecs' and fn.attr in _CODEC_LOOKUPS:
                n += 1
                rule.fail('%s|codecs.%s' % (f.qualname, fn.attr), f.module.rel, c.lineno, f.qualname, A.anon_text(c, f.node, 70),
                          '%s looks a codec up in the registry (codecs.%s): the first such look-up imports encodings.<name>, so '
                          'loading a document imports a module that the input (its byte-order mark / encoding) selects'
                          % (f.qualname, fn.attr))
            elif isinstance(fn, ast.Attribute) and fn.attr in ('encode', 'decode') and not (
                    isinstance(fn.value, ast.Name) and fn.value.id in ('base64', 'binascii', 'codecs')):
                n += 1
                enc = c.args[0] if c.args else next((k.value for k in c.keywords if k.arg == 'encoding'), None)
                if enc is None or (isinstance(enc, ast.Constant) and isinstance(enc.value, str)
                                   and enc.value.lower().replace('_', '-') in _BUILTIN_CODECS):
                    rule.ok(f.loc(c), '%s with a literal built-in codec' % fn.attr)
                else:
                    rule.fail('%s|%s' % (f.qualname, fn.attr), f.module.rel, c.lineno, f.qualname, A.anon_text(c, f.node, 70),
                              '%s calls .%s() with a codec name that is not a literal built-in one: the codec registry imports the '
                              'encodings.* module of that name' % (f.qualname, fn.attr))
    rule.instances += 1
    rule.ok('%d modules' % len(modules), '%d encode/decode sites examined' % n)
    return rule


# ------------------------------------------------------------------------------------------- R-URI-ESCAPES-JOINED
def r_uri_escapes_joined(ctx, repo):
    rule = ctx.rule('R-URI-ESCAPES-JOINED', 'scan_uri_escapes collects every consecutive %XX escape in a loop and decodes the bytes '
                                            'together, after the loop: the escapes of one multi-byte UTF-8 character are never decoded '
                                            'one by one')
    f = _method(repo, 'scanner.Scanner', 'scan_uri_escapes')
    decs = [c for c in A.func_calls(f.node) if isinstance(c.func, ast.Attribute) and c.func.attr == 'decode']
    if not decs:
        raise AnalysisError('scan_uri_escapes: no .decode() call found')
    for d in decs:
        names = {x.id for x in ast.walk(d.func.value) if isinstance(x, ast.Name) and x.id not in ('bytes', 'bytearray')}
        loops = [l for l in walk_function(f.node) if isinstance(l, (ast.While, ast.For))]
        ok = False
        for l in loops:
            inside = {id(x) for x in ast.walk(l)}
            if id(d) in inside:
                continue
            for m in A.find_mutations(f.node):
                if id(m.node) in inside and m.kind in ('call:append', 'call:extend', 'augassign', 'setitem') and isinstance(m.root, ast.Name) \
                        and m.root.id in names:
                    ok = True
            for s in ast.walk(l):
                if isinstance(s, ast.AugAssign) and isinstance(s.target, ast.Name) and s.target.id in names:
                    ok = True
        if ok:
            rule.ok(f.loc(d), 'the bytes of all consecutive escapes are decoded together')
        else:
            rule.fail('%s|single' % f.qualname, f.module.rel, d.lineno, f.qualname, A.anon_text(d, f.node, 60),
                      'scan_uri_escapes decodes a value that was not accumulated over the run of %XX escapes: a non-ASCII character '
                      'written as %C3%A9 is decoded byte by byte and rejected (the LibYAML scanner accepts it)')
    return rule


# ------------------------------------------------------------------------------------------ R-CONSTRUCTOR-KIND-CHECKED
KIND_ACCESSORS = ('construct_scalar', 'construct_sequence', 'construct_mapping', 'construct_pairs')


def r_constructor_kind_checked(ctx, repo, loaders):
    from . import rules_registry as RR
    from .srcmodel import FuncInfo as FI
    rm = RR.model(repo)
    rule = ctx.rule('R-CONSTRUCTOR-KIND-CHECKED', 'every constructor registered for a tag validates the kind of its node on every path '
                                                  'to a normal exit - through construct_scalar / construct_sequence / construct_mapping / '
                                                  'construct_pairs, an isinstance test of the node, or another constructor it hands the '
                                                  'node to: a node of the wrong kind is rejected, and its children are never skipped')
    seen = {}
    for lq in loaders:
        c = repo.cls(lq)
        for reg in ('yaml_constructors', 'yaml_multi_constructors'):
            for k, v in rm.heap.table(c, reg).items():
                if isinstance(v, FI):
                    seen.setdefault(v.qualname, v)
    if len(seen) < 12:
        raise AnalysisError('only %d registered constructors found' % len(seen))
    for q, f in sorted(seen.items()):
        params = f.params
        if not params or 'node' not in params and len(params) < 2:
            continue
        node = 'node' if 'node' in params else params[-1]
        cfg = CFG(f.node)
        checks = []
        for n in cfg.nodes:
            if n.ast is None:
                continue
            for x in own_exprs(n):
                if isinstance(x, ast.Call):
                    args = [a for a in x.args] + [k.value for k in x.keywords]
                    passes_node = any(isinstance(a, ast.Name) and a.id == node for a in args)
                    if isinstance(x.func, ast.Attribute) and passes_node and (
                            x.func.attr in KIND_ACCESSORS or x.func.attr.startswith('construct_') or x.func.attr in (
                                'make_python_instance', 'from_yaml', 'flatten_mapping')):
                        checks.append(n)
                        break
                    if isinstance(x.func, ast.Name) and x.func.id == 'isinstance' and x.args and isinstance(x.args[0], ast.Name) \
                            and x.args[0].id == node:
                        checks.append(n)
                        break
        r = cfg.reach([cfg.entry], blocked=checks, follow_exc=False)
        leaks = [x for x in cfg.normal_exits() if x in r]
        if leaks:
            rets = sorted((x for x in r if x.kind == 'return'), key=lambda x: x.lineno)
            rule.fail('%s|unchecked' % q, f.module.rel, rets[0].lineno if rets else f.node.lineno, q,
                      A.anon_text(rets[0].ast, f.node, 50) if rets else 'end of function',
                      '%s can finish without ever looking at the kind of its node: a collection under this tag is accepted as if it '
                      'were the scalar, and nothing below it is constructed - tags that the loader must reject (python/..., local '
                      'tags) pass unseen' % q)
        else:
            rule.ok(f.loc(), '%s validates the node kind on every path' % f.name)
    return rule


# ------------------------------------------------------------------------------------------------ R-MERGE-BY-TAG
def r_merge_by_tag(ctx, repo):
    from .rules_r6 import _flatten, _recursive_calls
    rule = ctx.rule('R-MERGE-BY-TAG', 'flatten_mapping treats a pair as a merge only on the branch where the key node\'s tag equals '
                                      'tag:yaml.org,2002:merge: a key is never merged because of its text (a quoted "<<" is an ordinary '
                                      'key)')
    f = _flatten(repo)
    cfg = CFG(f.node)
    edges = []
    for n in cfg.nodes:
        if n.kind == 'test' and isinstance(n.ast, ast.Compare) and len(n.ast.ops) == 1:
            l, r = n.ast.left, n.ast.comparators[0]
            lit = A.const_str(r) or A.const_str(l)
            other = l if A.const_str(r) is not None else r
            if lit == 'tag:yaml.org,2002:merge' and isinstance(other, ast.Attribute) and other.attr == 'tag':
                if isinstance(n.ast.ops[0], ast.Eq):
                    edges.append((n, True))
                elif isinstance(n.ast.ops[0], ast.NotEq):
                    edges.append((n, False))
    if not edges:
        raise AnalysisError('flatten_mapping: the test of the merge tag was not found')
    calls = _recursive_calls(cfg, f)
    if not calls:
        raise AnalysisError('flatten_mapping no longer calls itself for the merged nodes')
    for n, c in calls:
        if cfg.guarded(n, edges=edges):
            rule.ok(f.loc(n.ast), 'merging happens only under key.tag == !!merge')
        else:
            rule.fail('%s|merge-without-tag' % f.qualname, f.module.rel, n.lineno, f.qualname, A.anon_text(n.ast, f.node, 60),
                      'flatten_mapping can merge the value of a pair whose key is not tagged !!merge (some path reaches the merge '
                      'code without the tag test having succeeded): a quoted or explicitly !!str-tagged "<<" key is merged instead '
                      'of being kept as a string key')
    return rule


# --------------------------------------------------------------------------------------------- R-STR-INPUT-VERBATIM
def r_str_input_verbatim(ctx, repo):
    rule = ctx.rule('R-STR-INPUT-VERBATIM', 'for str input Reader.__init__ puts the caller\'s string itself (plus the NUL sentinel) into '
                                            'the buffer: marks index the text the caller passed')
    f = _method(repo, 'reader.Reader', '__init__')
    if len(f.params) < 2:
        raise AnalysisError('Reader.__init__ has no stream parameter')
    p = f.params[1]
    cfg = CFG(f.node)
    rd = reaching_defs(cfg, p, entry_def=True)
    sites = []
    for n in cfg.nodes:
        if n.kind == 'stmt' and isinstance(n.ast, ast.Assign) and any(
                isinstance(t, ast.Attribute) and t.attr == 'buffer' and norm(t.value) == f.params[0] for t in n.ast.targets):
            v = n.ast.value
            names = [x for x in ast.walk(v) if isinstance(x, ast.Name) and x.id == p]
            if names:
                sites.append((n, v))
    if not sites:
        raise AnalysisError('Reader.__init__: the assignment of the str input to self.buffer was not found')
    for n, v in sites:
        verbatim = isinstance(v, ast.BinOp) and isinstance(v.op, ast.Add) and isinstance(v.left, ast.Name) and v.left.id == p \
            and A.const_str(v.right) == '\0'
        if verbatim and rd.get(n, set()) == {cfg.entry}:
            rule.ok(f.loc(n.ast), 'self.buffer = <the parameter> + NUL')
        else:
            rule.fail('%s|buffer' % f.qualname, f.module.rel, n.lineno, f.qualname, A.anon_text(n.ast, f.node, 60),
                      'the text put into the buffer for str input is not the string the caller passed (it was rebound or '
                      'transformed before): every index, line and column of a mark then refers to a different text than the '
                      'caller\'s, e.g. input[start:end] is no longer the token')
    return rule


# ------------------------------------------------------------------------------------------------ R-BOM-PREFIX-FITS
_BOM_LEN = {'BOM_UTF8': 3, 'BOM_UTF16_LE': 2, 'BOM_UTF16_BE': 2, 'BOM_UTF16': 2, 'BOM': 2, 'BOM_LE': 2, 'BOM_BE': 2,
            'BOM_UTF32_LE': 4, 'BOM_UTF32_BE': 4, 'BOM_UTF32': 4}


def r_bom_prefix_fits(ctx, repo):
    rule = ctx.rule('R-BOM-PREFIX-FITS', 'determine_encoding tests only prefixes that fit into the two bytes its read loop guarantees: '
                                         'the detected encoding does not depend on how many bytes the first read() returned')
    f = _method(repo, 'reader.Reader', 'determine_encoding')
    n = 0
    for c in A.func_calls(f.node):
        if isinstance(c.func, ast.Attribute) and c.func.attr == 'startswith' and c.args:
            a = c.args[0]
            items = list(a.elts) if isinstance(a, ast.Tuple) else [a]
            for it in items:
                ln = None
                if isinstance(it, ast.Attribute) and it.attr in _BOM_LEN:
                    ln = _BOM_LEN[it.attr]
                elif isinstance(it, ast.Constant) and isinstance(it.value, (bytes, str)):
                    ln = len(it.value)
                if ln is None:
                    raise AnalysisError('determine_encoding: prefix %s not understood' % norm(it))
                n += 1
                if ln <= 2:
                    rule.ok(f.loc(c), 'prefix of %d bytes' % ln)
                else:
                    rule.fail('%s|prefix|%s' % (f.qualname, norm(it)), f.module.rel, c.lineno, f.qualname, A.anon_text(c, f.node, 60),
                              'determine_encoding tests a %d-byte prefix, but its read loop only waits for 2 bytes: whether the '
                              'prefix is seen depends on the size of the first read(), so the same bytes are decoded differently '
                              'under different deliveries' % ln)
    if not n:
        raise AnalysisError('determine_encoding: no byte-order-mark test found')
    return rule


# ------------------------------------------------------------------------------------------ R-YAMLOBJECT-REGISTERS-ALL
def r_yamlobject_registers_all(ctx, repo):
    rule = ctx.rule('R-YAMLOBJECT-REGISTERS-ALL', 'the YAMLObject metaclass registers the constructor on every loader listed in yaml_loader '
                                                  '(each iteration of the loop calls add_constructor) and the representer on the dumper')
    c = repo.modules['__init__'].classes.get('YAMLObjectMetaclass')
    f = c.methods.get('__init__') if c else None
    if f is None:
        raise AnalysisError('YAMLObjectMetaclass.__init__ has vanished')
    cfg = CFG(f.node)
    loops = [n for n in cfg.nodes if n.kind == 'for' and any(
        isinstance(x, ast.Attribute) and x.attr == 'yaml_loader' for x in ast.walk(n.stmt.iter))]
    # also a loop over a local that holds the list
    for n in cfg.nodes:
        if n.kind == 'for' and n not in loops and isinstance(n.stmt.iter, ast.Name):
            nm = n.stmt.iter.id
            if any(isinstance(s, ast.Assign) and any(isinstance(t, ast.Name) and t.id == nm for t in s.targets) and any(
                    isinstance(x, ast.Attribute) and x.attr == 'yaml_loader' for x in ast.walk(s.value))
                    for s in walk_function(f.node)):
                loops.append(n)
    reps = [c for c in A.func_calls(f.node) if isinstance(c.func, ast.Attribute) and c.func.attr in ('add_representer', 'add_multi_representer')
            and any(isinstance(x, ast.Attribute) and x.attr == 'yaml_dumper' for x in ast.walk(c.func.value))]
    for c in reps:
        if c.func.attr == 'add_representer':
            rule.ok(f.loc(c), 'the class gets an exact-type representer on its dumper')
        else:
            rule.fail('%s|multi' % f.qualname, f.module.rel, c.lineno, f.qualname, A.anon_text(c, f.node, 60),
                      'the YAMLObject class is registered with add_multi_representer: the registration lands in (and copies) the '
                      'other table, so which dumper subclasses see it follows the wrong inheritance state, and the shipped '
                      'Dumper\'s multi-representer table changes')
    if not reps:
        raise AnalysisError('YAMLObjectMetaclass.__init__: no representer registration found')
    if not loops:
        raise AnalysisError('YAMLObjectMetaclass.__init__: no loop over yaml_loader')
    regs = [n for n in cfg.nodes if n.ast is not None and any(
        isinstance(x, ast.Call) and isinstance(x.func, ast.Attribute) and x.func.attr == 'add_constructor' for x in own_exprs(n))]
    for head in loops:
        starts = [m for (m, lab) in cfg.succ[head] if lab is True]
        r = cfg.reach(starts, blocked=regs, follow_exc=False)
        if head in r or any(x in r for x in cfg.normal_exits()):
            rule.fail('%s|skip' % f.qualname, f.module.rel, head.lineno, f.qualname, A.anon_text(head.stmt.iter, f.node, 50),
                      'an iteration over the loaders of yaml_loader can finish without add_constructor: a loader the class names '
                      'explicitly (e.g. an already customised subclass of another listed loader) does not get the constructor')
        else:
            rule.ok(f.loc(head.stmt), 'every listed loader gets the constructor')
    return rule


# --------------------------------------------------------------------------------------------- R-COMPOSER-ERRORS
def r_composer_errors(ctx, repo):
    rule = ctx.rule('R-COMPOSER-ERRORS', 'the composer raises ComposerError only for an undefined alias, a duplicate anchor '
                                         '(compose_node) and a second document in a single-document load (get_single_node): anything '
                                         'else about the shape of the graph is left to the constructor')
    allowed = {'compose_node': 2, 'get_single_node': 1}
    c = repo.cls('composer.Composer')
    n = 0
    for m in c.methods.values():
        sites = [r for r in walk_function(m.node) if isinstance(r, ast.Raise) and r.exc is not None
                 and 'ComposerError' in norm(r.exc.func if isinstance(r.exc, ast.Call) else r.exc)]
        for r in sites:
            n += 1
        if len(sites) > allowed.get(m.name, 0):
            r = sites[-1]
            rule.fail('%s|raise' % m.qualname, m.module.rel, r.lineno, m.qualname, A.anon_text(r, m.node, 70),
                      '%s raises a ComposerError that is not one of the three the composer is specified to raise: documents '
                      'that used to compose (a node used inside itself is legal for the composer; whether it can be built is the '
                      'constructor\'s decision, reported as ConstructorError) are now rejected at the wrong stage' % m.qualname)
        elif sites:
            rule.ok(m.loc(sites[0]), '%s: %d ComposerError site(s)' % (m.name, len(sites)))
    if n == 0:
        raise AnalysisError('no ComposerError site found in the composer (3 confirmed)')
    # the three errors are required, too: each is raised by the LibYAML binding's composer as well (the sibling), and C13 / C12
    # state them (undefined alias, duplicate anchor, a second document where one was asked for)
    for name, need in sorted(allowed.items()):
        m = c.methods.get(name)
        if m is None:
            raise AnalysisError('composer.Composer.%s has vanished' % name)
        have = len([r for r in walk_function(m.node) if isinstance(r, ast.Raise) and r.exc is not None
                    and 'ComposerError' in norm(r.exc.func if isinstance(r.exc, ast.Call) else r.exc)])
        if have < need:
            rule.fail('%s|missing-raise' % m.qualname, m.module.rel, m.node.lineno, m.qualname, 'raise ComposerError(...)',
                      '%s raises ComposerError at %d place(s), %d are required (%s): the pure-Python composer accepts what the '
                      'LibYAML composer and the specification reject' % (
                          m.qualname, have, need,
                          'a second document in a single-document load' if name == 'get_single_node'
                          else 'undefined alias and duplicate anchor'))
    return rule


# ---------------------------------------------------------------------------------------- R-DEEP-IFF-SETSTATE
def r_deep_iff_setstate(ctx, repo):
    rule = ctx.rule('R-DEEP-IFF-SETSTATE', 'construct_python_object builds the state deeply exactly when the instance has __setstate__: '
                                           'plain instance dictionaries are filled lazily, so cycles that run through lists / dicts '
                                           'inside the state are rebuilt as pickle rebuilds them')
    f = _method(repo, 'constructor.FullConstructor', 'construct_python_object')
    calls = [c for c in A.func_calls(f.node) if isinstance(c.func, ast.Attribute) and c.func.attr == 'construct_mapping']
    if not calls:
        raise AnalysisError('construct_python_object: construct_mapping is not called')
    for c in calls:
        e = next((k.value for k in c.keywords if k.arg == 'deep'), c.args[1] if len(c.args) > 1 else None)
        if e is None:
            rule.fail('%s|deep-missing' % f.qualname, f.module.rel, c.lineno, f.qualname, A.anon_text(c, f.node, 60),
                      'the state is never built deeply: __setstate__ receives containers that are still empty')
            continue
        # resolve a local bound once
        if isinstance(e, ast.Name):
            defs = [s for s in walk_function(f.node) if isinstance(s, ast.Assign) and any(
                isinstance(t, ast.Name) and t.id == e.id for t in s.targets)]
            if len(defs) == 1:
                e = defs[0].value
        probes = [x for x in ast.walk(e) if isinstance(x, ast.Call) and isinstance(x.func, ast.Name) and x.func.id == 'hasattr'
                  and len(x.args) == 2 and A.const_str(x.args[1]) == '__setstate__']
        ok = False
        if probes:
            key = norm(probes[0])
            ok = A.const_truth(e, {key: True}) is True and A.const_truth(e, {key: False}) is False
        if ok:
            rule.ok(f.loc(c), 'deep == hasattr(instance, \'__setstate__\')')
        else:
            rule.fail('%s|deep' % f.qualname, f.module.rel, c.lineno, f.qualname, A.anon_text(c, f.node, 60),
                      'construct_python_object does not tie deep construction of the state to the presence of __setstate__: '
                      'with deep always on, a list or dict in the state that refers back to itself or to a sibling is rejected as '
                      'an unconstructable recursive node; with deep always off, __setstate__ sees unfilled containers')
    return rule


# --------------------------------------------------------------------------------------- R-PAIRS-FROM-NODES
def r_pairs_from_nodes(ctx, repo):
    rule = ctx.rule('R-PAIRS-FROM-NODES', 'the entries of !!omap / !!pairs are taken from the entry\'s node pairs (key node and value node '
                                          'constructed separately), never through a dict: a dict merges equal keys and rejects '
                                          'unhashable ones, both of which are legal here')
    for nm in ('construct_yaml_omap', 'construct_yaml_pairs'):
        f = _method(repo, 'constructor.SafeConstructor', nm)
        bad = [c for c in A.func_calls(f.node) if isinstance(c.func, ast.Attribute) and c.func.attr in (
            'construct_mapping', 'construct_yaml_map', 'flatten_mapping') or (isinstance(c.func, ast.Name) and c.func.id == 'dict')]
        objs = [c for c in A.func_calls(f.node) if isinstance(c.func, ast.Attribute) and c.func.attr == 'construct_object']
        if bad:
            rule.fail('%s|dict' % f.qualname, f.module.rel, bad[0].lineno, f.qualname, A.anon_text(bad[0], f.node, 60),
                      '%s builds an entry through a dict or flattens it first: `- {b: 2, b: 3}` / `- {<<: {a: 1}}` pass the one-item test, and an '
                      'entry whose key is a sequence or mapping is rejected as unhashable' % nm)
        elif len(objs) >= 2:
            rule.ok(f.loc(), '%s constructs key and value from their nodes' % nm)
        else:
            raise AnalysisError('%s: key / value construction not found' % nm)
    return rule


# ----------------------------------------------------------------------------------------- R-BANG-ESCAPED-IN-LOCAL-TAG
def r_bang_escaped(ctx, repo):
    from . import rules_emit as RE
    rule = ctx.rule('R-BANG-ESCAPED-IN-LOCAL-TAG', 'prepare_tag writes a "!" inside the suffix unescaped only when a real handle precedes '
                                                   'the suffix: after the primary handle "!" it is %-escaped, otherwise !foo!bar would name '
                                                   'the undeclared handle !foo!')
    f = _method(repo, 'emitter.Emitter', 'prepare_tag')
    ec = RE.CharClass(repo, f)
    handles = [x.id for s in walk_function(f.node) if isinstance(s, ast.Assign) and isinstance(s.value, ast.Subscript)
               and isinstance(s.value.value, ast.Attribute) and s.value.value.attr == 'tag_prefixes' for x in s.targets
               if isinstance(x, ast.Name)]
    if not handles:
        raise AnalysisError('prepare_tag: the local holding the handle was not found')
    h = handles[0]
    import itertools
    names = sorted(k for k in ec.alts if k != h)
    seen = set()
    for combo in itertools.product(*[ec.alts[k] for k in names]):
        env = {ec.var: '!', h: '!'}
        env.update(dict(zip(names, combo)))
        seen.add(CW.eval_cond(repo, ec.test, env))
    v = None if len(seen) != 1 else seen.pop()
    raw = None if v is None else (v if ec.pass_when else (not v))
    if raw is False:
        rule.ok(f.loc(ec.node), '"!" after the primary handle is escaped')
    elif raw is True:
        rule.fail('%s|bang' % f.qualname, f.module.rel, ec.node.lineno, f.qualname, ec.text[:80],
                  'prepare_tag writes "!" unescaped in the suffix of a tag whose handle is the primary "!": the local tag !foo!bar '
                  'is emitted as it is and read back as handle !foo! (undeclared) with suffix bar - a parse error')
    else:
        # undecided by constant evaluation: use the scenario with the handle fixed
        S = RE.Scenario(repo, f)
        body_true = S.reach(env={ec.var: '!', h: '!'})
        # the pass branch: statements of the branch that lets the character through
        passing = ec.node.body if ec.pass_when else (ec.node.orelse or RE._following(ec.node))
        rejecting = (ec.node.orelse or RE._following(ec.node)) if ec.pass_when else ec.node.body
        pn = [n for n in S.cfg.nodes if passing and n.stmt is passing[0]]
        rn = [n for n in S.cfg.nodes if rejecting and n.stmt is rejecting[0]]
        p_reach = any(n in body_true for n in pn)
        r_reach = any(n in body_true for n in rn)
        if r_reach and not p_reach:
            rule.ok(f.loc(ec.node), '"!" after the primary handle is escaped')
        elif p_reach:
            rule.fail('%s|bang' % f.qualname, f.module.rel, ec.node.lineno, f.qualname, ec.text[:80],
                      'prepare_tag can write "!" unescaped in the suffix of a tag whose handle is the primary "!": the local tag '
                      '!foo!bar is emitted as it is and read back as handle !foo! (undeclared) with suffix bar - a parse error')
        else:
            raise AnalysisError('prepare_tag: cannot decide how "!" is written after the primary handle')
    return rule


# ------------------------------------------------------------------------------------------ R-TAG-HANDLES-SORTED
def r_tag_handles_sorted(ctx, repo):
    rule = ctx.rule('R-TAG-HANDLES-SORTED', 'expect_document_start walks the handles of event.tags in sorted order: the %TAG directives '
                                            'and the handle chosen for a prefix do not depend on the insertion order of the tags dict')
    f = _method(repo, 'emitter.Emitter', 'expect_document_start')
    loops = [l for l in walk_function(f.node) if isinstance(l, ast.For) and any(
        isinstance(c, ast.Call) and isinstance(c.func, ast.Attribute) and c.func.attr == 'write_tag_directive' for c in ast.walk(l))]
    if not loops:
        raise AnalysisError('expect_document_start: the loop writing %TAG directives was not found')
    for l in loops:
        it = l.iter
        if isinstance(it, ast.Name):
            defs = [s for s in walk_function(f.node) if isinstance(s, ast.Assign) and any(
                isinstance(t, ast.Name) and t.id == it.id for t in s.targets)]
            if len(defs) == 1:
                it = defs[0].value
        is_sorted = isinstance(it, ast.Call) and isinstance(it.func, ast.Name) and it.func.id == 'sorted' and it.args and any(
            isinstance(x, ast.Attribute) and x.attr == 'tags' for x in ast.walk(it.args[0])) and not any(
            k.arg == 'key' for k in it.keywords)
        if is_sorted:
            rule.ok(f.loc(l), 'handles are visited in sorted order')
        else:
            rule.fail('%s|unsorted' % f.qualname, f.module.rel, l.lineno, f.qualname, A.anon_text(l.iter, f.node, 60),
                      'the handles of event.tags are visited in the dict\'s own order: two equal tags= options built in different '
                      'orders give different output (directive order; when two handles share a prefix, which one is used)')
    return rule


# ------------------------------------------------------------------------------------------ R-REDUCE-EXACT-TYPE
def r_reduce_exact_type(ctx, repo):
    rule = ctx.rule('R-REDUCE-EXACT-TYPE', 'represent_object consults copyreg.dispatch_table for the exact type of the object only (as '
                                           'pickle and copy do): a subclass of a registered type is reduced by its own __reduce_ex__')
    f = _method(repo, 'representer.Representer', 'represent_object')
    data = f.params[1]
    keys = []
    for x in walk_function(f.node):
        if isinstance(x, ast.Subscript) and norm(x.value).endswith('dispatch_table'):
            keys.append((x, x.slice))
        elif isinstance(x, ast.Compare) and len(x.ops) == 1 and isinstance(x.ops[0], (ast.In, ast.NotIn)) \
                and norm(x.comparators[0]).endswith('dispatch_table'):
            keys.append((x, x.left))
        elif isinstance(x, ast.Call) and isinstance(x.func, ast.Attribute) and x.func.attr == 'get' \
                and norm(x.func.value).endswith('dispatch_table') and x.args:
            keys.append((x, x.args[0]))
    if not keys:
        raise AnalysisError('represent_object: copyreg.dispatch_table is not consulted')

    def is_exact(e, depth=0):
        if isinstance(e, ast.Call) and isinstance(e.func, ast.Name) and e.func.id == 'type' and len(e.args) == 1 \
                and isinstance(e.args[0], ast.Name) and e.args[0].id == data:
            return True
        if isinstance(e, ast.Attribute) and e.attr == '__class__' and isinstance(e.value, ast.Name) and e.value.id == data:
            return True
        if isinstance(e, ast.Name) and depth < 3:
            defs = [s for s in walk_function(f.node) if isinstance(s, ast.Assign) and any(
                isinstance(t, ast.Name) and t.id == e.id for t in s.targets)]
            bound_other = [s for s in walk_function(f.node) if isinstance(s, (ast.For, ast.comprehension)) and any(
                isinstance(t, ast.Name) and t.id == e.id for t in ast.walk(s.target))]
            return bool(defs) and not bound_other and all(is_exact(d.value, depth + 1) for d in defs)
        return False
    for x, k in keys:
        if is_exact(k):
            rule.ok(f.loc(x), 'dispatch_table looked up with type(data)')
        else:
            rule.fail('%s|dispatch-key' % f.qualname, f.module.rel, x.lineno, f.qualname, A.anon_text(x, f.node, 60),
                      'represent_object looks copyreg.dispatch_table up with something else than the exact type of the object (a '
                      'base class along the MRO): an instance of a subclass of a registered type (complex is always registered) '
                      'is reduced by the base class\'s reducer and loads back as the base class, without its instance state')
    return rule


# -------------------------------------------------------------------------------------- R-BOUND-METHOD-RELEASED
def r_bound_method_released(ctx, repo, classes):
    rule = ctx.rule('R-BOUND-METHOD-RELEASED', 'every instance attribute that holds bound methods of the instance itself (a reference '
                                               'cycle) is cleared by the dispose() of the class: an abandoned loader / dumper is '
                                               'released without waiting for the cycle collector')
    n = 0
    for cq in classes:
        c = repo.cls(cq)
        methods = set()
        for k in repo.classes.values():
            if k is c or c.is_subclass_of(k) or k.is_subclass_of(c) or k.module.name in (
                    'reader', 'scanner', 'parser', 'composer', 'constructor', 'resolver', 'emitter', 'serializer', 'representer'):
                methods |= set(k.methods)
        holders = {}
        for m in c.methods.values():
            if not m.params:
                continue
            sn = m.params[0]

            def holds_bound(v):
                for x in ast.walk(v):
                    if isinstance(x, ast.Attribute) and isinstance(x.value, ast.Name) and x.value.id == sn and x.attr in methods \
                            and isinstance(x.ctx, ast.Load):
                        par = getattr(x, '_parent', None)
                        if not (isinstance(par, ast.Call) and par.func is x):
                            return True
                return False
            for s in walk_function(m.node):
                if isinstance(s, ast.Assign) and holds_bound(s.value):
                    for t in s.targets:
                        if isinstance(t, ast.Attribute) and isinstance(t.value, ast.Name) and t.value.id == sn:
                            holders.setdefault(t.attr, (m, s))
                if isinstance(s, ast.Call) and isinstance(s.func, ast.Attribute) and s.func.attr in ('append', 'insert', 'extend', 'add') \
                        and isinstance(s.func.value, ast.Attribute) and isinstance(s.func.value.value, ast.Name) \
                        and s.func.value.value.id == sn and any(holds_bound(a) for a in s.args):
                    holders.setdefault(s.func.value.attr, (m, s))
        for m in c.methods.values():
            if not m.params:
                continue
            sn = m.params[0]
            for call in A.func_calls(m.node):
                callee_self = isinstance(call.func, ast.Attribute) and norm(call.func).startswith(sn + '.')
                if callee_self or (isinstance(call.func, ast.Name) and call.func.id in ('isinstance', 'getattr', 'hasattr', 'callable')):
                    continue
                for a in list(call.args) + [k.value for k in call.keywords]:
                    if isinstance(a, ast.Attribute) and isinstance(a.value, ast.Name) and a.value.id == sn and a.attr in methods \
                            and not isinstance(call.func, ast.Attribute):
                        pass
                    if isinstance(a, ast.Attribute) and isinstance(a.value, ast.Name) and a.value.id == sn and a.attr in methods \
                            and norm(call.func).split('.')[0] in ('weakref', 'atexit', 'signal', 'threading', 'gc'):
                        rule.fail('%s|escape|%s' % (m.qualname, norm(call.func)), m.module.rel, call.lineno, m.qualname,
                                  A.anon_text(call, m.node, 60),
                                  '%s hands a bound method of the object to %s: that registry keeps the object (and its stream) '
                                  'alive for as long as the entry exists, so an abandoned loader / dumper is never released'
                                  % (m.qualname, norm(call.func)))
        if not holders:
            continue
        d = c.methods.get('dispose')
        cleared = set()
        if d is not None and d.params:
            for s in walk_function(d.node):
                if isinstance(s, ast.Assign):
                    for t in s.targets:
                        if isinstance(t, ast.Attribute) and isinstance(t.value, ast.Name) and t.value.id == d.params[0]:
                            cleared.add(t.attr)
                if isinstance(s, ast.Call) and isinstance(s.func, ast.Attribute) and s.func.attr == 'clear' \
                        and isinstance(s.func.value, ast.Attribute):
                    cleared.add(s.func.value.attr)
        for attr, (m, s) in sorted(holders.items()):
            n += 1
            if attr in cleared:
                rule.ok(m.loc(s), '%s.%s holds bound methods and is cleared by dispose()' % (c.name, attr))
            else:
                rule.fail('%s|%s' % (c.qualname, attr), m.module.rel, s.lineno, m.qualname, A.anon_text(s, m.node, 60),
                          'self.%s holds bound methods of the object itself and %s.dispose() does not clear it: the loader / dumper '
                          'stays alive (with its stream) after dispose() until a garbage-collection pass breaks the cycle' % (attr, c.name))
    if n < 4:
        raise AnalysisError('R-BOUND-METHOD-RELEASED: only %d holders of bound methods found (4 confirmed: state / states of Parser and Emitter)' % n)
    return rule


# -------------------------------------------------------------------------------------- R-READ-ONLY-IN-UPDATE-RAW
def r_read_only_in_update_raw(ctx, repo):
    rule = ctx.rule('R-READ-ONLY-IN-UPDATE-RAW', 'the stream\'s read() is called by Reader.update_raw only, one bounded block at a time: '
                                                 'no other place drains the stream')
    R = repo.cls('reader.Reader')
    n = 0
    for m in R.methods.values():
        for c in A.func_calls(m.node):
            if isinstance(c.func, ast.Attribute) and c.func.attr in ('read', 'readline', 'readlines', 'getvalue', 'readall', 'read1', 'readinto'):
                n += 1
                if m.name == 'update_raw' and c.func.attr == 'read' and c.args:
                    rule.ok(m.loc(c), 'update_raw reads one block')
                else:
                    rule.fail('%s|%s' % (m.qualname, c.func.attr), m.module.rel, c.lineno, m.qualname, A.anon_text(c, m.node, 60),
                              '%s calls .%s(%s) on the input: the stream is consumed outside the block-wise refill (for an in-memory '
                              'stream: completely, before the first document is delivered)' % (m.qualname, c.func.attr,
                                                                                              '' if not c.args else '...'))
    if not n:
        raise AnalysisError('Reader never reads its stream')
    return rule


# ------------------------------------------------------------------------------------------ R-DOC-END-LOOKAHEAD
def r_doc_end_lookahead(ctx, repo):
    rule = ctx.rule('R-DOC-END-LOOKAHEAD', 'a document is complete for the parser only once it has seen the token that follows it: '
                                           'parse_document_end asks the scanner for that token before it emits DocumentEnd')
    f = _method(repo, 'parser.Parser', 'parse_document_end')
    cfg = CFG(f.node)
    looks = [n for n in cfg.nodes if n.ast is not None and any(
        isinstance(x, ast.Call) and isinstance(x.func, ast.Attribute) and x.func.attr in ('peek_token', 'check_token', 'get_token')
        for x in own_exprs(n))]
    events = [n for n in cfg.nodes if n.ast is not None and any(
        isinstance(x, ast.Call) and norm(x.func) == 'DocumentEndEvent' for x in own_exprs(n))]
    if not events:
        raise AnalysisError('parse_document_end: DocumentEndEvent is not built here')
    looks.sort(key=lambda n: n.lineno)
    if looks and all(any(cfg.dominates(l, e) for l in looks) for e in events):
        rule.fail('%s|lookahead-before-event' % f.qualname, f.module.rel, looks[0].lineno, f.qualname,
                  A.anon_text(looks[0].ast, f.node, 60),
                  'the end of a document that is not closed by `...` is recognised by looking at the next token; when scanning that '
                  'token fails, the error is raised before the completed document has been delivered')
    else:
        rule.ok(f.loc(), 'DocumentEnd is emitted without a look-ahead')
    return rule


# ---------------------------------------------------------------------------------- R-BLOCK-INCREMENT-RELATIVE
def r_block_increment_relative(ctx, repo):
    from .rules_reader import linear_form
    rule = ctx.rule('R-BLOCK-INCREMENT-RELATIVE', 'with an explicit indentation indicator n the content of a block scalar is indented by n '
                                                  'relative to the parent node: scan_block_scalar computes indent = (parent indent + 1) + n - 1, '
                                                  'which is what the emitter writes (parent indent + best_indent with the hint best_indent)')
    f = _method(repo, 'scanner.Scanner', 'scan_block_scalar')
    cfg = CFG(f.node)
    # the local that receives the indicator: second element of the tuple returned by scan_block_scalar_indicators
    inc = None
    for s in walk_function(f.node):
        if isinstance(s, ast.Assign) and isinstance(s.value, ast.Call) and isinstance(s.value.func, ast.Attribute) \
                and s.value.func.attr == 'scan_block_scalar_indicators' and isinstance(s.targets[0], ast.Tuple) \
                and len(s.targets[0].elts) == 2 and isinstance(s.targets[0].elts[1], ast.Name):
            inc = s.targets[0].elts[1].id
    if inc is None:
        raise AnalysisError('scan_block_scalar: the indentation indicator is not bound to a local')
    # the local compared with self.column in the content loop
    ind = None
    for s in walk_function(f.node):
        if isinstance(s, ast.While):
            for k in A.conjuncts(s.test):
                if isinstance(k, ast.Compare) and len(k.ops) == 1 and isinstance(k.ops[0], ast.Eq) and norm(k.left).endswith('.column') \
                        and isinstance(k.comparators[0], ast.Name):
                    ind = k.comparators[0].id
    if ind is None:
        raise AnalysisError('scan_block_scalar: the content loop `while self.column == indent` was not found')
    defs = [n for n in cfg.nodes if n.kind == 'stmt' and isinstance(n.ast, ast.Assign) and any(
        isinstance(t, ast.Name) and t.id == ind for t in n.ast.targets) and any(
        isinstance(x, ast.Name) and x.id == inc for x in ast.walk(n.ast.value))]
    if not defs:
        rule.fail('%s|unused' % f.qualname, f.module.rel, f.node.lineno, f.qualname, inc,
                  'the explicit indentation indicator does not enter the computation of the content indentation')
        return rule
    # min_indent = self.indent + 1 (bounded below by 1): expand that local
    def expand(e):
        if isinstance(e, ast.Name) and e.id not in (inc, ind):
            ds = [s for s in walk_function(f.node) if isinstance(s, ast.Assign) and len(s.targets) == 1
                  and isinstance(s.targets[0], ast.Name) and s.targets[0].id == e.id]
            forms = [linear_form(d.value) for d in ds]
            forms = [x for x in forms if x is not None and any(k.endswith('.indent') for k in x)]
            if forms:
                return forms[0]
        return None
    for d in defs:
        lf = linear_form(d.ast.value, expand=expand)
        want_ok = lf is not None and lf.get(inc) == 1 and lf.get('', 0) == 0 and sum(
            v for k, v in lf.items() if k.endswith('.indent')) == 1 and set(lf) - {''} == {inc} | {k for k in lf if k.endswith('.indent')}
        if want_ok:
            rule.ok(f.loc(d.ast), 'indent = parent indent + indicator')
        else:
            rule.fail('%s|increment' % f.qualname, f.module.rel, d.lineno, f.qualname, A.anon_text(d.ast, f.node, 60),
                      'the content indentation for an explicit indicator n is not (parent indentation) + n: a block scalar that the '
                      'dumper wrote with an indicator (its text starts with a space or a line break) is read back with leading '
                      'spaces added or removed once it is nested')
    return rule


# ----------------------------------------------------------------------------------- R-PRINTABLE-PER-CHARACTER
def r_printable_per_character(ctx, repo):
    import re._parser as rp
    import re._constants as rc
    rule = ctx.rule('R-PRINTABLE-PER-CHARACTER', 'Reader.NON_PRINTABLE matches single characters regardless of their neighbours (one '
                                                 'character class, no look-around, no sequences): check_printable is applied to each decoded '
                                                 'chunk separately, so only a per-character test gives the same verdict for every chunking')
    R = repo.cls('reader.Reader')
    npv = R.attrs.get('NON_PRINTABLE')
    if not npv or not isinstance(npv[-1], ast.Call) or not npv[-1].args:
        raise AnalysisError('Reader.NON_PRINTABLE has vanished')
    pat = A.fold_str(npv[-1].args[0], R.module)
    if pat is None:
        raise AnalysisError('Reader.NON_PRINTABLE is not a literal')
    tree = rp.parse(pat)

    def single(items):
        items = list(items)
        if len(items) != 1:
            return False
        op, av = items[0]
        if op in (rc.IN, rc.LITERAL, rc.NOT_LITERAL, rc.CATEGORY, rc.ANY):
            return True
        if op is rc.BRANCH:
            return all(single(alt) for alt in av[1])
        if op is rc.SUBPATTERN:
            return single(av[3])
        return False
    if single(tree):
        rule.ok('%s:%d' % (R.module.rel, npv[-1].lineno), 'NON_PRINTABLE is a single character class')
    else:
        rule.fail('reader.Reader|NON_PRINTABLE|context', R.module.rel, npv[-1].lineno, 'reader.Reader', 'NON_PRINTABLE',
                  'NON_PRINTABLE looks at more than one character (a sequence, or a look-ahead / look-behind): whether a character '
                  'is accepted then depends on whether its neighbour was delivered in the same chunk, so a stream and the same '
                  'text as str can disagree')
    return rule


# --------------------------------------------------------------------------------------------- R-INDENT-WRITERS
def r_indent_writers(ctx, repo):
    rule = ctx.rule('R-INDENT-WRITERS', 'the emitter\'s current indentation is set only by increase_indent (to a multiple step of '
                                        'best_indent) and restored only from the indents stack: no state handler computes an '
                                        'indentation of its own')
    E = repo.cls('emitter.Emitter')
    n = 0
    for m in E.methods.values():
        if not m.params:
            continue
        sn = m.params[0]
        for s in walk_function(m.node):
            targets = []
            if isinstance(s, ast.Assign):
                targets = [t for t in s.targets if isinstance(t, ast.Attribute) and t.attr == 'indent'
                           and isinstance(t.value, ast.Name) and t.value.id == sn]
            elif isinstance(s, ast.AugAssign) and isinstance(s.target, ast.Attribute) and s.target.attr == 'indent' \
                    and isinstance(s.target.value, ast.Name) and s.target.value.id == sn:
                targets = [s.target]
            if not targets:
                continue
            n += 1
            v = s.value
            from_stack = isinstance(v, ast.Call) and isinstance(v.func, ast.Attribute) and v.func.attr == 'pop' \
                and isinstance(v.func.value, ast.Attribute) and v.func.value.attr == 'indents'
            none = isinstance(v, ast.Constant) and v.value is None
            if m.name in ('increase_indent', '__init__') or from_stack or none:
                rule.ok(m.loc(s), 'self.indent set by %s' % ('the indents stack' if from_stack else m.name))
            else:
                rule.fail('%s|indent' % m.qualname, m.module.rel, s.lineno, m.qualname, A.anon_text(s, m.node, 60),
                          '%s assigns self.indent itself: lines that start an entry of the block collection are then indented by '
                          'something else than a multiple of the requested indent' % m.qualname)
    if n < 3:
        raise AnalysisError('only %d assignments of Emitter.indent found' % n)
    return rule


# ------------------------------------------------------------------------------------------ R-NO-MUTABLE-DEFAULT
def r_no_mutable_default(ctx, repo, modules=None):
    rule = ctx.rule('R-NO-MUTABLE-DEFAULT', 'no function has a mutable default argument (a dict / list / set display or constructor call): '
                                            'such an object is created once per process, so what one call puts into it is seen by every '
                                            'later call')
    n = 0
    for f in _all_funcs(repo, modules or [m for m in repo.modules if repo.modules[m].kind == 'py']):
        a = f.node.args
        for d in list(a.defaults) + [x for x in a.kw_defaults if x is not None]:
            n += 1
            mutable = isinstance(d, (ast.Dict, ast.List, ast.Set, ast.ListComp, ast.DictComp, ast.SetComp)) or (
                isinstance(d, ast.Call) and isinstance(d.func, ast.Name) and d.func.id in ('dict', 'list', 'set', 'bytearray')) or (
                isinstance(d, ast.Call) and norm(d.func) in ('collections.OrderedDict', 'collections.defaultdict', 'collections.deque'))
            if mutable:
                rule.fail('%s|default' % f.qualname, f.module.rel, d.lineno, f.qualname, A.anon_text(d, f.node, 40),
                          '%s has a mutable default argument: the object is shared by all calls in the process, so state written '
                          'into it by one load / dump is still there for the next one' % f.qualname)
    rule.instances += 1
    rule.ok('package', '%d default values examined' % n)
    return rule


# --------------------------------------------------------------------------------------- R-CONSTRUCTED-KEY-HASHING
HASHABLE_NAMES = ('collections.abc.Hashable', 'collections.Hashable', 'Hashable')


def r_constructed_key_hashing(ctx, repo):
    rule = ctx.rule('R-CONSTRUCTED-KEY-HASHING', 'an object built from a node (the result of construct_object) is hashed - used as a dict '
                                                 'key, added to a set, looked up with `in` a dict / set - only after the '
                                                 'isinstance(x, Hashable) test whose failure raises ConstructorError')
    n = 0
    for f in _all_funcs(repo, ['constructor']):
        objs = set()
        for s in walk_function(f.node):
            if isinstance(s, ast.Assign) and isinstance(s.value, ast.Call) and isinstance(s.value.func, ast.Attribute) \
                    and s.value.func.attr == 'construct_object':
                for t in s.targets:
                    if isinstance(t, ast.Name):
                        objs.add(t.id)
        if not objs:
            continue
        cfg = CFG(f.node)
        sets = {t.id for s in walk_function(f.node) if isinstance(s, ast.Assign) and (
            isinstance(s.value, (ast.Set, ast.Dict)) or (isinstance(s.value, ast.Call) and isinstance(s.value.func, ast.Name)
                                                         and s.value.func.id in ('set', 'dict', 'frozenset')))
                for t in s.targets if isinstance(t, ast.Name)}
        for node in cfg.nodes:
            if node.ast is None:
                continue
            uses = []
            for x in own_exprs(node):
                if isinstance(x, ast.Subscript) and isinstance(x.slice, ast.Name) and x.slice.id in objs and isinstance(x.value, ast.Name) \
                        and isinstance(x.ctx, (ast.Store, ast.Load)) and (x.value.id in sets or isinstance(x.ctx, ast.Store)):
                    uses.append(x.slice.id)
                if isinstance(x, ast.Call) and isinstance(x.func, ast.Attribute) and x.func.attr in ('add', 'setdefault', 'discard') \
                        and x.args and isinstance(x.args[0], ast.Name) and x.args[0].id in objs:
                    uses.append(x.args[0].id)
                if isinstance(x, ast.Compare) and len(x.ops) == 1 and isinstance(x.ops[0], (ast.In, ast.NotIn)) \
                        and isinstance(x.left, ast.Name) and x.left.id in objs and isinstance(x.comparators[0], ast.Name) \
                        and x.comparators[0].id in sets:
                    uses.append(x.left.id)
            for k in uses:
                n += 1
                edges = []
                for t in cfg.nodes:
                    if t.kind == 'test' and isinstance(t.ast, ast.Call) and norm(t.ast.func) == 'isinstance' and len(t.ast.args) == 2 \
                            and isinstance(t.ast.args[0], ast.Name) and t.ast.args[0].id == k and norm(t.ast.args[1]) in HASHABLE_NAMES:
                        edges.append((t, True))
                if edges and cfg.guarded(node, edges=edges):
                    rule.ok(f.loc(node.ast), '%s: constructed key hashed after the Hashable test' % f.name)
                else:
                    rule.fail('%s|unhashed-guard' % f.qualname, f.module.rel, node.lineno, f.qualname, A.anon_text(node.ast, f.node, 60),
                              '%s hashes an object built from a node without the dominating isinstance(..., Hashable) test: a key '
                              'that is a list / dict / set (e.g. an alias to a collection) raises a bare TypeError instead of '
                              'ConstructorError - or a shape that has no hashing requirement starts to reject such keys' % f.qualname)
    if not n:
        raise AnalysisError('no hashing of constructed objects found in the constructor')
    return rule


# --------------------------------------------------------------------------------------- R-NEED-MORE-TOKENS-PURE
def r_need_more_tokens_pure(ctx, repo):
    rule = ctx.rule('R-NEED-MORE-TOKENS-PURE', 'need_more_tokens only inspects the token queue and the pending simple keys: it consumes no '
                                               'input (no scan_*/fetch_*/forward/peek call), so asking whether a token is ready never reads '
                                               'beyond it')
    f = _method(repo, 'scanner.Scanner', 'need_more_tokens')
    bad = [c for c in A.func_calls(f.node) if isinstance(c.func, ast.Attribute) and (
        c.func.attr.startswith(('scan_', 'fetch_')) or c.func.attr in ('forward', 'peek', 'prefix', 'update', 'get_mark'))]
    if bad:
        rule.fail('%s|reads' % f.qualname, f.module.rel, bad[0].lineno, f.qualname, A.anon_text(bad[0], f.node, 50),
                  'need_more_tokens calls %s: every check for a ready token moves the reader on (over the blank lines and comments '
                  'after a document, however long), so a finished document is delivered late' % bad[0].func.attr)
    else:
        rule.ok(f.loc(), 'need_more_tokens reads no input')
    return rule


# ------------------------------------------------------------------------------------- R-CHECKED-CLASSES-UNRELATED
def r_checked_classes_unrelated(ctx, repo):
    rule = ctx.rule('R-CHECKED-CLASSES-UNRELATED', 'the token classes the parser tells apart with check_token(...) / isinstance are pairwise '
                                                   'unrelated by inheritance: a test for one kind of token never also accepts another kind')
    tokens = repo.modules['tokens']
    names = set(tokens.classes)
    used = set()
    for mn in ('parser', 'scanner'):
        for f in _all_funcs(repo, [mn]):
            for c in A.func_calls(f.node):
                if isinstance(c.func, ast.Attribute) and c.func.attr == 'check_token':
                    used |= {a.id for a in c.args if isinstance(a, ast.Name) and a.id in names}
                elif isinstance(c.func, ast.Name) and c.func.id == 'isinstance' and len(c.args) == 2:
                    k = c.args[1]
                    for a in (k.elts if isinstance(k, ast.Tuple) else [k]):
                        if isinstance(a, ast.Name) and a.id in names:
                            used.add(a.id)
    if len(used) < 12:
        raise AnalysisError('only %d token classes are tested in the parser' % len(used))
    bad = []
    for a in sorted(used):
        for b in sorted(used):
            if a < b:
                ka, kb = tokens.classes[a], tokens.classes[b]
                if ka.is_subclass_of(kb) or kb.is_subclass_of(ka):
                    bad.append((a, b))
    if bad:
        a, b = bad[0]
        sub = a if tokens.classes[a].is_subclass_of(tokens.classes[b]) else b
        sup = b if sub == a else a
        k = tokens.classes[sub]
        rule.fail('tokens|%s<%s' % (sub, sup), tokens.rel, k.node.lineno, 'tokens.%s' % sub, 'class %s(%s)' % (sub, sup),
                  '%s is a subclass of %s and both are told apart by the parser: check_token(%s) now also accepts a %s token, so a '
                  'token sequence outside the documented grammar is parsed (and the wrong branch handles it)' % (sub, sup, sup, sub))
    else:
        rule.ok(tokens.rel, '%d token classes tested by the parser, pairwise unrelated' % len(used))
    return rule


# ------------------------------------------------------------------------------------------ R-ERROR-MARK-ORDER
def r_error_mark_order(ctx, repo):
    rule = ctx.rule('R-ERROR-MARK-ORDER', 'in a ParserError built from two marks held in locals, the context mark is never taken from a '
                                          'later token than the problem mark, on any path through the function')
    P = repo.cls('parser.Parser')
    n = 0
    for f in P.methods.values():
        raises = [r for r in walk_function(f.node) if isinstance(r, ast.Raise) and isinstance(r.exc, ast.Call)
                  and norm(r.exc.func) == 'ParserError' and len(r.exc.args) == 4
                  and isinstance(r.exc.args[1], ast.Name) and isinstance(r.exc.args[3], ast.Name)]
        if not raises:
            continue
        cfg = CFG(f.node)
        # abstract run: count of tokens consumed so far; a mark local holds (token ordinal, 0 start / 1 end)
        for r in raises:
            site = [x for x in cfg.nodes if x.ast is r or x.stmt is r]
            if not site:
                continue
            cm, pm = r.exc.args[1].id, r.exc.args[3].id
            worst = {'bad': None}
            seen = set()

            def tok_of(e, env):
                # token.start_mark / token.end_mark of a local token variable
                if isinstance(e, ast.Attribute) and e.attr in ('start_mark', 'end_mark') and isinstance(e.value, ast.Name) \
                        and ('tok', e.value.id) in env:
                    return (env[('tok', e.value.id)], 0 if e.attr == 'start_mark' else 1)
                if isinstance(e, ast.Name) and ('mark', e.id) in env:
                    return env[('mark', e.id)]
                return None

            stack = [(cfg.entry, 0, frozenset())]
            steps = 0
            while stack and steps < 20000:
                node, cnt, fe = stack.pop()
                steps += 1
                key = (node, cnt, fe)
                if key in seen:
                    continue
                seen.add(key)
                env = dict(fe)
                if node in site:
                    a, b = env.get(('mark', cm)), env.get(('mark', pm))
                    if a is not None and b is not None and a > b:
                        worst['bad'] = (a, b)
                    continue
                a_ = node.ast
                if node.kind == 'stmt' and isinstance(a_, ast.Assign):
                    v = a_.value
                    call = v if isinstance(v, ast.Call) and isinstance(v.func, ast.Attribute) else None
                    if call is not None and call.func.attr in ('get_token', 'peek_token'):
                        for t in a_.targets:
                            if isinstance(t, ast.Name):
                                env[('tok', t.id)] = cnt
                        if call.func.attr == 'get_token':
                            cnt += 1
                    else:
                        val = tok_of(v, env)
                        for t in a_.targets:
                            for nm in ([t] if isinstance(t, ast.Name) else []):
                                if val is not None:
                                    env[('mark', nm.id)] = val
                                else:
                                    env.pop(('mark', nm.id), None)
                                    env.pop(('tok', nm.id), None)
                elif node.ast is not None and cnt < 6:
                    for x in own_exprs(node):
                        if isinstance(x, ast.Call) and isinstance(x.func, ast.Attribute) and x.func.attr == 'get_token':
                            cnt += 1
                for (m2, lab) in cfg.succ[node]:
                    if lab != 'exc':
                        stack.append((m2, cnt, frozenset(env.items())))
            n += 1
            if worst['bad'] is not None:
                rule.fail('%s|context-after-problem' % f.qualname, f.module.rel, r.lineno, f.qualname, A.anon_text(r, f.node, 80),
                          '%s can raise a ParserError whose context mark comes from a later token than its problem mark (a path on '
                          'which the two locals were taken in that order exists): the error\'s marks move backwards' % f.qualname)
            else:
                rule.ok(f.loc(r), 'context mark is not later than the problem mark')
    if not n:
        raise AnalysisError('no ParserError with two local marks found')
    return rule


# ------------------------------------------------------------------------------------------ R-TOKEN-VALUE-FORMAT
def r_token_value_format(ctx, repo):
    rule = ctx.rule('R-TOKEN-VALUE-FORMAT', 'a token\'s .value is never the bare right operand of a % format: for TAG and DIRECTIVE tokens '
                                            'the value is a tuple, which % takes for the argument list (TypeError instead of the intended '
                                            'ParserError)')
    n = 0
    for f in _all_funcs(repo, ['parser', 'scanner', 'composer']):
        toks = set()
        for s in walk_function(f.node):
            if isinstance(s, ast.Assign) and isinstance(s.value, ast.Call) and isinstance(s.value.func, ast.Attribute) \
                    and s.value.func.attr in ('peek_token', 'get_token'):
                toks |= {t.id for t in s.targets if isinstance(t, ast.Name)}
        toks |= {p for p in f.params if p in ('token',)}
        for x in walk_function(f.node):
            if isinstance(x, ast.BinOp) and isinstance(x.op, ast.Mod) and A.const_str(x.left) is not None:
                n += 1
                r = x.right
                is_tok_value = isinstance(r, ast.Attribute) and r.attr == 'value' and (
                    (isinstance(r.value, ast.Name) and r.value.id in toks) or (
                        isinstance(r.value, ast.Call) and isinstance(r.value.func, ast.Attribute)
                        and r.value.func.attr in ('peek_token', 'get_token')))
                if is_tok_value:
                    rule.fail('%s|format' % f.qualname, f.module.rel, x.lineno, f.qualname, A.anon_text(x, f.node, 70),
                              '%s formats a token\'s value as the bare operand of %%: a TAG token carries (handle, suffix) and a '
                              'directive token (name, value), so the message construction raises TypeError - a non-YAML exception '
                              'leaves the parser on malformed input' % f.qualname)
    rule.instances += 1
    rule.ok('parser/scanner/composer', '%d %%-formats examined' % n)
    return rule


# ----------------------------------------------------------------------------------------- R-RECURSION-INVENTORY
CONFIRMED_RECURSION = {
    # function -> why the recursion ends on every input (incl. graphs with alias cycles)
    'composer.Composer.compose_node': 'consumes at least one event per call (the event stream is finite)',
    'composer.Composer.compose_sequence_node': 'part of the compose_node cycle',
    'composer.Composer.compose_mapping_node': 'part of the compose_node cycle',
    'constructor.BaseConstructor.construct_object': 'recursive_objects rejects re-entry on the same node',
    'constructor.BaseConstructor.construct_sequence': 'goes through construct_object',
    'constructor.BaseConstructor.construct_mapping': 'goes through construct_object',
    'constructor.BaseConstructor.construct_pairs': 'goes through construct_object',
    'constructor.SafeConstructor.construct_mapping': 'goes through construct_object / flatten_mapping',
    'constructor.SafeConstructor.flatten_mapping': 'removes the merge entry before recursing (R-MERGE-CYCLE-CUT)',
}


def r_recursion_inventory(ctx, repo, modules=('composer', 'constructor', 'resolver', 'parser')):
    rule = ctx.rule('R-RECURSION-INVENTORY', 'every function that can re-enter itself while walking nodes (directly or through other '
                                             'methods of the read path) either is one of the recursions confirmed to end on cyclic node '
                                             'graphs, or tests a visited set before it recurses')
    funcs = {}
    for f in _all_funcs(repo, modules):
        funcs[f.qualname] = f
    byname = {}
    for q, f in funcs.items():
        byname.setdefault(f.name, []).append(q)
    calls = {q: set() for q in funcs}
    for q, f in funcs.items():
        for c in A.func_calls(f.node):
            nm = c.func.attr if isinstance(c.func, ast.Attribute) else c.func.id if isinstance(c.func, ast.Name) else None
            if nm in byname and nm not in ('__init__',):
                # dynamic dispatch through the registries is not followed: construct_object is the registered entry
                targets = set(byname[nm])
                if isinstance(c.func, ast.Attribute) and isinstance(c.func.value, ast.Call) and norm(c.func.value.func) == 'super':
                    targets.discard(q)          # super().m() is a different definition of m
                calls[q] |= targets
    # functions on a cycle
    def reach(q):
        seen, st = set(), list(calls[q])
        while st:
            x = st.pop()
            if x in seen:
                continue
            seen.add(x)
            st.extend(calls.get(x, ()))
        return seen
    n = 0
    for q, f in sorted(funcs.items()):
        if q not in reach(q):
            continue
        n += 1
        if q in CONFIRMED_RECURSION:
            rule.ok(f.loc(), '%s: %s' % (f.name, CONFIRMED_RECURSION[q]))
            continue
        # a visited-set test dominating every recursive call
        cfg = CFG(f.node)
        rec = [nd for nd in cfg.nodes if nd.ast is not None and any(
            isinstance(x, ast.Call) and ((isinstance(x.func, ast.Attribute) and x.func.attr in byname and
                                          set(byname[x.func.attr]) & (reach(q) | {q})) or
                                         (isinstance(x.func, ast.Name) and x.func.id in byname and set(byname[x.func.id]) & (reach(q) | {q})))
            for x in own_exprs(nd))]
        guards = [(t, isinstance(t.ast.ops[0], ast.NotIn)) for t in cfg.nodes if t.kind == 'test' and isinstance(t.ast, ast.Compare)
                  and len(t.ast.ops) == 1 and isinstance(t.ast.ops[0], (ast.In, ast.NotIn))]
        if rec and guards and all(cfg.guarded(r, edges=guards) for r in rec):
            rule.ok(f.loc(), '%s recurses only after a membership test (visited set)' % f.name)
        else:
            rule.fail('%s|recursion' % q, f.module.rel, f.node.lineno, q, 'def %s' % f.name,
                      '%s can re-enter itself while walking nodes and is not one of the recursions known to terminate: node graphs '
                      'contain cycles (an anchored collection that contains an alias to itself), so an unguarded walk ends in '
                      'RecursionError - not a YAML error' % q)
    if n < 3:
        raise AnalysisError('only %d recursive functions found on the read path' % n)
    return rule


# ------------------------------------------------------------------------------------- R-REQUIRED-KEY-BLOCK-ONLY
def r_required_key_block_only(ctx, repo):
    rule = ctx.rule('R-REQUIRED-KEY-BLOCK-ONLY', 'a possible simple key is marked required only in the block context (where a token in the '
                                                 'indentation column must start a key): inside a flow collection no token is ever required '
                                                 'to be a key')
    f = _method(repo, 'scanner.Scanner', 'save_possible_simple_key')
    # the expression that becomes SimpleKey(..., required, ...): second positional argument
    sk = [c for c in A.func_calls(f.node) if isinstance(c.func, ast.Name) and c.func.id == 'SimpleKey']
    if not sk:
        raise AnalysisError('save_possible_simple_key: SimpleKey(...) is not built here')
    for c in sk:
        e = c.args[1] if len(c.args) > 1 else next((k.value for k in c.keywords if k.arg == 'required'), None)
        if e is None:
            raise AnalysisError('SimpleKey(...) without a `required` argument')
        if isinstance(e, ast.Name):
            defs = [s for s in walk_function(f.node) if isinstance(s, ast.Assign) and any(
                isinstance(t, ast.Name) and t.id == e.id for t in s.targets)]
            if len(defs) == 1:
                e = defs[0].value
        sn = f.params[0]
        v1 = A.const_truth(e, {'%s.flow_level' % sn: 1})
        v3 = A.const_truth(e, {'%s.flow_level' % sn: 3})
        if v1 is False and v3 is False:
            rule.ok(f.loc(c), 'required is false whenever flow_level is non-zero')
        else:
            rule.fail('%s|required-in-flow' % f.qualname, f.module.rel, c.lineno, f.qualname, A.anon_text(e, f.node, 60),
                      'a simple key can be marked required inside a flow collection: an entry of a multi-line flow sequence that '
                      'happens to start in the column of the enclosing block collection raises "could not find expected \':\'" '
                      '(LibYAML loads the document)')
    return rule


# ---------------------------------------------------------------------------------- R-FLOW-SCALAR-FIRST-CHUNK
def r_flow_scalar_first_chunk(ctx, repo):
    rule = ctx.rule('R-FLOW-SCALAR-FIRST-CHUNK', 'scan_flow_scalar scans the non-space characters after the opening quote before it first '
                                                 'looks for the closing quote: an escaped quote at the very start (\'\'\'tis\') is content, not '
                                                 'the end of the scalar')
    f = _method(repo, 'scanner.Scanner', 'scan_flow_scalar')
    cfg = CFG(f.node)
    chunk = [n for n in cfg.nodes if n.ast is not None and any(
        isinstance(x, ast.Call) and isinstance(x.func, ast.Attribute) and x.func.attr == 'scan_flow_scalar_non_spaces'
        for x in own_exprs(n))]
    loops = [n for n in cfg.nodes if n.kind == 'test' and isinstance(n.stmt, ast.While) and any(
        isinstance(x, ast.Call) and isinstance(x.func, ast.Attribute) and x.func.attr == 'peek' for x in ast.walk(n.ast))]
    if not chunk or not loops:
        raise AnalysisError('scan_flow_scalar: the chunk loop was not found')
    for l in loops:
        if cfg.guarded(l, nodes=chunk):
            rule.ok(f.loc(l.ast), 'the first chunk is scanned before the closing quote is looked for')
        else:
            rule.fail('%s|first-chunk' % f.qualname, f.module.rel, l.lineno, f.qualname, A.anon_text(l.ast, f.node, 60),
                      'scan_flow_scalar tests for the closing quote before any non-space chunk has been scanned: a single-quoted '
                      'scalar that begins with an escaped quote is closed at its second character (the dumpers write exactly this '
                      'for a string starting with an apostrophe)')
    return rule


# --------------------------------------------------------------------------------- R-FIRST-DOCUMENT-STATE-ONCE
def r_first_document_state_once(ctx, repo):
    rule = ctx.rule('R-FIRST-DOCUMENT-STATE-ONCE', 'the state in which a document may start without "---" (expect_first_document_start) is '
                                                   'entered from expect_stream_start only: every later document gets its "---"')
    E = repo.cls('emitter.Emitter')
    if 'expect_first_document_start' not in E.methods:
        raise AnalysisError('Emitter.expect_first_document_start has vanished')
    n = 0
    for m in E.methods.values():
        for x in walk_function(m.node):
            if isinstance(x, ast.Attribute) and x.attr == 'expect_first_document_start' and isinstance(x.ctx, ast.Load):
                n += 1
                if m.name == 'expect_stream_start':
                    rule.ok(m.loc(x), 'entered from expect_stream_start')
                else:
                    rule.fail('%s|first-document-state' % m.qualname, m.module.rel, x.lineno, m.qualname,
                              A.anon_text(A.enclosing_stmt(x), m.node, 60),
                              '%s makes the emitter expect a *first* document again: a later document whose start is not explicit '
                              'is written without "---", and after a "..." marker that text is not a valid stream' % m.qualname)
    if not n:
        raise AnalysisError('expect_first_document_start is never entered')
    return rule


# ------------------------------------------------------------------------------------ R-PRINTABLE-ONE-TEST
def r_printable_one_test(ctx, repo):
    rule = ctx.rule('R-PRINTABLE-ONE-TEST', 'check_printable applies one and the same character test (NON_PRINTABLE) to every chunk, '
                                            'whatever else the chunk contains: the verdict on a character does not depend on which '
                                            'characters were delivered together with it')
    f = _method(repo, 'reader.Reader', 'check_printable')
    data = f.params[1] if len(f.params) > 1 else None
    searches = [c for c in A.func_calls(f.node) if isinstance(c.func, ast.Attribute) and c.func.attr in ('search', 'match', 'finditer', 'findall', 'fullmatch')]
    if not searches:
        raise AnalysisError('check_printable: no regular-expression search found')
    recv = {norm(c.func.value) for c in searches}
    bad = [r for r in recv if not r.endswith('.NON_PRINTABLE')]
    cond = []
    for c in searches:
        for iff, br in A.guarding_ifs(c, f.node):
            if any(isinstance(x, ast.Name) and x.id == data for x in ast.walk(iff.test)):
                cond.append(iff)
    if bad or cond:
        at = (cond[0] if cond else searches[0])
        rule.fail('%s|chunk-dependent' % f.qualname, f.module.rel, at.lineno, f.qualname,
                  A.anon_text(at.test if cond else at, f.node, 60),
                  'check_printable chooses the character test according to the chunk it is given (%s): a character that is rejected '
                  'when it arrives together with some other character is accepted when it arrives in another chunk, so the same '
                  'input is valid or not depending on how the stream delivers it'
                  % ('a second pattern %s' % bad[0] if bad else 'a condition on the chunk'))
    else:
        rule.ok(f.loc(searches[0]), 'one unconditional NON_PRINTABLE search per chunk')
    return rule


# -------------------------------------------------------------------------------------------- R-REFILL-EXACT
def r_refill_exact(ctx, repo):
    from .rules_reader import linear_form
    rule = ctx.rule('R-REFILL-EXACT', 'peek / prefix / forward ask update() for exactly the look-ahead they need, counted from the current '
                                      'pointer (index+1, length, length+1): the amount never contains the position in the buffer, so the '
                                      'reader does not read further ahead the deeper it is in the stream')
    want = {'peek': 1, 'prefix': 0, 'forward': 1}
    R = repo.cls('reader.Reader')
    for name, const in want.items():
        f = R.methods.get(name)
        if f is None or len(f.params) < 2:
            raise AnalysisError('Reader.%s has vanished' % name)
        p = f.params[1]
        ups = [c for c in A.func_calls(f.node) if isinstance(c.func, ast.Attribute) and c.func.attr == 'update' and c.args]
        if not ups:
            raise AnalysisError('Reader.%s never calls update()' % name)
        for c in ups:
            lf = linear_form(c.args[0])
            lf = {k: v for k, v in (lf or {}).items() if v != 0}
            if lf == ({p: 1, '': const} if const else {p: 1}):
                rule.ok(f.loc(c), 'Reader.%s refills %s' % (name, norm(c.args[0])))
            else:
                rule.fail('%s|amount' % f.qualname, f.module.rel, c.lineno, f.qualname, A.anon_text(c, f.node, 50),
                          'Reader.%s asks update() for %s instead of its own look-ahead (%s%s): the amount is a length from the '
                          'current pointer, so anything else makes the reader pull more (growing with the position in the '
                          'buffer) or less than needed' % (name, norm(c.args[0]), p, '+%d' % const if const else ''))
    return rule


# ------------------------------------------------------------------------------------- R-SPLIT-OUTSIDE-SIMPLE-KEY
def r_split_outside_simple_key(ctx, repo):
    rule = ctx.rule('R-SPLIT-OUTSIDE-SIMPLE-KEY', 'process_scalar lets a scalar writer fold lines (split) only when the scalar is not a '
                                                  'simple key: a simple key is written on one line')
    f = _method(repo, 'emitter.Emitter', 'process_scalar')
    sn = f.params[0]
    n = 0
    for c in A.func_calls(f.node):
        if isinstance(c.func, ast.Attribute) and c.func.attr in ('write_plain', 'write_single_quoted', 'write_double_quoted') \
                and isinstance(c.func.value, ast.Name) and c.func.value.id == sn:
            e = c.args[1] if len(c.args) > 1 else next((k.value for k in c.keywords if k.arg == 'split'), None)
            n += 1
            if e is None:
                continue        # default of the writer
            if isinstance(e, ast.Name):
                defs = [s for s in walk_function(f.node) if isinstance(s, ast.Assign) and any(
                    isinstance(t, ast.Name) and t.id == e.id for t in s.targets)]
                if len(defs) == 1:
                    e = defs[0].value
            v = A.const_truth(e, {'%s.simple_key_context' % sn: True})
            if v is False:
                rule.ok(f.loc(c), '%s: no folding in a simple key' % c.func.attr)
            else:
                rule.fail('%s|%s|split' % (f.qualname, c.func.attr), f.module.rel, c.lineno, f.qualname, A.anon_text(c, f.node, 70),
                          '%s may be told to fold lines while the scalar is a simple key: the key is broken over two lines and '
                          'the reader rejects the document' % c.func.attr)
    if n < 3:
        raise AnalysisError('process_scalar: scalar writers not found')
    return rule


# -------------------------------------------------------------------------------------- R-STATE-KEYS-SAFE-ONLY
def r_state_keys_safe_only(ctx, repo):
    rule = ctx.rule('R-STATE-KEYS-SAFE-ONLY', 'set_python_instance_state checks state keys against the blacklist only when it is not called '
                                              'for the unsafe loader: the unsafe loader rebuilds every attribute pickle would')
    f = _method(repo, 'constructor.FullConstructor', 'set_python_instance_state')
    if 'unsafe' not in f.params:
        raise AnalysisError('set_python_instance_state has no `unsafe` parameter')
    cfg = CFG(f.node)
    edges = []
    for t in cfg.nodes:
        if t.kind == 'test' and isinstance(t.ast, ast.Name) and t.ast.id == 'unsafe':
            edges.append((t, False))
    calls = [n for n in cfg.nodes if n.ast is not None and any(
        isinstance(x, ast.Call) and isinstance(x.func, ast.Attribute) and x.func.attr == 'check_state_key' for x in own_exprs(n))]
    if not calls:
        raise AnalysisError('set_python_instance_state: check_state_key is never called')
    for c in calls:
        if edges and cfg.guarded(c, edges=edges):
            rule.ok(f.loc(c.ast), 'check_state_key only when not unsafe')
        else:
            rule.fail('%s|unsafe-checked' % f.qualname, f.module.rel, c.lineno, f.qualname, A.anon_text(c.ast, f.node, 50),
                      'a state key is checked against the blacklist also for the unsafe loader: instances with a dunder-named '
                      '(or `extend`) attribute / slot, which pickle rebuilds, are rejected')
    return rule


# ------------------------------------------------------------------------------------------ R-TZ-SIGN-COMPARED
def r_tz_sign_compared(ctx, repo):
    rule = ctx.rule('R-TZ-SIGN-COMPARED', 'the sign of a timestamp\'s UTC offset is only compared and then applied to the whole offset '
                                          '(hours and minutes together): it is never folded into one component, where "-0" loses it')
    f = _method(repo, 'constructor.SafeConstructor', 'construct_yaml_timestamp')
    uses = [x for x in walk_function(f.node) if isinstance(x, ast.Subscript) and A.const_str(x.slice) == 'tz_sign']
    if not uses:
        raise AnalysisError('construct_yaml_timestamp: the tz_sign group is not read')
    for u in uses:
        par = getattr(u, '_parent', None)
        ok = isinstance(par, ast.Compare) or isinstance(par, (ast.If, ast.BoolOp, ast.UnaryOp, ast.IfExp)) or (
            isinstance(par, ast.Assign) and par.value is u)
        if ok:
            rule.ok(f.loc(u), 'tz_sign is tested')
        else:
            rule.fail('%s|tz-sign' % f.qualname, f.module.rel, u.lineno, f.qualname, A.anon_text(par, f.node, 60),
                      'the sign of the UTC offset is combined with one component of the offset (e.g. int(sign + hour)): for an '
                      'hour of 0 the sign is lost, so -00:30 becomes +00:30')
    # and a negation of the whole delta exists
    neg = [x for x in walk_function(f.node) if isinstance(x, ast.UnaryOp) and isinstance(x.op, ast.USub) and isinstance(x.operand, ast.Name)]
    if not neg:
        rule.fail('%s|no-negation' % f.qualname, f.module.rel, f.node.lineno, f.qualname, 'delta = -delta',
                  'no negation of the whole offset found: the sign must apply to hours and minutes together')
    return rule


# --------------------------------------------------------------------------------------- R-MERGE-VALUE-REJECTED
def r_merge_value_rejected(ctx, repo):
    from .rules_r6 import _flatten
    rule = ctx.rule('R-MERGE-VALUE-REJECTED', 'in flatten_mapping a merge value (or an entry of a merge list) that is neither a mapping nor '
                                              'a sequence always ends in ConstructorError: no node under `<<` is skipped without being '
                                              'constructed')
    f = _flatten(repo)
    cfg = CFG(f.node)

    def atom(t):
        if isinstance(t, ast.Call) and isinstance(t.func, ast.Name) and t.func.id == 'isinstance' and len(t.args) == 2 \
                and isinstance(t.args[0], ast.Name) and t.args[0].id != f.params[1]:
            kinds = {norm(k).split('.')[-1] for k in (t.args[1].elts if isinstance(t.args[1], ast.Tuple) else [t.args[1]])}
            if kinds <= {'MappingNode', 'SequenceNode', 'CollectionNode'}:
                return False        # the merge value / list entry is of no collection kind
            return None
        if isinstance(t, ast.Compare) and len(t.ops) == 1 and isinstance(t.ops[0], ast.Eq) and \
                A.const_str(t.comparators[0]) == 'tag:yaml.org,2002:merge':
            return True
        return None
    # start at the merge branch: the true edge of the merge-tag test
    starts = []
    for t in cfg.nodes:
        if t.kind == 'test' and isinstance(t.ast, ast.Compare) and A.const_str(t.ast.comparators[0]) == 'tag:yaml.org,2002:merge' \
                and isinstance(t.ast.ops[0], ast.Eq):
            starts += [m for (m, lab) in cfg.succ[t] if lab is True]
    if not starts:
        raise AnalysisError('flatten_mapping: the test of the merge tag was not found')
    r = A.cfg_reach_under(cfg, atom, starts=starts, follow_exc=False)
    heads = [n for n in cfg.nodes if n.kind == 'test' and isinstance(n.stmt, ast.While)]
    leak = [x for x in cfg.normal_exits() if x in r] + [h for h in heads if h in r]
    if leak:
        rule.fail('%s|unrejected' % f.qualname, f.module.rel, starts[0].lineno, f.qualname, 'merge value of another kind',
                  'a `<<` value that is neither a mapping nor a sequence (a scalar: empty, null, or carrying any tag) can pass '
                  'through flatten_mapping without an error: the node is dropped unconstructed, so whatever tag it carries is '
                  'accepted')
    else:
        rule.ok(f.loc(), 'a merge value of another kind always raises')
    return rule


# -------------------------------------------------------------------------------------- R-VALUE-CHAIN-VISITED
def r_value_chain_visited(ctx, repo):
    rule = ctx.rule('R-VALUE-CHAIN-VISITED', 'SafeConstructor.construct_scalar follows `=` entries only through nodes it has not seen: '
                                             'every step is preceded by a membership test in a set to which the node is then added (or the '
                                             'function does not loop / recurse at all)')
    f = _method(repo, 'constructor.SafeConstructor', 'construct_scalar')
    loops = [l for l in walk_function(f.node) if isinstance(l, ast.While)]
    rec = [c for c in A.func_calls(f.node) if isinstance(c.func, ast.Attribute) and c.func.attr == f.name
           and isinstance(c.func.value, ast.Name) and c.func.value.id == f.params[0]]
    if not loops and not rec:
        rule.ok(f.loc(), 'no chain is followed')
        return rule
    adds = {c.func.value.id for c in A.func_calls(f.node) if isinstance(c.func, ast.Attribute) and c.func.attr == 'add'
            and isinstance(c.func.value, ast.Name)}
    tests = [t for t in walk_function(f.node) if isinstance(t, ast.Compare) and len(t.ops) == 1 and isinstance(t.ops[0], (ast.In, ast.NotIn))
             and isinstance(t.comparators[0], ast.Name) and t.comparators[0].id in adds]
    if tests and not rec:
        rule.ok(f.loc(tests[0]), 'visited set tested and extended on every step')
    else:
        at = (loops or rec)[0]
        rule.fail('%s|unvisited' % f.qualname, f.module.rel, at.lineno, f.qualname, A.anon_text(at if isinstance(at, ast.Call) else at.test, f.node, 50),
                  'the chain of `=` entries is followed without a record of the nodes already visited: a chain that runs into a '
                  'cycle (the node graph can be cyclic through aliases) is followed forever or until RecursionError')
    return rule


# ------------------------------------------------------------------------------------- R-NO-IMPORT-MACHINERY
def r_no_import_machinery(ctx, repo):
    rule = ctx.rule('R-NO-IMPORT-MACHINERY', 'the package does not use the import machinery (importlib, pkgutil, imp, runpy, zipimport): '
                                             'looking a module up there imports its parent packages - a change of process-wide state that '
                                             'later calls observe')
    n = 0
    bad = ('importlib', 'pkgutil', 'imp', 'runpy', 'zipimport')
    for m in repo.modules.values():
        if m.kind != 'py':
            continue
        for x in ast.walk(m.tree):
            names = []
            if isinstance(x, ast.Import):
                names = [a.name for a in x.names]
            elif isinstance(x, ast.ImportFrom) and x.module:
                names = [x.module]
            n += len(names)
            for nm in names:
                if nm.split('.')[0] in bad:
                    rule.fail('%s|%s' % (m.name, nm), m.rel, x.lineno, m.name, 'import %s' % nm,
                              '%s imports %s: its find_spec / import_module functions import parent packages as a side effect, so '
                              'a load that fails still changes sys.modules and a later load behaves differently' % (m.rel, nm))
    rule.instances += 1
    rule.ok('package', '%d import statements examined' % n)
    return rule


# ------------------------------------------------------------------------------------- R-APPLY-STATE-IF-PRESENT
def r_apply_state_if_present(ctx, repo):
    rule = ctx.rule('R-APPLY-STATE-IF-PRESENT', 'construct_python_object_apply applies a state only when the node carried a non-empty one: '
                                                'a reduction without state never calls __setstate__ (pickle does not either)')
    f = _method(repo, 'constructor.FullConstructor', 'construct_python_object_apply')
    cfg = CFG(f.node)
    calls = [n for n in cfg.nodes if n.ast is not None and any(
        isinstance(x, ast.Call) and isinstance(x.func, ast.Attribute) and x.func.attr == 'set_python_instance_state' for x in own_exprs(n))]
    if not calls:
        raise AnalysisError('construct_python_object_apply: set_python_instance_state is not called')
    for c in calls:
        call = [x for x in own_exprs(c) if isinstance(x, ast.Call) and isinstance(x.func, ast.Attribute)
                and x.func.attr == 'set_python_instance_state'][0]
        st = call.args[1] if len(call.args) > 1 else None
        if not isinstance(st, ast.Name):
            raise AnalysisError('construct_python_object_apply: the state argument is not a local')
        edges = [(t, True) for t in cfg.nodes if t.kind == 'test' and isinstance(t.ast, ast.Name) and t.ast.id == st.id]
        if edges and cfg.guarded(c, edges=edges):
            rule.ok(f.loc(c.ast), 'state applied only when it is non-empty')
        else:
            rule.fail('%s|state-guard' % f.qualname, f.module.rel, c.lineno, f.qualname, A.anon_text(c.ast, f.node, 60),
                      'the state is applied on a path where it was not tested for being non-empty: the placeholder for "no state" '
                      'is an empty dict, so every python/object/apply and python/object/new node calls __setstate__({}) on classes '
                      'that define it (a value rebuilt by its constructor is reset)')
    return rule


# -------------------------------------------------------------------------------------- R-DOC-INDICATOR-SCALARS
def r_doc_indicator_scalars(ctx, repo):
    rule = ctx.rule('R-DOC-INDICATOR-SCALARS', 'analyze_scalar marks every scalar that begins with "---" or "..." (including the scalar that '
                                               'is exactly that) as containing indicators: such text is never written plain, where the '
                                               'scanner would read a document marker')
    f = _method(repo, 'emitter.Emitter', 'analyze_scalar')
    p = f.params[1]
    # the test in front of the per-character loop that mentions the marker literals
    tests = [s for s in f.node.body if isinstance(s, ast.If) and any(
        isinstance(x, ast.Constant) and x.value in ('---', '...') for x in ast.walk(s.test))]
    if not tests:
        raise AnalysisError('analyze_scalar: the document-marker test was not found')
    t = tests[0]
    for probe in ('---', '...', '--- a', '...\n', '---x', '...b'):
        v = A.const_truth(t.test, {p: probe})
        if v is True:
            rule.ok(f.loc(t), '%r is treated as beginning with a document marker' % probe)
        else:
            rule.fail('%s|doc-marker|%s' % (f.qualname, probe), f.module.rel, t.lineno, f.qualname, A.anon_text(t.test, f.node, 70),
                      'the scalar %r is not recognised as beginning with a document marker: written plain at the start of a line '
                      'it is read back as a document boundary (an empty scalar, or unparsable text)' % probe)
    return rule


# ------------------------------------------------------------------------------------------ R-FOLD-SINGLE-SPACE
def _run_of_one_edge(test):
    """the label of the edge of an atomic test on which two positions are known to be exactly one apart
    (`start + 1 == end`, `end - start == 1`, `1 + start != end` -> its false edge ...), or None."""
    from .rules_reader import linear_form
    if not (isinstance(test, ast.Compare) and len(test.ops) == 1 and isinstance(test.ops[0], (ast.Eq, ast.NotEq))):
        return None
    a, b = linear_form(test.left), linear_form(test.comparators[0])
    if a is None or b is None:
        return None
    d = dict(a)
    for kk, v in b.items():
        d[kk] = d.get(kk, 0) - v
    d = {kk: v for kk, v in d.items() if v != 0}
    names = sorted(kk for kk in d if kk)
    if len(names) == 2 and abs(d.get('', 0)) == 1 and sorted(d[n_] for n_ in names) == [-1, 1]:
        return isinstance(test.ops[0], ast.Eq)
    return None


def _flag_on_edge(test, flag):
    """the label of the edge of an atomic test that is taken only when the boolean parameter `flag` is on (the test reads
    nothing else and its value differs between flag=False and flag=True), or None."""
    if not any(isinstance(x, ast.Name) and x.id == flag for x in ast.walk(test)):
        return None
    off, on = A.const_truth(test, {flag: False}), A.const_truth(test, {flag: True})
    if off is None or on is None or off == on:
        return None
    return on


def r_fold_single_space(ctx, repo):
    rule = ctx.rule('R-FOLD-SINGLE-SPACE', 'write_plain and write_single_quoted replace a run of spaces by a line break only when the run is '
                                           'a single space (start + 1 == end): folding gives back exactly one space on load')
    for nm in ('write_plain', 'write_single_quoted'):
        f = _method(repo, 'emitter.Emitter', nm)
        if len(f.params) < 3:
            raise AnalysisError('%s: expected (self, text, split)' % nm)
        sn, flag = f.params[0], f.params[2]
        cfg = CFG(f.node)
        # the edges on which line folding is allowed (the `split` parameter is on) / on which the run is one space long
        split_edges, one_edges = [], []
        for n in cfg.nodes:
            if n.kind != 'test' or n.ast is None:
                continue
            lab = _flag_on_edge(n.ast, flag)
            if lab is not None:
                split_edges.append((n, lab))
            lab = _run_of_one_edge(n.ast)
            if lab is not None:
                one_edges.append((n, lab))
        # the folding sites: a write_indent() every path to which has found `split` on
        sites = []
        for n in cfg.nodes:
            if n.ast is None or not any(isinstance(c, ast.Call) and isinstance(c.func, ast.Attribute) and c.func.attr == 'write_indent'
                                        and norm(c.func.value) == sn for c in own_exprs(n)):
                continue
            if split_edges and cfg.guarded(n, edges=split_edges):
                sites.append(n)
        if not sites:
            raise AnalysisError('%s: the folding site (write_indent under `split`) was not found' % nm)
        for n in sites:
            # every path to the site has passed the edge of a test that says the run is exactly one position long
            if one_edges and cfg.guarded(n, edges=one_edges):
                rule.ok(f.loc(n.ast), '%s folds single spaces only' % nm)
            else:
                rule.fail('%s|fold-run' % f.qualname, f.module.rel, n.lineno, f.qualname, A.anon_text(n.ast, f.node, 40),
                          '%s folds at a run of spaces without testing that the run is one space long: a run of two or more spaces '
                          'beyond the width is replaced by one line break and loads back as a single space' % nm)
    return rule


# ---------------------------------------------------------------------------------------- R-EMITTER-LOOKAHEAD-TABLE
def r_emitter_lookahead_table(ctx, repo):
    rule = ctx.rule('R-EMITTER-LOOKAHEAD-TABLE', 'need_more_events waits for 1 further event after DocumentStart, 2 after SequenceStart and 3 '
                                                 'after MappingStart: what check_empty_document / check_empty_sequence / check_empty_mapping '
                                                 'and check_simple_key look at is in the queue when they run')
    f = _method(repo, 'emitter.Emitter', 'need_more_events')
    cfg = CFG(f.node)
    want = {'DocumentStartEvent': 1, 'SequenceStartEvent': 2, 'MappingStartEvent': 3}
    got = {}
    for n in cfg.nodes:
        if n.ast is None:
            continue
        for x in own_exprs(n):
            if isinstance(x, ast.Call) and isinstance(x.func, ast.Attribute) and x.func.attr == 'need_events' and x.args \
                    and isinstance(x.args[0], ast.Constant):
                k = x.args[0].value
                for t in cfg.nodes:
                    if t.kind == 'test' and isinstance(t.ast, ast.Call) and norm(t.ast.func) == 'isinstance' and len(t.ast.args) == 2 \
                            and isinstance(t.ast.args[1], ast.Name) and t.ast.args[1].id in want:
                        # the call is reached through the true edge of this test and not through its false edge
                        if cfg.guarded(n, edges=[(t, True)]):
                            got[t.ast.args[1].id] = k
    for cls, k in want.items():
        if got.get(cls) == k:
            rule.ok(f.loc(), '%s -> need_events(%d)' % (cls, k))
        else:
            rule.fail('%s|%s' % (f.qualname, cls), f.module.rel, f.node.lineno, f.qualname, 'need_events(%d) after %s' % (k, cls),
                      'need_more_events does not wait for %d further event(s) after a %s (found: %s): the emptiness / simple-key '
                      'checks then run without their look-ahead and choose the wrong form (e.g. an implicit first document with '
                      'an empty root loses its "---")' % (k, cls, got.get(cls)))
    return rule


# ------------------------------------------------------------------------------------------ R-WINDOW-COMPACTED
def r_window_compacted(ctx, repo):
    rule = ctx.rule('R-WINDOW-COMPACTED', 'Reader.update drops the consumed part of the window (buffer = buffer[pointer:], pointer = 0) on '
                                          'every call before it measures how much look-ahead is there: len(buffer) in the refill loop '
                                          'counts unconsumed characters only')
    f = _method(repo, 'reader.Reader', 'update')
    cfg = CFG(f.node)
    sn = f.params[0]
    zero = [n for n in cfg.nodes if n.kind == 'stmt' and isinstance(n.ast, ast.Assign) and any(
        isinstance(t, ast.Attribute) and t.attr == 'pointer' and norm(t.value) == sn for t in n.ast.targets)
        and isinstance(n.ast.value, ast.Constant) and n.ast.value.value == 0]
    loops = [n for n in cfg.nodes if n.kind == 'test' and isinstance(n.stmt, ast.While) and any(
        isinstance(x, ast.Attribute) and x.attr == 'buffer' for x in ast.walk(n.ast))]
    if not loops:
        raise AnalysisError('Reader.update: the refill loop was not found')
    for l in loops:
        if zero and cfg.guarded(l, nodes=zero):
            rule.ok(f.loc(l.ast), 'the window is compacted before the refill loop')
        else:
            rule.fail('%s|compaction' % f.qualname, f.module.rel, l.lineno, f.qualname, A.anon_text(l.ast, f.node, 50),
                      'the refill loop can run while consumed characters are still in the buffer (the pointer was not reset on '
                      'every path): len(buffer) then over-states the look-ahead, the requested characters are not fetched and a '
                      'later read runs past the window - only for input delivered in pieces')
    return rule


# --------------------------------------------------------------------------------------- R-YAMLOBJECT-LOADERS
SAFE_LOADER_NAMES = {'SafeLoader', 'BaseLoader', 'CSafeLoader', 'CBaseLoader'}


def r_yamlobject_loaders(ctx, repo):
    rule = ctx.rule('R-YAMLOBJECT-LOADERS', 'YAMLObject.yaml_loader - the loaders every YAMLObject subclass registers its from_yaml on by '
                                            'default - is a literal list of classes that contains none of the safe loaders: defining a '
                                            'YAMLObject subclass never teaches safe_load a new tag')
    c = repo.modules['__init__'].classes.get('YAMLObject')
    vals = c.attrs.get('yaml_loader') if c else None
    if not vals:
        raise AnalysisError('YAMLObject.yaml_loader has vanished')
    v = vals[-1]
    if isinstance(v, ast.Name):
        elts = [v]
    elif isinstance(v, (ast.List, ast.Tuple)) and all(isinstance(e, ast.Name) for e in v.elts):
        elts = list(v.elts)
    else:
        raise AnalysisError('YAMLObject.yaml_loader is not a literal list of class names: which loaders a YAMLObject subclass is '
                            'registered on cannot be read from the source')
    for e in elts:
        if e.id in SAFE_LOADER_NAMES:
            rule.fail('__init__.YAMLObject|yaml_loader|%s' % e.id, c.module.rel, e.lineno, 'YAMLObject', 'yaml_loader = [... %s ...]' % e.id,
                      'every YAMLObject subclass registers its from_yaml constructor on %s by default: a safe load of a document '
                      'with that tag then instantiates the class and applies document-chosen state to it' % e.id)
        else:
            rule.ok('%s:%d' % (c.module.rel, e.lineno), '%s is not a safe loader' % e.id)
    return rule


# --------------------------------------------------------------------------------------- R-NO-MODULE-GETATTR
def r_no_module_getattr(ctx, repo):
    rule = ctx.rule('R-NO-MODULE-GETATTR', 'no module of the package defines a module-level __getattr__ / __dir__ (PEP 562): reading an '
                                           'attribute of an imported yaml module - which the full loader does for python/name tags - runs '
                                           'no code and imports nothing')
    n = 0
    for m in repo.modules.values():
        if m.kind != 'py':
            continue
        n += 1
        bad = [s for s in m.tree.body if isinstance(s, (ast.FunctionDef, ast.AsyncFunctionDef)) and s.name in ('__getattr__', '__dir__')]
        bad += [s for s in m.tree.body if isinstance(s, ast.Assign) and any(
            isinstance(t, ast.Name) and t.id in ('__getattr__', '__dir__') for t in s.targets)]
        for s in bad:
            rule.fail('%s|module-getattr' % m.name, m.rel, s.lineno, m.name, 'def __getattr__',
                      'module %s answers attribute look-ups with code: `getattr(module, name)` as done for !!python/name (and by any '
                      'attribute read on the package) can then import modules or change module globals on behalf of the document' % m.name)
        if not bad:
            rule.ok(m.rel, 'plain module namespace')
    if n < 10:
        raise AnalysisError('only %d python modules inspected' % n)
    return rule


# ------------------------------------------------------------------------------------- R-PER-DOCUMENT-STORE
def r_per_document_store(ctx, repo):
    rule = ctx.rule('R-PER-DOCUMENT-STORE', 'every attribute Composer.compose_document stores on the composer is stored on every path through '
                                            'it: nothing that one document sets (from its directives or content) is still there for the next')
    f = _method(repo, 'composer.Composer', 'compose_document')
    cfg = CFG(f.node)
    sn = f.params[0]
    by_attr = {}
    for n in cfg.nodes:
        if n.kind == 'stmt' and isinstance(n.ast, (ast.Assign, ast.AugAssign, ast.AnnAssign)):
            tg = n.ast.targets if isinstance(n.ast, ast.Assign) else [n.ast.target]
            for t in tg:
                for e in (t.elts if isinstance(t, ast.Tuple) else [t]):
                    if isinstance(e, ast.Attribute) and isinstance(e.value, ast.Name) and e.value.id == sn:
                        by_attr.setdefault(e.attr, []).append(n)
    if not by_attr:
        raise AnalysisError('compose_document stores no attribute (self.anchors reset confirmed)')
    for attr, nodes in sorted(by_attr.items()):
        if all(cfg.guarded(x, nodes=nodes) for x in cfg.normal_exits()):
            rule.ok(f.loc(nodes[0].ast), 'self.%s is set on every path' % attr)
        else:
            rule.fail('%s|%s' % (f.qualname, attr), f.module.rel, nodes[0].lineno, f.qualname, 'self.%s = ...' % attr,
                      'self.%s is set for some documents only: a value taken from one document (its directive, its content) is '
                      'still in force when the next document of the stream is composed' % attr)
    return rule
