"""Effects and aliases of module- and class-level mutable containers (DESIGN 3.5; C11, C01, C04, C10, C19).

R-GLOBAL-READONLY   no statement in the package mutates a module/class-level container (the six registries
                    only through their add_* owners), directly, through a local alias, or through an instance
                    field that may alias one
R-NO-LIVE-ESCAPE    such a container (or an alias of it) is not handed out: returned, passed to a constructor,
                    stored in a display - unless copied
"""
import ast

from . import astutil as A
from . import rules_registry as RR
from .cfg import CFG
from .srcmodel import AnalysisError, ClassInfo, norm, walk_function

COPY_BUILTINS = {'len', 'sorted', 'list', 'dict', 'tuple', 'set', 'frozenset', 'iter', 'isinstance', 'bool',
                 'enumerate', 'reversed', 'min', 'max', 'any', 'all', 'sum', 'repr', 'str', 'id', 'type', 'hasattr',
                 'zip', 'map', 'filter', 'print'}
READ_METHODS = {'copy', 'get', 'keys', 'values', 'items', 'index', 'count', '__contains__', '__getitem__',
                '__len__', '__iter__', 'startswith', 'endswith', 'join'}


def is_container_value(v):
    if isinstance(v, (ast.Dict, ast.List, ast.Set, ast.DictComp, ast.ListComp, ast.SetComp)):
        return True
    if isinstance(v, ast.Call) and norm(v.func) in ('dict', 'list', 'set', 'collections.OrderedDict',
                                                    'collections.defaultdict', 'collections.deque', 'bytearray'):
        return True
    return False


class Inventory:
    def __init__(self, repo):
        self.repo = repo
        self.class_level = {}     # name -> [(ClassInfo, value node)]
        self.module_level = {}    # (module name, name) -> value node
        for cls in repo.classes.values():
            for name, values in cls.attrs.items():
                if name in ('__slots__',):
                    continue
                for v in values:
                    if is_container_value(v):
                        self.class_level.setdefault(name, []).append((cls, v))
        for m in repo.modules.values():
            for name, binds in m.bindings.items():
                if name in ('__all__',):
                    continue
                for b in binds:
                    if b[0] == 'assign' and is_container_value(b[1]):
                        self.module_level[(m.name, name)] = b[1]
        # instance fields that shadow a class-level container: self.NAME = ... in __init__ of the declaring family
        self.shadowed = set()
        for name, decls in self.class_level.items():
            for cls, v in decls:
                for k in repo.classes.values():
                    if k is cls or k.is_subclass_of(cls):
                        init = k.methods.get('__init__')
                        if init is None:
                            continue
                        for n in walk_function(init.node):
                            if isinstance(n, ast.Assign):
                                for t in n.targets:
                                    if A.is_attr(t, init.params[0], name):
                                        self.shadowed.add((cls.qualname, name))
        # alias edges: self.f = <expr that is exactly X.NAME>  (f != NAME)
        self.alias_fields = {}    # field -> set of container names
        for f in repo.all_functions():
            for n in walk_function(f.node):
                if isinstance(n, ast.Assign):
                    src = self.container_of(n.value, f)
                    if src is None:
                        continue
                    for t in n.targets:
                        if isinstance(t, ast.Attribute) and isinstance(t.value, ast.Name) \
                                and f.params and t.value.id == f.params[0] and t.attr != src:
                            self.alias_fields.setdefault(t.attr, set()).add(src)

    def names(self):
        return set(self.class_level)

    def elem_mutable(self, name):
        """may the *elements* of container `name` be mutable containers themselves?"""
        if not hasattr(self, '_elem_mut'):
            self._elem_mut = {}
            rm = RR.model(self.repo)
            for nm, decls in self.class_level.items():
                mut = False
                for cls, v in decls:
                    vals = []
                    if isinstance(v, ast.Dict):
                        vals = v.values
                    elif isinstance(v, (ast.List, ast.Set)):
                        vals = v.elts
                    elif not (isinstance(v, ast.Call) and not v.args):
                        mut = True
                    if any(is_container_value(x) for x in vals):
                        mut = True
                reg = rm.regs.get(nm)
                if reg is not None and any(w.needs_deep for w in reg.writers):
                    mut = True
                self._elem_mut[nm] = mut
        return self._elem_mut.get(name.split('/')[0], True)

    def container_of(self, expr, f):
        """name of the class/module-level container `expr` denotes exactly (no copy), else None."""
        if isinstance(expr, ast.Attribute) and expr.attr in self.class_level:
            return expr.attr
        if isinstance(expr, ast.Name) and (f.module.name, expr.id) in self.module_level \
                and expr.id not in _locals(f):
            return expr.id
        return None


def _locals(f):
    if not hasattr(f, '_locals'):
        names = set(f.params)
        a = f.node.args
        names.update(x.arg for x in a.kwonlyargs)
        if a.vararg:
            names.add(a.vararg.arg)
        if a.kwarg:
            names.add(a.kwarg.arg)
        for n in walk_function(f.node):
            if isinstance(n, ast.Name) and isinstance(n.ctx, (ast.Store, ast.Del)):
                names.add(n.id)
        f._locals = names
    return f._locals


def inventory(repo):
    if not hasattr(repo, '_inventory'):
        repo._inventory = Inventory(repo)
    return repo._inventory


def _fresh_value(expr):
    """expr certainly denotes a new object (display, constructor call, copy, concatenation ...)."""
    if is_container_value(expr):
        return True
    if isinstance(expr, ast.Constant):
        return True
    if isinstance(expr, ast.Call):
        if isinstance(expr.func, ast.Attribute) and expr.func.attr in ('copy', 'keys', 'values', 'items'):
            return True
        if norm(expr.func) in ('dict', 'list', 'set', 'tuple', 'sorted', 'copy.copy', 'copy.deepcopy'):
            return True
    if isinstance(expr, (ast.BinOp, ast.Tuple, ast.JoinedStr, ast.Compare, ast.BoolOp)):
        return isinstance(expr, (ast.BinOp, ast.Tuple, ast.JoinedStr, ast.Compare))
    return False


def shared_expr(inv, expr, f, local_alias):
    """If `expr` may denote a shared container or an element of one, return (container name, via)."""
    if isinstance(expr, ast.IfExp):
        # either arm may be the shared container
        return shared_expr(inv, expr.body, f, local_alias) or shared_expr(inv, expr.orelse, f, local_alias)
    if isinstance(expr, ast.BoolOp):
        for v in expr.values:
            r = shared_expr(inv, v, f, local_alias)
            if r is not None:
                return r
        return None
    root, depth = A.strip_elements(expr)
    if depth >= 1:
        base = shared_expr(inv, root, f, local_alias)
        if base is None or not inv.elem_mutable(base[0]):
            return None
        return base
    if isinstance(root, ast.Attribute):
        if root.attr in inv.class_level:
            return root.attr, 'attribute'
        if root.attr in inv.alias_fields and isinstance(root.value, ast.Name) and f.params \
                and root.value.id == f.params[0]:
            return '/'.join(sorted(inv.alias_fields[root.attr])), 'field ' + root.attr
    if isinstance(root, ast.Name):
        if root.id in local_alias:
            return local_alias[root.id], 'local ' + root.id
        if (f.module.name, root.id) in inv.module_level and root.id not in _locals(f):
            return root.id, 'module global'
    return None


def local_aliases(inv, f):
    """{local name: container name} for locals assigned from a shared container or one of its elements."""
    out = {}
    changed = True
    rounds = 0
    while changed and rounds < 4:
        changed = False
        rounds += 1
        for n in walk_function(f.node):
            pairs = []
            if isinstance(n, ast.Assign):
                for t in n.targets:
                    if isinstance(t, ast.Name):
                        pairs.append((t.id, n.value))
            elif isinstance(n, (ast.For, ast.AsyncFor)) and isinstance(n.target, ast.Name):
                # iterating a dict of lists yields keys; iterating .values()/.items() yields elements
                it = n.iter
                if isinstance(it, ast.Call) and isinstance(it.func, ast.Attribute) and it.func.attr in ('values',):
                    pairs.append((n.target.id, it.func.value))
            for name, value in pairs:
                if _fresh_value(value):
                    continue
                s = shared_expr(inv, value, f, out)
                if s is not None and out.get(name) != s[0]:
                    out[name] = s[0]
                    changed = True
    return out


def mutation_sites(repo):
    """[(func, Mutation, container name, via)] for every syntactic mutation that may hit a shared container."""
    inv = inventory(repo)
    out = []
    for f in repo.all_functions():
        la = local_aliases(inv, f)
        muts = A.find_mutations(f.node)
        # list += in place on an aliasing local
        for n in walk_function(f.node):
            if isinstance(n, ast.AugAssign) and isinstance(n.target, ast.Name) and n.target.id in la:
                muts.append(A.Mutation(n, n, n.target, 'augassign'))
        for m in muts:
            if m.kind == 'rebind':
                # rebinding a class-level name from inside a function: X.NAME = ... where X is not self
                t = m.receiver
                if isinstance(t, ast.Attribute) and t.attr in inv.class_level and isinstance(t.value, ast.Name) \
                        and f.params and t.value.id == f.params[0] and not f.is_classmethod:
                    continue        # instance attribute shadowing, not a write to the class
                if isinstance(t, ast.Attribute) and t.attr in inv.class_level:
                    r = repo.resolve_expr(f.module, t.value)
                    if (r is not None and r.kind == 'class') or f.is_classmethod:
                        out.append((f, m, t.attr, 'rebind'))
                continue
            s = shared_expr(inv, m.receiver, f, la)
            if s is None:
                continue
            out.append((f, m, s[0], s[1]))
        for n in walk_function(f.node):
            if isinstance(n, ast.Global):
                for name in n.names:
                    out.append((f, A.Mutation(n, n, ast.Name(id=name, ctx=ast.Load()), 'global'), name, 'global statement'))
    return out


def r_global_readonly(ctx, repo, scope=None):
    """scope: None = whole package, or a set of module names to report on."""
    inv = inventory(repo)
    rm = RR.model(repo)
    rule = ctx.rule('R-GLOBAL-READONLY', 'no statement mutates a module/class-level container (registries only through their '
                                         'add_* owners), directly, through a local alias or through an aliasing instance field')
    writer_nodes = {}
    for r in rm.regs.values():
        for w in r.writers:
            writer_nodes.setdefault(w.func.node, set()).add(r.name)
    n_sites = 0
    for f, m, cname, via in mutation_sites(repo):
        if scope is not None and f.module.name not in scope:
            continue
        n_sites += 1
        first = cname.split('/')[0]
        if f.node in writer_nodes and first in writer_nodes[f.node] and via in ('attribute', 'rebind') or \
                (f.node in writer_nodes and via.startswith('local') and first in writer_nodes[f.node]):
            rule.ok(f.loc(m.node), '%s writes %s as its add_* owner (R-COW applies)' % (f.qualname, cname))
            continue
        # class-level container shadowed by an instance attribute set in __init__
        if via == 'attribute' and isinstance(m.root, ast.Attribute) and isinstance(m.root.value, ast.Name) \
                and f.params and m.root.value.id == f.params[0] and not f.is_classmethod \
                and any((cls.qualname, first) in inv.shadowed for cls, v in inv.class_level.get(first, [])
                        if f.cls is not None and (f.cls is cls or f.cls.is_subclass_of(cls) or cls.is_subclass_of(f.cls))):
            rule.ok(f.loc(m.node), '%s mutates the instance attribute %s (assigned in __init__)' % (f.qualname, first))
            continue
        if via.startswith('field '):
            field = via[6:]
            cfg = CFG(f.node)
            fresh_nodes = []
            for n in cfg.nodes:
                st = n.ast
                if n.kind == 'stmt' and isinstance(st, ast.Assign):
                    for t in st.targets:
                        if A.is_attr(t, f.params[0], field) and _fresh_value(st.value):
                            fresh_nodes.append(n)
            nodes = cfg.nodes_of(m.stmt)
            if fresh_nodes and nodes and all(cfg.guarded(x, nodes=fresh_nodes) for x in nodes):
                rule.ok(f.loc(m.node), 'self.%s is rebound to a fresh value before %s' % (field, norm(m.stmt)[:50]))
                continue
            rule.fail('%s|%s|%s' % (f.qualname, cname, norm(m.stmt).split('\n')[0][:80]), f.module.rel, m.node.lineno,
                      f.qualname, norm(m.stmt).split('\n')[0][:100],
                      'self.%s may alias the class-level container %s (assigned without a copy elsewhere) and is mutated '
                      'here without being rebound to a fresh object first on every path' % (field, cname))
            continue
        rule.fail('%s|%s|%s' % (f.qualname, cname, norm(m.stmt).split('\n')[0][:80]), f.module.rel, m.node.lineno,
                  f.qualname, norm(m.stmt).split('\n')[0][:100],
                  'mutates the %s-level container %s (%s): state shared by every loader/dumper instance and class '
                  'changes during a call' % ('module' if via in ('module global', 'global statement') else 'class', cname, via))
    ncont = sum(len(v) for v in inv.class_level.values()) + len(inv.module_level)
    rule.instances += ncont
    rule.distinct.add(('containers', ncont))
    rule.samples.append('%d class-level and %d module-level mutable containers inventoried: %s; alias fields: %s; '
                        '%d candidate mutation sites examined'
                        % (sum(len(v) for v in inv.class_level.values()), len(inv.module_level),
                           sorted(inv.class_level), {k: sorted(v) for k, v in inv.alias_fields.items()}, n_sites))
    if len(inv.class_level) < 10:
        raise AnalysisError('only %d class-level containers inventoried (13 confirmed by reading)' % len(inv.class_level))
    return rule


def r_no_live_escape(ctx, repo):
    inv = inventory(repo)
    rule = ctx.rule('R-NO-LIVE-ESCAPE', 'a class-level container, or an instance field that may alias one, is never returned, '
                                        'passed on or stored in another object without a copy')
    rm = RR.model(repo)
    writer_nodes = {w.func.node for r in rm.regs.values() for w in r.writers}
    for f in repo.all_functions():
        la = local_aliases(inv, f)
        for n in walk_function(f.node):
            s = None
            if isinstance(n, ast.Attribute) and isinstance(n.ctx, ast.Load):
                if n.attr in inv.class_level:
                    s = (n.attr, 'attribute')
                elif n.attr in inv.alias_fields and isinstance(n.value, ast.Name) and f.params \
                        and n.value.id == f.params[0]:
                    s = ('/'.join(sorted(inv.alias_fields[n.attr])), 'field ' + n.attr)
            elif isinstance(n, ast.Name) and isinstance(n.ctx, ast.Load) and n.id in la:
                s = (la[n.id], 'local ' + n.id)
            if s is None:
                continue
            par = getattr(n, '_parent', None)
            ok = False
            if isinstance(par, ast.Subscript) and par.value is n:
                ok = True
            elif isinstance(par, ast.Compare):
                ok = True
            elif isinstance(par, (ast.For, ast.comprehension)) and par.iter is n:
                ok = True
            elif isinstance(par, ast.Attribute) and par.value is n:
                ok = True        # method call / attribute of it: reads and mutations are judged elsewhere
            elif isinstance(par, ast.Call) and n in par.args and norm(par.func) in COPY_BUILTINS:
                ok = True
            elif isinstance(par, (ast.If, ast.While, ast.BoolOp, ast.UnaryOp, ast.IfExp, ast.Assert)):
                ok = True
            elif isinstance(par, ast.BinOp):
                ok = True        # concatenation builds a new object
            elif isinstance(par, ast.Assign) and par.value is n:
                # alias creation: a local (tracked) or an instance field (tracked as alias field)
                ok = all(isinstance(t, ast.Name) or
                         (isinstance(t, ast.Attribute) and isinstance(t.value, ast.Name) and f.params
                          and t.value.id == f.params[0]) for t in par.targets)
                if f.node in writer_nodes:
                    ok = True
            elif isinstance(par, ast.Expr):
                ok = True
            elif isinstance(par, (ast.List, ast.Tuple, ast.Set)) and any(e is n for e in par.elts):
                # wrapped into a fresh display that only serves as a local temporary: bound to a local name or iterated
                pp = getattr(par, '_parent', None)
                ok = (isinstance(pp, ast.Assign) and all(isinstance(t, ast.Name) for t in pp.targets)) or \
                     (isinstance(pp, (ast.For, ast.comprehension)) and pp.iter is par) or \
                     (isinstance(pp, ast.IfExp) and isinstance(getattr(pp, '_parent', None), (ast.For, ast.Assign)))
            elif isinstance(par, ast.Starred) or (isinstance(par, ast.Dict) and n in par.values
                                                  and par.keys[par.values.index(n)] is None):
                ok = True        # unpacked into a new display
            if ok:
                rule.ok(f.loc(n), '%s used in place (%s)' % (norm(n), type(par).__name__))
            else:
                rule.fail('%s|%s|%s' % (f.qualname, s[0], norm(par)[:80] if par is not None else norm(n)),
                          f.module.rel, n.lineno, f.qualname, norm(par)[:100] if par is not None else norm(n),
                          '%s (%s of the shared container %s) escapes without a copy: whoever receives it sees, or can '
                          'cause, later changes' % (norm(n), s[1], s[0]))
    rule.require_min(20, 'uses of shared containers')
    return rule
