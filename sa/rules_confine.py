"""Confinement rules of C01 / C04: R-NO-SINK, R-RETURN-UNIVERSE, R-FALLBACK-RAISES,
R-LOADER-COMPOSITION, R-API-BINDING, R-FRONTEND-NO-SINK, R-UNSAFE-ONLY-IN-UNSAFE, R-SYSMODULES-GUARD."""
import ast

from . import absint as AI
from . import astutil as A
from . import rules_registry as RR
from .cfg import CFG
from .srcmodel import AnalysisError, ClassInfo, FuncInfo, norm, walk_function

SAFE_TAGS = {'none', 'true', 'false', 'bool', 'int', 'float', 'str', 'bytes', 'date', 'datetime',
             'list', 'dict', 'set'}
FULL_TAGS = SAFE_TAGS | {'tuple', 'complex', 'dyn'}


def build_universe(repo, qualname):
    key = '_universe_' + qualname
    if hasattr(repo, key):
        return getattr(repo, key)
    rm = RR.model(repo)
    cls = repo.cls(qualname)
    u = AI.Universe(repo, cls, rm)
    for reg, multi in (('yaml_constructors', False), ('yaml_multi_constructors', True)):
        for k, f in rm.heap.table(cls, reg).items():
            ps = f.params
            start = 0 if f.is_staticmethod else 1
            need = 2 if multi else 1
            if len(ps) - start < need:
                raise AnalysisError('%s registered as %s but takes too few parameters' % (f.qualname, reg))
            if multi:
                u.add_root(f, {ps[start]: AI.T('str'), ps[start + 1]: AI.NODE()}, '%s[%r]' % (reg, k))
            else:
                u.add_root(f, {ps[start]: AI.NODE()}, '%s[%r]' % (reg, k))
            u.table_funcs.setdefault(f, []).append((reg, k))
    for name in ('construct_scalar', 'construct_sequence', 'construct_mapping'):
        found = repo.lookup(cls, name)
        if found is None or not isinstance(found[1], FuncInfo):
            raise AnalysisError('%s: default constructor %s has vanished' % (qualname, name))
        f = found[1]
        u.add_root(f, {f.params[1]: AI.NODE()}, 'kind default ' + name)
        u.table_funcs.setdefault(f, []).append(('default', name))
    for name in ('construct_object', 'construct_document'):
        found = repo.lookup(cls, name)
        if found is None or not isinstance(found[1], FuncInfo):
            raise AnalysisError('%s: %s has vanished' % (qualname, name))
        u.add_root(found[1], {found[1].params[1]: AI.NODE()}, 'entry ' + name)
    for name in ('get_single_data', 'get_data', 'check_data'):
        found = repo.lookup(cls, name)
        if found is None or not isinstance(found[1], FuncInfo):
            raise AnalysisError('%s: entry point %s has vanished' % (qualname, name))
        u.add_root(found[1], {}, 'entry ' + name)
    u.run()
    setattr(repo, key, u)
    return u


def r_no_sink(ctx, repo, universes, allowed=None, label='safe'):
    """allowed: {sink kind: set of function qualnames in which that kind is permitted}."""
    allowed = allowed or {}
    rule = ctx.rule('R-NO-SINK', 'from the effective tables, kind defaults and entry points of each universe no import / '
                                 'name-lookup / dynamic-call / mutate sink is reachable in the resolved call graph')
    stats = ctx.extra.setdefault('universes', {})
    for q in universes:
        u = build_universe(repo, q)
        stats[q] = {'functions_analysed': len(u.summaries), 'call_sites': u.call_sites,
                    'call_sites_resolved': u.resolved_sites, 'unresolved_calls': u.call_sites - u.resolved_sites,
                    'sinks': len(u.sinks), 'not_followed_outside_constructor_family': u.unfollowed}
        bad = 0
        for s in u.sinks.values():
            if s.func.qualname in allowed.get(s.kind, ()):
                rule.ok(s.func.loc(s.node), '%s %s permitted in %s' % (s.kind, s.text, s.func.qualname))
                continue
            bad += 1
            rule.fail('%s|%s' % (label, s.key()), s.func.module.rel, s.node.lineno, s.func.qualname, s.text,
                      '%s: %s -- reachable when loading with %s' % (s.kind, s.why, q),
                      chain=u.chain(s.func), universe=q)
        for f in u.summaries:
            rule.ok(f.loc(), '%s reachable in %s: analysed, %s' % (f.qualname, q, 'no unpermitted sink'))
    return rule


def r_positive_control(ctx, repo, universe='loader.UnsafeLoader'):
    """the same search must find every sink kind from the unsafe tables, else it proves nothing."""
    u = build_universe(repo, universe)
    kinds = {s.kind for s in u.sinks.values()}
    need = {'S-import', 'S-lookup', 'S-dyncall', 'S-mutate'}
    if not need <= kinds:
        raise AnalysisError('positive control failed: the sink search finds only %s from %s '
                            '(expected all of %s)' % (sorted(kinds), universe, sorted(need)))
    ctx.extra['positive_control'] = {'universe': universe,
                                     'sinks_found': sorted(s.key() for s in u.sinks.values())}


def r_return_universe(ctx, repo, universes, allowed_tags, label='safe'):
    rule = ctx.rule('R-RETURN-UNIVERSE', 'the abstract value every table function constructs lies in the allowed type universe '
                                         '(2-tuples only as elements of the omap/pairs lists)')
    for q in universes:
        u = build_universe(repo, q)
        for f, origins in u.table_funcs.items():
            av = u.constructed_value(f)
            bad = set()
            for t in av.tags:
                if t not in allowed_tags:
                    bad.add(t)
            for t in av.elem:
                if t not in allowed_tags and not (t == 'tuple2' and 'list' in av.tags):
                    bad.add('element:' + t)
            for t in av.deep:
                if t not in allowed_tags and t != 'tuple2':
                    bad.add('nested:' + t)
            if 'tuple2' in av.deep and not any(
                    'tuple2' in u.constructed_value(g).elem for g in u.table_funcs):
                bad.add('nested:tuple2')
            if bad:
                rule.fail('%s|%s|%s' % (label, f.qualname, ','.join(sorted(bad))), f.module.rel, f.node.lineno,
                          f.qualname, 'constructs %r' % av,
                          '%s (reached as %s in %s) may construct %s, outside the allowed universe'
                          % (f.qualname, origins[0], q, ', '.join(sorted(bad))), universe=q)
            else:
                rule.ok(f.loc(), '%s constructs %r in %s' % (f.name, AI.AV(av.tags, av.elem), q))
    return rule


def always_raises(func, repo, want_cls=None, depth=0):
    """True if every path of func ends in `raise K(...)` (K optionally a subclass of want_cls)."""
    if func.is_generator:
        return False
    cfg = CFG(func.node)
    r = cfg.reachable()
    if cfg.exit_return in r or cfg.exit_fall in r:
        return False
    raises = [n for n in r if n.kind == 'raise']
    if not raises:
        return False
    if want_cls is not None:
        for n in raises:
            exc = n.ast.exc if isinstance(n.ast, ast.Raise) else None
            if exc is None:
                return False
            target = exc.func if isinstance(exc, ast.Call) else exc
            ref = repo.resolve_expr(func.module, target)
            if ref is None or ref.kind != 'class' or not ref.obj.is_subclass_of(want_cls):
                return False
    return True


def r_fallback_raises(ctx, repo, universes):
    rule = ctx.rule('R-FALLBACK-RAISES', 'the None entry of the constructor table resolves to a function all of whose paths '
                                         'raise ConstructorError')
    rm = RR.model(repo)
    cerr = repo.cls('constructor.ConstructorError')
    for q in universes:
        cls = repo.cls(q)
        f = rm.heap.table(cls, 'yaml_constructors').get(None)
        if f is None:
            rule.fail('%s|no-fallback' % q, cls.module.rel, cls.node.lineno, q, 'yaml_constructors[None]',
                      '%s has no None fallback: unknown tags fall through to the kind defaults instead of being rejected' % q,
                      universe=q)
            continue
        if always_raises(f, repo, cerr):
            rule.ok(f.loc(), 'yaml_constructors[None] of %s = %s always raises ConstructorError' % (q, f.qualname))
        else:
            rule.fail('%s|%s' % (q, f.qualname), f.module.rel, f.node.lineno, f.qualname, 'def %s' % f.name,
                      'the fallback constructor of %s can return normally (or raises something else than '
                      'ConstructorError): a tag outside the table is then constructed instead of rejected' % q, universe=q)
    return rule


COMPONENT_ROLES = [
    ('constructor', 'constructor.BaseConstructor'),
    ('resolver', 'resolver.BaseResolver'),
]


def r_loader_composition(ctx, repo, expect):
    """expect: {universe qualname: constructor class qualname}."""
    rule = ctx.rule('R-LOADER-COMPOSITION', 'each loader class derives from the documented constructor class and its __init__ '
                                            'initialises every base with that base\'s own initialiser')
    basec = repo.cls('constructor.BaseConstructor')
    for q, want in expect.items():
        cls = repo.cls(q)
        ctors = [k for k in cls.mro_classes() if k.is_subclass_of(basec) and k is not cls]
        most = ctors[0] if ctors else None
        if most is None or most.qualname != want:
            rule.fail('%s|constructor-base' % q, cls.module.rel, cls.node.lineno, q,
                      'class %s(%s)' % (cls.name, ', '.join(norm(b) for b in cls.base_exprs)),
                      '%s composes %s as its constructor, the property requires %s'
                      % (q, most.qualname if most else None, want), universe=q)
        else:
            rule.ok('%s:%d' % (cls.module.rel, cls.node.lineno), '%s constructs with %s' % (q, want))
        # no other class between the universe and the constructor base overrides dispatch
        found = repo.lookup(cls, 'construct_object')
        if found is None or found[0] is not basec:
            rule.fail('%s|construct_object-owner' % q, cls.module.rel, cls.node.lineno, q, 'construct_object',
                      'construct_object of %s is not BaseConstructor.construct_object' % q, universe=q)
        else:
            rule.ok(found[1].loc(), '%s dispatches through BaseConstructor.construct_object' % q)
        init = cls.methods.get('__init__')
        if init is None:
            rule.fail('%s|no-init' % q, cls.module.rel, cls.node.lineno, q, '__init__', 'no __init__', universe=q)
            continue
        called = set()
        for c in A.func_calls(init.node):
            if isinstance(c.func, ast.Attribute) and c.func.attr == '__init__':
                r = repo.resolve_expr(init.module, c.func.value)
                if r is not None and r.kind == 'class':
                    found = repo.lookup(r.obj, '__init__')
                    if found:
                        called.add(found[1])
        for b in cls.bases:
            if not isinstance(b, ClassInfo):
                continue
            found = repo.lookup(b, '__init__')
            if found is None:
                continue
            if found[1] in called:
                rule.ok(init.loc(), '%s.__init__ runs %s' % (cls.name, found[1].qualname))
            else:
                rule.fail('%s|init|%s' % (q, b.name), init.module.rel, init.node.lineno, init.qualname,
                          '%s.__init__' % b.name, '%s.__init__ never runs the initialiser of its base %s (%s)'
                          % (cls.name, b.name, found[1].qualname), universe=q)
    return rule


def r_api_binding(ctx, repo, expect):
    """expect: {api function name: loader class qualname}: the function passes that class to load/load_all."""
    rule = ctx.rule('R-API-BINDING', 'safe_load/safe_load_all/full_load/full_load_all hand the documented loader class to load')
    init = repo.modules['__init__']
    for name, want in expect.items():
        f = init.functions.get(name)
        if f is None:
            raise AnalysisError('yaml.%s has vanished' % name)
        classes = []
        for c in A.func_calls(f.node):
            for a in list(c.args) + [k.value for k in c.keywords]:
                r = repo.resolve_expr(init, a)
                if r is not None and r.kind == 'class':
                    classes.append(r.obj.qualname)
        if classes == [want]:
            rule.ok(f.loc(), 'yaml.%s -> %s' % (name, want))
        else:
            rule.fail('%s|%s' % (name, ','.join(classes)), f.module.rel, f.node.lineno, f.qualname,
                      norm(f.node.body[-1])[:80], 'yaml.%s binds %s, the property requires exactly %s'
                      % (name, classes or 'no class', want))
    return rule


FRONTEND_SINK_NAMES = set(AI.SINK_BUILTINS) | {'hasattr'}


def r_frontend_no_sink(ctx, repo, universes):
    """Syntactic sink scan of every method the universes inherit from non-constructor components
    (reader, scanner, parser, composer, resolver, CParser): these are not abstract-interpreted."""
    rule = ctx.rule('R-FRONTEND-NO-SINK', 'no import/exec/eval/getattr-by-variable/setattr/sys.modules/__dict__ use in the '
                                          'reader, scanner, parser, composer, resolver and C parser classes of the universe')
    basec = repo.cls('constructor.BaseConstructor')
    seen = set()
    for q in universes:
        cls = repo.cls(q)
        for k in cls.mro_classes():
            if k.is_subclass_of(basec) or k in seen:
                continue
            seen.add(k)
            for f in k.methods.values():
                bad = []
                for n in walk_function(f.node):
                    if isinstance(n, (ast.Import, ast.ImportFrom)):
                        bad.append((n, 'import statement'))
                    elif isinstance(n, ast.Call):
                        fn = norm(n.func)
                        if fn in FRONTEND_SINK_NAMES:
                            if fn in ('getattr', 'hasattr') and len(n.args) >= 2 and isinstance(n.args[1], ast.Constant):
                                continue
                            bad.append((n, '%s()' % fn))
                        elif fn.split('.')[0] in ('importlib', 'os', 'subprocess', 'pickle', 'marshal', 'ctypes', 'runpy'):
                            bad.append((n, fn))
                    elif isinstance(n, ast.Attribute) and n.attr in ('__dict__', '__globals__', '__builtins__',
                                                                     '__subclasses__', '__import__'):
                        par = getattr(n, '_parent', None)
                        if n.attr == '__dict__' and isinstance(par, ast.Compare) and n in par.comparators \
                                and all(isinstance(o, (ast.In, ast.NotIn)) for o in par.ops):
                            continue        # membership test only (the ownership test of the add_* methods)
                        bad.append((n, n.attr))
                    elif isinstance(n, ast.Attribute) and norm(n) == 'sys.modules':
                        bad.append((n, 'sys.modules'))
                if bad:
                    for n, what in bad:
                        rule.fail('%s|%s' % (f.qualname, norm(n)[:60]), f.module.rel, n.lineno, f.qualname, norm(n)[:80],
                                  '%s in a front-end component of a confined loader' % what)
                else:
                    rule.ok(f.loc(), '%s: no sink construct' % f.qualname)
    rule.require_min(100, 'front-end methods')
    return rule


def r_unsafe_only_in_unsafe(ctx, repo, universes):
    """the `unsafe` switch can only be False inside a confined universe: a default, where there is one, is the constant
    False, and every call that binds the parameter - by keyword or by position - passes the constant False or forwards the
    caller's own `unsafe` parameter."""
    rule = ctx.rule('R-UNSAFE-FLAG', 'every `unsafe` parameter defaults to the constant False (or has no default), and no class in '
                                     'the MRO of a confined universe binds it, by keyword or position, to anything but False / '
                                     'its own unsafe parameter')
    for q in universes:
        cls = repo.cls(q)
        methods = {}
        for k in reversed(cls.mro_classes()):
            for name, f in k.methods.items():
                methods[name] = f
        flagged = {name: f for name, f in methods.items() if 'unsafe' in f.params}
        for name, f in flagged.items():
            dv = f.defaults().get('unsafe')
            if dv is None or (isinstance(dv, ast.Constant) and dv.value is False):
                rule.ok(f.loc(), '%s: unsafe %s' % (f.qualname, 'defaults to False' if dv is not None else 'has no default'))
            else:
                rule.fail('%s|default' % f.qualname, f.module.rel, f.node.lineno, f.qualname, 'unsafe=%s' % norm(dv),
                          'the unsafe switch of %s does not default to False' % f.qualname, universe=q)
        for k in cls.mro_classes():
            for f in k.methods.values():
                own = 'unsafe' in f.params
                for c in A.func_calls(f.node):
                    callee = None
                    shift = 0
                    if isinstance(c.func, ast.Attribute) and c.func.attr in flagged:
                        callee = flagged[c.func.attr]
                        # bound call (self.m(...)): the receiver fills the first parameter; Class.m(self, ...) does not
                        recv = c.func.value
                        shift = 0 if (isinstance(recv, ast.Name) and repo.resolve_name(f.module, recv.id) is not None
                                      and repo.resolve_name(f.module, recv.id).kind == 'class') else 1
                    elif isinstance(c.func, ast.Name) and c.func.id in {g.name for g in flagged.values() if g.cls is None}:
                        callee = [g for g in flagged.values() if g.name == c.func.id][0]
                    if callee is None:
                        continue
                    idx = callee.params.index('unsafe') - shift
                    bound = None
                    for kw in c.keywords:
                        if kw.arg == 'unsafe':
                            bound = kw.value
                    if bound is None and 0 <= idx < len(c.args) and not any(isinstance(a, ast.Starred) for a in c.args[:idx + 1]):
                        bound = c.args[idx]
                    if bound is None:
                        continue
                    ok = (isinstance(bound, ast.Constant) and bound.value is False) or \
                        (own and isinstance(bound, ast.Name) and bound.id == 'unsafe')
                    if ok:
                        rule.ok(f.loc(c), '%s binds unsafe of %s to %s' % (f.name, callee.name, norm(bound)))
                    else:
                        rule.fail('%s|passes|%s' % (f.qualname, A.anon_text(c, f.node, 60)), f.module.rel, c.lineno, f.qualname,
                                  norm(c)[:80], '%s (in the MRO of %s) binds the unsafe switch of %s to %s'
                                  % (f.qualname, q, callee.name, norm(bound)), universe=q)
    return rule


def r_sysmodules_guard(ctx, repo, universes):
    """each sys.modules[name] read reachable in the universe is dominated by `name not in sys.modules -> raise`."""
    rule = ctx.rule('R-SYSMODULES-GUARD', 'every sys.modules[name] read is dominated by `if name not in sys.modules: raise '
                                          'ConstructorError` (only already-imported modules are returned)')
    done = set()
    for q in universes:
        u = build_universe(repo, q)
        for s in u.sinks.values():
            if s.kind != 'S-lookup' or not isinstance(s.node, ast.Subscript):
                continue
            if (s.func, s.node) in done:
                continue
            done.add((s.func, s.node))
            cfg = CFG(s.func.node)
            key = norm(s.node.slice)
            edges = []
            for n in cfg.nodes:
                if n.kind == 'test':
                    inner, pos = A.strip_not(n.ast)
                    if isinstance(inner, ast.Compare) and len(inner.ops) == 1 and norm(inner.left) == key \
                            and norm(inner.comparators[0]) == 'sys.modules':
                        if isinstance(inner.ops[0], ast.NotIn):
                            edges.append((n, not pos))
                        elif isinstance(inner.ops[0], ast.In):
                            edges.append((n, pos))
            st = A.enclosing_stmt(s.node)
            nodes = cfg.nodes_of(st)
            if edges and nodes and all(cfg.guarded(n, edges=edges) for n in nodes):
                rule.ok(s.func.loc(s.node), '%s guarded by membership test' % s.text)
            else:
                rule.fail('%s|%s' % (s.func.qualname, s.text), s.func.module.rel, s.node.lineno, s.func.qualname,
                          s.text, 'sys.modules is read without a dominating `%s not in sys.modules` rejection' % key,
                          universe=q)
    return rule
