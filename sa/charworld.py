"""R-LOOP-PROGRESS / R-SENTINEL-LOOPS: per-character abstract interpretation of the scanner's loops.

For every `while` loop of the scanner that looks at input characters and for every representative character c of
the partition of the alphabet induced by the scanner's own literals, the loop body is interpreted abstractly with
"the character under the loop's cursor is c" (three-valued booleans, small constants, everything else unknown;
calls of scanner methods are inlined to depth 3).  Every path through one iteration must either

   leave the loop (test false, break, return, raise), or
   consume input (self.forward(k) with k >= 1, or the loop's own cursor variable is incremented).

A path that returns to the loop head having done neither can repeat for ever: the loop does not terminate on an
input containing c at that place.  For the NUL sentinel (c == '\\0') consuming input is not accepted either
(moving past the sentinel runs off the buffer), so every path must leave the loop.
"""
import ast

from . import astutil as A
from .srcmodel import AnalysisError, FuncInfo, norm, walk_function

CONST_STR_METHODS = {'isalnum', 'isalpha', 'isdigit', 'isdecimal', 'isnumeric', 'isspace', 'isupper', 'islower',
                     'isascii', 'isprintable', 'isidentifier', 'lower', 'upper', 'startswith', 'endswith', 'strip'}
UNK = ('unk',)
POS = ('pos',)          # an int >= 1


class Exit(Exception):
    pass


class Budget(Exception):
    pass


class State:
    __slots__ = ('env', 'progress', 'moved')

    def __init__(self, env, progress=False, moved=False):
        self.env = env
        self.progress = progress
        self.moved = moved

    def copy(self):
        return State(dict(self.env), self.progress, self.moved)


def is_const(v):
    return isinstance(v, tuple) and len(v) == 2 and v[0] == 'c'


def C(v):
    return ('c', v)


def truth(v):
    if is_const(v):
        return bool(v[1])
    if v is POS:
        return True
    return None


class Interp:
    def __init__(self, repo, cls, char, subject, cursor, max_depth=3, budget=200000):
        self.repo = repo
        self.cls = cls
        self.char = char
        self.subject = subject      # normalised text of the peek expression that denotes "the current character"
        self.cursor = cursor        # name of the loop's cursor variable (or None)
        self.max_depth = max_depth
        self.budget = budget

    # ---- expressions: return list of (value, state) alternatives -----------------------------
    def ev(self, e, st, depth):
        self.budget -= 1
        if self.budget < 0:
            raise Budget()
        if isinstance(e, ast.Constant):
            return [(C(e.value), st)]
        if isinstance(e, ast.Name):
            return [(st.env.get(e.id, UNK), st)]
        if isinstance(e, ast.UnaryOp) and isinstance(e.op, ast.Not):
            out = []
            for v, s in self.ev(e.operand, st, depth):
                t = truth(v)
                out.append((UNK if t is None else C(not t), s))
            return out
        if isinstance(e, ast.BoolOp):
            return self.ev_boolop(e, st, depth)
        if isinstance(e, ast.Compare):
            return self.ev_compare(e, st, depth)
        if isinstance(e, ast.Call):
            return self.ev_call(e, st, depth)
        if isinstance(e, ast.BinOp):
            out = []
            for l, s1 in self.ev(e.left, st, depth):
                for r, s2 in self.ev(e.right, s1, depth):
                    out.append((self.binop(e.op, l, r), s2))
            return out
        if isinstance(e, ast.IfExp):
            out = []
            for t, s in self.ev(e.test, st, depth):
                tv = truth(t)
                if tv is not False:
                    out.extend(self.ev(e.body, s.copy() if tv is None else s, depth))
                if tv is not True:
                    out.extend(self.ev(e.orelse, s.copy() if tv is None else s, depth))
            return out
        if isinstance(e, ast.Attribute):
            return [(UNK, st)]
        if isinstance(e, (ast.Tuple, ast.List)) and all(isinstance(x, ast.Constant) for x in e.elts):
            return [(C(tuple(x.value for x in e.elts)), st)]
        if isinstance(e, (ast.Tuple, ast.List)):
            # evaluate elements for their effects
            states = [st]
            for x in e.elts:
                nxt = []
                for s in states:
                    for v, s2 in self.ev(x, s, depth):
                        nxt.append(s2)
                states = nxt
            return [(UNK, s) for s in states]
        if isinstance(e, ast.Subscript):
            out = []
            for v, s in self.ev(e.value, st, depth):
                out.append((UNK, s))
            return out
        # anything else: evaluate nested calls for effects conservatively -> unknown
        states = [st]
        for sub in ast.iter_child_nodes(e):
            if isinstance(sub, ast.expr):
                nxt = []
                for s in states:
                    for v, s2 in self.ev(sub, s, depth):
                        nxt.append(s2)
                states = nxt
        return [(UNK, s) for s in states]

    def binop(self, op, l, r):
        if is_const(l) and is_const(r):
            try:
                if isinstance(op, ast.Add):
                    return C(l[1] + r[1])
                if isinstance(op, ast.Sub):
                    return C(l[1] - r[1])
                if isinstance(op, ast.Mult):
                    return C(l[1] * r[1])
            except Exception:
                return UNK
        if isinstance(op, ast.Add):
            if (l is POS and (r is POS or (is_const(r) and isinstance(r[1], int) and r[1] >= 0))) or \
                    (r is POS and is_const(l) and isinstance(l[1], int) and l[1] >= 0):
                return POS
        return UNK

    def ev_boolop(self, e, st, depth):
        is_and = isinstance(e.op, ast.And)
        alts = [([], st)]
        for o in e.values:
            nxt = []
            for vals, s in alts:
                # short circuit on a decided operand
                if vals and truth(vals[-1]) is (not is_and):
                    nxt.append((vals, s))
                    continue
                for v, s2 in self.ev(o, s, depth):
                    nxt.append((vals + [v], s2))
            alts = nxt
        out = []
        for vals, s in alts:
            ts = [truth(v) for v in vals]
            if any(t is (not is_and) for t in ts):
                out.append((C(not is_and), s))
            elif all(t is is_and for t in ts):
                out.append((C(is_and), s))
            else:
                out.append((UNK, s))
        return out

    def ev_compare(self, e, st, depth):
        operands = [e.left] + list(e.comparators)
        alts = [([], st)]
        for o in operands:
            nxt = []
            for vals, s in alts:
                for v, s2 in self.ev(o, s, depth):
                    nxt.append((vals + [v], s2))
            alts = nxt
        out = []
        for vals, s in alts:
            res = True
            for op, l, r in zip(e.ops, vals, vals[1:]):
                t = self.cmp(op, l, r)
                if t is None:
                    res = None
                    break
                if t is False:
                    res = False
                    break
            out.append((UNK if res is None else C(res), s))
        return out

    def cmp(self, op, l, r):
        if is_const(l) and is_const(r):
            a, b = l[1], r[1]
            try:
                if isinstance(op, ast.Eq):
                    return a == b
                if isinstance(op, ast.NotEq):
                    return a != b
                if isinstance(op, ast.In):
                    return a in b
                if isinstance(op, ast.NotIn):
                    return a not in b
                if isinstance(op, ast.Lt):
                    return a < b
                if isinstance(op, ast.LtE):
                    return a <= b
                if isinstance(op, ast.Gt):
                    return a > b
                if isinstance(op, ast.GtE):
                    return a >= b
                if isinstance(op, ast.Is):
                    return a is b
                if isinstance(op, ast.IsNot):
                    return a is not b
            except Exception:
                return None
        if l is POS and is_const(r) and isinstance(r[1], int):
            if isinstance(op, ast.Eq) and r[1] <= 0:
                return False
            if isinstance(op, ast.NotEq) and r[1] <= 0:
                return True
            if isinstance(op, ast.Gt) and r[1] <= 0:
                return True
        return None

    def is_subject(self, call, st):
        if st.moved:
            return False
        txt = norm(call)
        if st.env.get('__rebased'):
            # the position was advanced by exactly the cursor: the subject character is now at offset 0
            if txt == 'self.peek()':
                return True
            if isinstance(call.func, ast.Attribute) and call.func.attr == 'peek' and len(call.args) == 1 \
                    and isinstance(call.args[0], ast.Name) and is_const(st.env.get(call.args[0].id, UNK)) \
                    and st.env.get(call.args[0].id)[1] == 0:
                return True
            return False
        if txt == self.subject:
            if self.cursor and st.env.get('__cursor_moved'):
                return False
            return True
        # self.peek(name) where name is known to be 0 and the subject is position 0
        if self.subject == 'self.peek()' and isinstance(call.func, ast.Attribute) and call.func.attr == 'peek' \
                and len(call.args) == 1:
            a = call.args[0]
            v = st.env.get(a.id, UNK) if isinstance(a, ast.Name) else (C(a.value) if isinstance(a, ast.Constant) else UNK)
            if is_const(v) and v[1] == 0:
                return True
        if self.subject != 'self.peek()' and txt == 'self.peek()' and self.cursor:
            v = st.env.get(self.cursor, UNK)
            if is_const(v) and v[1] == 0 and not st.env.get('__cursor_moved'):
                return True
        return False

    def ev_call(self, e, st, depth):
        fn = e.func
        if isinstance(fn, ast.Attribute) and isinstance(fn.value, ast.Name) and fn.value.id == 'self':
            name = fn.attr
            if name == 'peek':
                if self.is_subject(e, st):
                    return [(C(self.char), st)]
                return [(UNK, st)]
            if name in ('prefix', 'get_mark'):
                return [(UNK, st)]
            if name == 'forward':
                out = []
                if not e.args:
                    s = st.copy()
                    s.progress = True
                    s.moved = True
                    return [(C(None), s)]
                for v, s in self.ev(e.args[0], st, depth):
                    s = s.copy()
                    t = truth(v)
                    a0 = e.args[0]
                    if self.cursor and isinstance(a0, ast.Name) and a0.id == self.cursor and not s.moved \
                            and not s.env.get('__cursor_moved') and not s.env.get('__rebased'):
                        s.env['__rebased'] = True
                        if t is True:
                            s.progress = True
                        out.append((C(None), s))
                        continue
                    if t is True:
                        s.progress = True
                        s.moved = True
                    elif t is None:
                        s.moved = True
                    out.append((C(None), s))
                return out
            found = self.repo.lookup(self.cls, name) if self.cls is not None else None
            if found is not None and isinstance(found[1], FuncInfo):
                return self.inline(found[1], e, st, depth)
            # evaluate arguments for effects
            return self.args_then_unknown(e, st, depth)
        if isinstance(fn, ast.Attribute) and fn.attr in CONST_STR_METHODS:
            # a pure str method on constant receiver/arguments is evaluated
            out = []
            for rv, s1 in self.ev(fn.value, st, depth):
                alts = [([], s1)]
                for a in e.args:
                    nxt = []
                    for vals, s2 in alts:
                        for v, s3 in self.ev(a, s2, depth):
                            nxt.append((vals + [v], s3))
                    alts = nxt
                for vals, s2 in alts:
                    if is_const(rv) and isinstance(rv[1], str) and all(is_const(v) for v in vals) and not e.keywords:
                        try:
                            out.append((C(getattr(rv[1], fn.attr)(*[v[1] for v in vals])), s2))
                            continue
                        except Exception:
                            pass
                    out.append((UNK, s2))
            return out
        if isinstance(fn, ast.Name) and fn.id in ('len', 'ord') and len(e.args) == 1:
            out = []
            for v, s in self.ev(e.args[0], st, depth):
                if is_const(v) and isinstance(v[1], (str, bytes, tuple)):
                    try:
                        out.append((C(len(v[1]) if fn.id == 'len' else ord(v[1])), s))
                        continue
                    except Exception:
                        pass
                out.append((UNK, s))
            return out
        return self.args_then_unknown(e, st, depth, havoc_moved=False)

    def args_then_unknown(self, e, st, depth, havoc_moved=False):
        states = [st]
        for a in list(e.args) + [k.value for k in e.keywords]:
            nxt = []
            for s in states:
                for v, s2 in self.ev(a, s, depth):
                    nxt.append(s2)
            states = nxt
        if isinstance(e.func, ast.Attribute) and not (isinstance(e.func.value, ast.Name)):
            nxt = []
            for s in states:
                for v, s2 in self.ev(e.func.value, s, depth):
                    nxt.append(s2)
            states = nxt
        return [(UNK, s) for s in states]

    def inline(self, func, call, st, depth):
        if depth >= self.max_depth or func.is_generator:
            s = st.copy()
            s.moved = True          # unknown callee: it may have consumed input, and we cannot rely on it
            return [(UNK, s)]
        # bind parameters
        params = func.params[1:]
        alts = [({}, st)]
        for i, a in enumerate(call.args):
            nxt = []
            for b, s in alts:
                for v, s2 in self.ev(a, s, depth):
                    nb = dict(b)
                    if i < len(params):
                        nb[params[i]] = v
                    nxt.append((nb, s2))
            alts = nxt
        for kw in call.keywords:
            nxt = []
            for b, s in alts:
                for v, s2 in self.ev(kw.value, s, depth):
                    nb = dict(b)
                    if kw.arg:
                        nb[kw.arg] = v
                    nxt.append((nb, s2))
            alts = nxt
        out = []
        for b, s in alts:
            for p, d in func.defaults().items():
                if p not in b and isinstance(d, ast.Constant):
                    b[p] = C(d.value)
            # the callee sees the same "current character" convention: its plain self.peek() is the caller's subject
            # only when the caller's subject is position 0
            callee_subject = 'self.peek()' if (s.env.get('__rebased') or (self.subject == 'self.peek()') or
                                               (self.cursor and is_const(s.env.get(self.cursor, UNK))
                                                and s.env.get(self.cursor)[1] == 0 and not s.env.get('__cursor_moved'))) \
                else '<none>'
            sub = Interp(self.repo, self.cls, self.char, callee_subject, None, self.max_depth, self.budget)
            inner = State(dict(b), s.progress, s.moved)
            try:
                ends = sub.run_block(func.node.body, inner, depth + 1)
            finally:
                self.budget = sub.budget
            for kind, val, es in ends:
                if kind == 'raise':
                    raise_state = s.copy()
                    out.append(('__raise__', raise_state))
                    continue
                ns = s.copy()
                ns.progress = es.progress
                ns.moved = es.moved
                out.append((val if kind == 'return' else C(None), ns))
        res = []
        for v, s in out:
            if v == '__raise__':
                s.env['__raised'] = True
            res.append((v if v != '__raise__' else UNK, s))
        return res

    # ---- statements: return list of (kind, value, state); kind in fall/break/continue/return/raise -------------
    def run_block(self, stmts, st, depth):
        states = [('fall', None, st)]
        for stmt in stmts:
            nxt = []
            for kind, val, s in states:
                if kind != 'fall':
                    nxt.append((kind, val, s))
                    continue
                if s.env.get('__raised'):
                    nxt.append(('raise', None, s))
                    continue
                nxt.extend(self.run_stmt(stmt, s, depth))
            seen = set()
            ded = []
            for kind, val, s in nxt:
                try:
                    key = (kind, val, frozenset(s.env.items()), s.progress, s.moved)
                except TypeError:
                    key = None
                if key is not None:
                    if key in seen:
                        continue
                    seen.add(key)
                ded.append((kind, val, s))
            states = ded
            if len(states) > 3000:
                raise Budget()
        out = []
        for kind, val, s in states:
            if kind == 'fall' and s.env.get('__raised'):
                out.append(('raise', None, s))
            else:
                out.append((kind, val, s))
        return out

    def run_stmt(self, stmt, st, depth):
        if isinstance(stmt, ast.Expr):
            return [self._after(v, s) for v, s in self.ev(stmt.value, st, depth)]
        if isinstance(stmt, ast.Assign):
            out = []
            for v, s in self.ev(stmt.value, st, depth):
                s = s.copy()
                for t in stmt.targets:
                    self.assign(t, v, s)
                out.append(self._after(v, s))
            return out
        if isinstance(stmt, ast.AugAssign):
            out = []
            cur_e = stmt.target
            for v, s in self.ev(stmt.value, st, depth):
                s = s.copy()
                if isinstance(cur_e, ast.Name):
                    cur = s.env.get(cur_e.id, UNK)
                    new = self.binop(stmt.op, cur, v)
                    if isinstance(stmt.op, ast.Add) and new is UNK and (v is POS or (is_const(v) and isinstance(v[1], int) and v[1] >= 1)) \
                            and cur is not UNK:
                        new = POS
                    s.env[cur_e.id] = new
                    if cur_e.id == self.cursor and isinstance(stmt.op, ast.Add) and \
                            (v is POS or (is_const(v) and isinstance(v[1], int) and v[1] >= 1)):
                        s.progress = True
                        s.env['__cursor_moved'] = True
                out.append(self._after(v, s))
            return out
        if isinstance(stmt, ast.Return):
            if stmt.value is None:
                return [('return', C(None), st)]
            return [('return', v, s) if not s.env.get('__raised') else ('raise', None, s)
                    for v, s in self.ev(stmt.value, st, depth)]
        if isinstance(stmt, ast.Raise):
            return [('raise', None, st)]
        if isinstance(stmt, ast.Break):
            return [('break', None, st)]
        if isinstance(stmt, ast.Continue):
            return [('continue', None, st)]
        if isinstance(stmt, ast.Pass):
            return [('fall', None, st)]
        if isinstance(stmt, ast.If):
            out = []
            for t, s in self.ev(stmt.test, st, depth):
                if s.env.get('__raised'):
                    out.append(('raise', None, s))
                    continue
                tv = truth(t)
                if tv is not False:
                    out.extend(self.run_block(stmt.body, s.copy() if tv is None else s, depth))
                if tv is not True:
                    out.extend(self.run_block(stmt.orelse, s.copy() if tv is None else s, depth))
            return out
        if isinstance(stmt, ast.While):
            return self.run_inner_loop(stmt, st, depth)
        if isinstance(stmt, ast.For):
            # body may raise; we do not rely on it: havoc assigned names
            s = st.copy()
            for n in ast.walk(stmt):
                if isinstance(n, ast.Name) and isinstance(n.ctx, ast.Store):
                    s.env[n.id] = UNK
            return [('fall', None, s)]
        if isinstance(stmt, ast.Try):
            return self.run_block(stmt.body, st, depth)
        if isinstance(stmt, (ast.Assert, ast.Delete, ast.Global, ast.Nonlocal)):
            return [('fall', None, st)]
        raise AnalysisError('charworld: statement %s not supported (line %d)' % (type(stmt).__name__, stmt.lineno))

    def _after(self, v, s):
        if s.env.get('__raised'):
            return ('raise', None, s)
        return ('fall', None, s)

    def assign(self, t, v, s):
        if isinstance(t, ast.Name):
            s.env[t.id] = v
            if t.id == self.cursor:
                s.env['__cursor_moved'] = True if not (is_const(v) and v[1] == 0) else s.env.get('__cursor_moved')
        elif isinstance(t, (ast.Tuple, ast.List)):
            for x in t.elts:
                self.assign(x, UNK, s)

    def run_inner_loop(self, loop, st, depth):
        """a nested loop, summarised soundly: zero iterations unless the test is certainly true; the first iteration is
        interpreted precisely (its break/return/raise states are exact); further iterations havoc what the loop assigns."""
        out = []
        assigned = {n.id for n in ast.walk(loop) if isinstance(n, ast.Name) and isinstance(n.ctx, ast.Store)}
        inc_only = set()
        for name in assigned:
            defs = [x for x in ast.walk(loop) if isinstance(x, (ast.Assign, ast.AugAssign))
                    and any(isinstance(y, ast.Name) and y.id == name
                            for y in ([x.target] if isinstance(x, ast.AugAssign) else x.targets))]
            if defs and all(isinstance(x, ast.AugAssign) and isinstance(x.op, ast.Add) for x in defs):
                inc_only.add(name)
        for t, s in self.ev(loop.test, st, depth):
            tv = truth(t)
            if tv is False:
                out.append(('fall', None, s))
                continue
            if tv is None:
                out.append(('fall', None, s.copy()))       # zero iterations
            for k, v, es in self.run_block(loop.body, s.copy(), depth):
                if k in ('raise', 'return'):
                    out.append((k, v, es))
                elif k == 'break':
                    out.append(('fall', None, es))
                else:
                    # the loop may go round again: everything it assigns becomes unknown
                    h = es.copy()
                    for name in assigned:
                        old = h.env.get(name, UNK)
                        if name in inc_only and (old is POS or (is_const(old) and isinstance(old[1], int) and old[1] >= 1)):
                            h.env[name] = POS
                        else:
                            h.env[name] = UNK
                    h.moved = True
                    if self.cursor in assigned:
                        h.env['__cursor_moved'] = True
                    out.append(('fall', None, h))
        return out


# ------------------------------------------------------------------------------------------------

def representative_chars(repo, modname='scanner'):
    m = repo.modules[modname]
    chars = set('\0')
    for n in ast.walk(m.tree):
        if isinstance(n, ast.Compare):
            for x in [n.left] + list(n.comparators):
                s = A.const_str(x)
                if s is not None:
                    chars.update(s)
                    for ch in s:
                        for d in (-1, 1):
                            o = ord(ch) + d
                            if 0x20 <= o < 0x110000 and not (0xD800 <= o <= 0xDFFF):
                                chars.add(chr(o))
    chars.update(['q', 'Q', '5', '一', '﻿', '\xe9', '\U0001F600'])
    return sorted(chars)


def loop_subject(func, loop):
    """(subject text, cursor name) of a scanning loop, or None if the loop does not look at characters."""
    test = loop.test
    peeks = [c for c in ast.walk(test) if isinstance(c, ast.Call) and isinstance(c.func, ast.Attribute)
             and c.func.attr == 'peek' and isinstance(c.func.value, ast.Name) and c.func.value.id == 'self']
    if peeks:
        p = peeks[0]
        cursor = p.args[0].id if p.args and isinstance(p.args[0], ast.Name) else None
        return norm(p), cursor
    # a character variable assigned from a peek inside the loop (ch = self.peek(length) at the end of the body)
    names = {n.id for n in ast.walk(test) if isinstance(n, ast.Name)}
    for st in ast.walk(loop):
        if isinstance(st, ast.Assign) and len(st.targets) == 1 and isinstance(st.targets[0], ast.Name) \
                and st.targets[0].id in names and isinstance(st.value, ast.Call) \
                and isinstance(st.value.func, ast.Attribute) and st.value.func.attr == 'peek':
            p = st.value
            cursor = p.args[0].id if p.args and isinstance(p.args[0], ast.Name) else None
            return ('var:' + st.targets[0].id + '=' + norm(p)), cursor
    for st in loop.body:
        if isinstance(st, ast.Assign) and isinstance(st.value, ast.Call) and isinstance(st.value.func, ast.Attribute) \
                and st.value.func.attr == 'peek' and st.value.args and isinstance(st.value.args[0], ast.Name):
            return norm(st.value), st.value.args[0].id
    body_peeks = [c for c in ast.walk(loop) if isinstance(c, ast.Call) and isinstance(c.func, ast.Attribute)
                  and c.func.attr in ('peek', 'forward', 'prefix') and isinstance(c.func.value, ast.Name)
                  and c.func.value.id == 'self']
    calls_scanner = [c for c in ast.walk(loop) if isinstance(c, ast.Call) and isinstance(c.func, ast.Attribute)
                     and isinstance(c.func.value, ast.Name) and c.func.value.id == 'self'
                     and c.func.attr.startswith('scan_')]
    if body_peeks or calls_scanner:
        return 'self.peek()', None
    return None


def entry_contexts(repo, cls, func, _depth=0):
    """[{param or '__entrychar': constant}] - what is known on entry to `func` from its call sites: constant arguments
    and the character under the cursor (from the `if ch == K: return self.fetch_X()` dispatch of fetch_more_tokens),
    propagated through callers that do not consume input before the call.  [{}] when nothing is known."""
    if _depth > 4:
        return [{}]
    cache = repo.__dict__.setdefault('_entry_ctx_cache', {})
    ck = (cls.qualname, func.qualname)
    if ck in cache:
        return cache[ck]
    cache[ck] = [{}]          # recursion guard
    out = []
    for g in cls_methods(repo, cls):
        for call in A.func_calls(g.node):
            if not (isinstance(call.func, ast.Attribute) and isinstance(call.func.value, ast.Name)
                    and call.func.value.id == 'self' and call.func.attr == func.name):
                continue
            found = repo.lookup(cls, func.name)
            if found is None or found[1] is not func:
                continue
            # nothing that consumes input may precede the call in the caller
            consumed = False
            for c in A.func_calls(g.node):
                if c.lineno < call.lineno and isinstance(c.func, ast.Attribute) and isinstance(c.func.value, ast.Name) \
                        and c.func.value.id == 'self' and (c.func.attr == 'forward' or c.func.attr.startswith('scan_')):
                    consumed = True
            # dispatch fact: the call sits under `if ch == K` with ch = self.peek()
            fact = {}
            p = call
            while p is not None and p is not g.node:
                par = getattr(p, '_parent', None)
                if isinstance(par, ast.If) and p in par.body:
                    t = par.test
                    for cmp in ([t] + (list(t.values) if isinstance(t, ast.BoolOp) and isinstance(t.op, ast.And) else [])):
                        if isinstance(cmp, ast.Compare) and len(cmp.ops) == 1 and isinstance(cmp.ops[0], ast.Eq) \
                                and isinstance(cmp.left, ast.Name) and isinstance(cmp.comparators[0], ast.Constant):
                            name = cmp.left.id
                            peeks = [a for a in walk_function(g.node)
                                     if isinstance(a, ast.Assign) and norm(a.value) == 'self.peek()'
                                     and any(isinstance(x, ast.Name) and x.id == name for x in a.targets)]
                            if len(peeks) == 1:
                                between = any(
                                    peeks[0].lineno < c.lineno < call.lineno and isinstance(c.func, ast.Attribute)
                                    and isinstance(c.func.value, ast.Name) and c.func.value.id == 'self'
                                    and (c.func.attr == 'forward' or c.func.attr.startswith('scan_'))
                                    for c in A.func_calls(g.node))
                                if not between:
                                    fact['__entrychar'] = cmp.comparators[0].value
                p = par
            callers = entry_contexts(repo, cls, g, _depth + 1) if not fact else [{}]
            params = func.params[1:]
            for cc in callers:
                ctx = dict(fact)
                if '__entrychar' in cc and not consumed and '__entrychar' not in ctx:
                    ctx['__entrychar'] = cc['__entrychar']
                for i, a in enumerate(call.args):
                    if i < len(params):
                        if isinstance(a, ast.Constant):
                            ctx[params[i]] = a.value
                        elif isinstance(a, ast.Name) and a.id in cc:
                            ctx[params[i]] = cc[a.id]
                for kw in call.keywords:
                    if kw.arg and isinstance(kw.value, ast.Constant):
                        ctx[kw.arg] = kw.value.value
                    elif kw.arg and isinstance(kw.value, ast.Name) and kw.value.id in cc:
                        ctx[kw.arg] = cc[kw.value.id]
                if ctx not in out:
                    out.append(ctx)
    cache[ck] = out or [{}]
    return cache[ck]


def cls_methods(repo, cls):
    seen = {}
    for k in cls.mro_classes():
        for name, f in k.methods.items():
            seen.setdefault(name, f)
    return list(seen.values())


def prefix_env(repo, cls, func, loop, context):
    """interpret the statements of `func` that precede `loop` (top level only) under an entry context;
    returns the resulting environment (constants only)."""
    env = {k: C(v) for k, v in context.items() if not k.startswith('__')}
    if loop not in func.node.body:
        return env if context else {}
    entry = context.get('__entrychar')
    it = Interp(repo, cls, entry if entry is not None else '\uffff', 'self.peek()' if entry is not None else '<none>', None)
    st = State(dict(env))
    try:
        for stmt in func.node.body:
            if stmt is loop:
                break
            ends = it.run_stmt(stmt, st, 0)
            falls = [s for k, v, s in ends if k == 'fall']
            if len(falls) != 1:
                # ambiguous prefix: keep only what all alternatives agree on
                if not falls:
                    return {}
                common = dict(falls[0].env)
                for s in falls[1:]:
                    for k in list(common):
                        if s.env.get(k) != common[k]:
                            del common[k]
                st = State(common, moved=any(s.moved for s in falls))
            else:
                st = falls[0]
    except (Budget, AnalysisError):
        return {}
    return {k: v for k, v in st.env.items() if is_const(v) and not k.startswith('__')}


def check_loop(repo, cls, func, loop, chars):
    """-> list of (char, description) for characters on which an iteration can spin; raises Budget on blow-up."""
    subj = loop_subject(func, loop)
    if subj is None:
        return None
    subject, cursor = subj
    var = None
    if subject.startswith('var:'):
        var, subject = subject[4:].split('=', 1)
    spins = []
    contexts = entry_contexts(repo, cls, func)
    envs = []
    for cx in contexts:
        e = prefix_env(repo, cls, func, loop, cx)
        if e not in envs:
            envs.append(e)
    for ch in chars:
      for base_env in envs:
        it = Interp(repo, cls, ch, subject, cursor)
        env = dict(base_env)
        if var:
            env[var] = C(ch)
        if cursor and cursor in env:
            del env[cursor]
        st = State(env)
        # 1. the loop test with the current character = ch
        outcomes = []
        for t, s in it.ev(loop.test, st, 0):
            tv = truth(t)
            if tv is False:
                continue
            ends = it.run_block(loop.body, s.copy(), 0)
            for kind, val, es in ends:
                if kind in ('break', 'return', 'raise'):
                    continue
                if ch == '\0':
                    again = it.ev(loop.test, es.copy(), 0) if not es.progress and not es.moved else [(UNK, es)]
                    if all(truth(t2) is False for t2, s2 in again):
                        continue
                    outcomes.append('iteration continues at the NUL sentinel%s' % (
                        ' after consuming it' if es.progress else ''))
                    continue
                if es.progress:
                    continue
                # the loop variable may have been re-read from a new position
                if var and es.env.get(var, UNK) is UNK and es.env.get('__cursor_moved'):
                    continue
                # back at the loop head with nothing consumed: does the test now end the loop?
                again = it.ev(loop.test, es.copy(), 0)
                if all(truth(t2) is False for t2, s2 in again):
                    continue
                outcomes.append('an iteration can return to the loop head without consuming input')
        if outcomes:
            spins.append((ch, outcomes[0]))
    return spins


def eval_cond(repo, expr, env, cls=None):
    """three-valued value of a condition under an environment of constants: True / False / None."""
    it = Interp(repo, cls, '\uffff', '<none>', None)
    st = State({k: (v if isinstance(v, tuple) else C(v)) for k, v in env.items()})
    res = set()
    try:
        for v, s in it.ev(expr, st, 0):
            res.add(truth(v))
    except Budget:
        return None
    if res == {True}:
        return True
    if res == {False}:
        return False
    return None
