"""Per-universe call resolution with a small abstract-value lattice, flag-constant pruning and
sink detection (DESIGN 3.3; rules R-NO-SINK, R-RETURN-UNIVERSE of C01/C04).

An abstract value is (tags, elem): `tags` what the value itself may be, `elem` the flattened tags of
whatever it may contain.  The interesting tags are

  dyn   an object the *document* selected (result of a name lookup, of calling such an object, ...)
  top   a value the analysis knows nothing about

A call of, a method call on, an item/attribute store on, or arithmetic with a dyn/top value is a
dynamic-call sink.  Everything is flow-insensitive inside a function (join over all
assignments), context-insensitive across functions *within one universe*, and iterated to a
fixed point; branches on parameters whose value set is a constant are pruned.
"""
import ast

from . import astutil as A
from .srcmodel import AnalysisError, ClassInfo, FuncInfo, Ref, attr_chain, norm, walk_function

# ---------------------------------------------------------------------------- abstract values


class AV:
    """tags: what the value may be; elem: what its direct elements may be; deep: anything nested deeper."""
    __slots__ = ('tags', 'elem', 'deep')

    def __init__(self, tags=(), elem=(), deep=()):
        self.tags = frozenset(tags)
        self.elem = frozenset(elem)
        self.deep = frozenset(deep)

    def join(self, other):
        if other is None:
            return self
        return AV(self.tags | other.tags, self.elem | other.elem, self.deep | other.deep)

    def with_tags(self, tags):
        return AV(tags, self.elem, self.deep)

    def __eq__(self, other):
        return isinstance(other, AV) and self.tags == other.tags and self.elem == other.elem \
            and self.deep == other.deep

    def __hash__(self):
        return hash((self.tags, self.elem, self.deep))

    def __repr__(self):
        s = '|'.join(sorted(self.tags)) or 'bottom'
        if self.elem or self.deep:
            s += '<' + '|'.join(sorted(self.elem))
            if self.deep:
                s += ' << ' + '|'.join(sorted(self.deep))
            s += '>'
        return s

    def has(self, *tags):
        return any(t in self.tags for t in tags)

    def everything(self):
        return self.tags | self.elem | self.deep

    def inner(self):
        return self.elem | self.deep

    def element(self):
        """value obtained by indexing / iterating / popping."""
        out = set()
        e = set()
        for t in self.tags:
            if t == 'str':
                out.add('str')
            elif t == 'bytes':
                out.add('int')
            elif t == 'nlist':
                out.update(NODE_KINDS)
            elif t == 'plist':
                out.add('tuple2')
                e.update(NODE_KINDS)
            elif t == 'match':
                out.update(('str', 'none'))
            elif t in ('dyn', 'top', 'lib'):
                out.add(t)
            elif t in NODE_KINDS:
                out.add('lib')
        out |= self.elem
        return AV(out, e | self.deep, self.deep)

    def funcs(self):
        return [t for t in self.tags if t.startswith('func:')]


NODE_KINDS = ('snode', 'qnode', 'mnode')
NODE_CLASS_TAG = {'nodes.ScalarNode': {'snode'}, 'nodes.SequenceNode': {'qnode'}, 'nodes.MappingNode': {'mnode'},
                  'nodes.CollectionNode': {'qnode', 'mnode'}, 'nodes.Node': set(NODE_KINDS)}
BOTTOM = AV()
CONTAINERS = {'list', 'dict', 'set', 'tuple', 'tuple2', 'frozenset', 'gen', 'regdict'}
T = lambda *tags: AV(tags)   # noqa: E731


def const_av(v):
    if v is None:
        return T('none')
    if v is True:
        return T('true')
    if v is False:
        return T('false')
    if isinstance(v, int):
        return T('int')
    if isinstance(v, float):
        return T('float')
    if isinstance(v, complex):
        return T('complex')
    if isinstance(v, str):
        return T('str')
    if isinstance(v, bytes):
        return T('bytes')
    if v is Ellipsis:
        return T('lib')
    return T('top')


def truth(av):
    if not av.tags:
        return None
    if av.tags <= {'false', 'none'}:
        return False
    if av.tags <= {'true'}:
        return True
    return None


# methods of builtin types: result tag (None = same container kind with same elem)
STR_METHODS = {
    'replace': 'str', 'lower': 'str', 'upper': 'str', 'strip': 'str', 'lstrip': 'str', 'rstrip': 'str',
    'title': 'str', 'capitalize': 'str', 'casefold': 'str', 'swapcase': 'str', 'format': 'str', 'join': 'str',
    'zfill': 'str', 'ljust': 'str', 'rjust': 'str', 'center': 'str', 'expandtabs': 'str', 'translate': 'str',
    'removeprefix': 'str', 'removesuffix': 'str',
    'startswith': 'bool', 'endswith': 'bool', 'isdigit': 'bool', 'isalpha': 'bool', 'isalnum': 'bool',
    'isspace': 'bool', 'islower': 'bool', 'isupper': 'bool', 'isidentifier': 'bool', 'isdecimal': 'bool',
    'isnumeric': 'bool', 'isascii': 'bool', 'isprintable': 'bool', 'istitle': 'bool',
    'find': 'int', 'rfind': 'int', 'index': 'int', 'rindex': 'int', 'count': 'int',
    'split': 'list<str>', 'rsplit': 'list<str>', 'splitlines': 'list<str>', 'partition': 'tuple<str>',
    'rpartition': 'tuple<str>', 'encode': 'bytes',
}
BYTES_METHODS = {'decode': 'str', 'startswith': 'bool', 'endswith': 'bool', 'hex': 'str', 'strip': 'bytes',
                 'replace': 'bytes', 'split': 'list<bytes>', 'find': 'int', 'count': 'int', 'join': 'bytes',
                 'lower': 'bytes', 'upper': 'bytes'}
LIST_METHODS = {'append': 'none', 'extend': 'none', 'insert': 'none', 'remove': 'none', 'clear': 'none',
                'sort': 'none', 'reverse': 'none', 'pop': 'elem', 'index': 'int', 'count': 'int', 'copy': 'same'}
DICT_METHODS = {'get': 'elem+', 'setdefault': 'elem+', 'pop': 'elem+', 'popitem': 'tuple', 'update': 'none',
                'clear': 'none', 'keys': 'list', 'values': 'list', 'items': 'items', 'copy': 'same'}
SET_METHODS = {'add': 'none', 'update': 'none', 'discard': 'none', 'remove': 'none', 'clear': 'none',
               'pop': 'elem', 'copy': 'same', 'union': 'same', 'intersection': 'same', 'difference': 'same',
               'issubset': 'bool', 'issuperset': 'bool', 'isdisjoint': 'bool',
               'difference_update': 'none', 'intersection_update': 'none'}
TUPLE_METHODS = {'index': 'int', 'count': 'int'}
INT_METHODS = {'bit_length': 'int', 'to_bytes': 'bytes', 'is_integer': 'bool', 'conjugate': 'same',
               'hex': 'str', 'as_integer_ratio': 'tuple'}
MATCH_METHODS = {'group': 'str|none', 'groups': 'tuple<str|none>', 'groupdict': 'dict<str|none>',
                 'start': 'int', 'end': 'int', 'span': 'tuple<int>', 'expand': 'str'}
REGEX_METHODS = {'match': 'match|none', 'search': 'match|none', 'fullmatch': 'match|none',
                 'sub': 'str', 'subn': 'tuple<str|int>', 'split': 'list<str>', 'findall': 'list<str>',
                 'finditer': 'list<match>'}
DATE_METHODS = {'isoformat': 'str', 'replace': 'same', 'strftime': 'str', 'utcoffset': 'timedelta|none',
                'timetuple': 'tuple<int>', 'toordinal': 'int', 'weekday': 'int', 'date': 'date',
                'astimezone': 'same', 'total_seconds': 'float', 'tzname': 'str|none'}
GEN_METHODS = {'close': 'none'}
NODE_ATTRS = {'tag': 'str', 'start_mark': 'lib|none', 'end_mark': 'lib|none',
              'id': 'str', 'style': 'str|none', 'flow_style': 'bool|none'}
NODE_VALUE = {'snode': 'str', 'qnode': 'nlist', 'mnode': 'plist'}


ISINSTANCE_TAGS = {
    'types.GeneratorType': {'gen'}, 'builtins.str': {'str'}, 'builtins.bytes': {'bytes'},
    'builtins.int': {'int', 'true', 'false', 'bool'}, 'builtins.float': {'float'},
    'builtins.bool': {'true', 'false', 'bool'}, 'builtins.list': {'list'}, 'builtins.dict': {'dict'},
    'builtins.set': {'set'}, 'builtins.tuple': {'tuple', 'tuple2'}, 'builtins.complex': {'complex'},
}


def NODE():
    return AV(NODE_KINDS)

METHOD_TABLES = {
    'str': STR_METHODS, 'bytes': BYTES_METHODS, 'list': LIST_METHODS, 'dict': DICT_METHODS, 'set': SET_METHODS,
    'frozenset': SET_METHODS, 'tuple': TUPLE_METHODS, 'tuple2': TUPLE_METHODS, 'int': INT_METHODS,
    'float': INT_METHODS, 'complex': INT_METHODS, 'true': INT_METHODS, 'false': INT_METHODS, 'bool': INT_METHODS,
    'match': MATCH_METHODS, 'regex': REGEX_METHODS, 'date': DATE_METHODS, 'datetime': DATE_METHODS,
    'timedelta': DATE_METHODS, 'tzinfo': DATE_METHODS, 'gen': GEN_METHODS, 'nlist': LIST_METHODS,
    'plist': LIST_METHODS, 'regdict': DICT_METHODS,
}


def parse_spec(spec, recv=None):
    """'list<str>' / 'str|none' / 'elem' / 'same' -> AV."""
    if spec == 'same':
        return recv
    if spec == 'elem':
        return recv.element()
    if spec == 'elem+':
        return recv.element()
    if '<' in spec:
        head, rest = spec.split('<', 1)
        return AV(head.split('|'), rest.rstrip('>').split('|'))
    if spec in ('list', 'tuple') and recv is not None:
        return AV([spec], recv.elem, recv.deep)
    if spec == 'items' and recv is not None:
        return AV(['list'], ['tuple2'], recv.inner())
    return AV(spec.split('|'))


# builtins and stdlib callables: name -> result spec.  Pure = cannot run document-selected code.
PURE_BUILTINS = {
    'int': 'int', 'float': 'float', 'complex': 'complex', 'str': 'str', 'repr': 'str', 'bytes': 'bytes',
    'bytearray': 'bytes', 'bool': 'bool', 'len': 'int', 'ord': 'int', 'chr': 'str', 'abs': 'int|float',
    'isinstance': 'bool', 'issubclass': 'bool', 'callable': 'bool', 'id': 'int', 'hash': 'int',
    'range': 'list<int>', 'divmod': 'tuple<int>', 'pow': 'int|float', 'round': 'int|float',
    'format': 'str', 'ascii': 'str', 'hex': 'str', 'oct': 'str', 'bin': 'str', 'print': 'none',
    'min': 'elemof', 'max': 'elemof', 'sum': 'int|float', 'any': 'bool', 'all': 'bool',
    'list': 'list*', 'tuple': 'tuple*', 'set': 'set*', 'frozenset': 'frozenset*', 'dict': 'dict*',
    'sorted': 'list*', 'reversed': 'list*', 'enumerate': 'list*+int', 'zip': 'list*+tuple', 'iter': 'gen*',
    'next': 'elemof', 'type': 'lib', 'object': 'lib', 'super': 'lib', 'slice': 'lib', 'map': 'top', 'filter': 'list*',
    'NotImplementedError': 'exc', 'ValueError': 'exc', 'TypeError': 'exc', 'KeyError': 'exc', 'IndexError': 'exc',
    'AttributeError': 'exc', 'RuntimeError': 'exc', 'StopIteration': 'exc', 'Exception': 'exc',
    'OverflowError': 'exc', 'UnicodeDecodeError': 'exc', 'UnicodeEncodeError': 'exc', 'AssertionError': 'exc',
    'MemoryError': 'exc', 'ImportError': 'exc', 'OSError': 'exc', 'LookupError': 'exc', 'ArithmeticError': 'exc',
}
SINK_BUILTINS = {
    '__import__': 'S-import', 'eval': 'S-import', 'exec': 'S-import', 'compile': 'S-import',
    'execfile': 'S-import', 'open': 'S-import', 'input': 'S-import', 'breakpoint': 'S-import',
    'getattr': 'S-lookup', 'globals': 'S-lookup', 'locals': 'S-lookup', 'vars': 'S-lookup', 'dir': 'S-lookup',
    'setattr': 'S-mutate', 'delattr': 'S-mutate',
}
PURE_EXT = {
    'datetime.date': 'date', 'datetime.datetime': 'datetime', 'datetime.timedelta': 'timedelta',
    'datetime.timezone': 'tzinfo', 'datetime.time': 'date',
    'base64.decodebytes': 'bytes', 'base64.decodestring': 'bytes', 'base64.encodebytes': 'bytes',
    'base64.encodestring': 'bytes', 'base64.b64decode': 'bytes', 'base64.b64encode': 'bytes',
    'base64.standard_b64decode': 'bytes', 'binascii.a2b_base64': 'bytes', 'binascii.b2a_base64': 'bytes',
    're.compile': 'regex', 're.match': 'match|none', 're.search': 'match|none', 're.fullmatch': 'match|none',
    're.sub': 'str', 're.split': 'list<str>', 're.findall': 'list<str>', 're.escape': 'str',
    'codecs.utf_8_decode': 'tuple<str|int>', 'codecs.utf_16_le_decode': 'tuple<str|int>',
    'codecs.utf_16_be_decode': 'tuple<str|int>', 'codecs.lookup': 'lib',
    'math.isnan': 'bool', 'math.isinf': 'bool', 'math.copysign': 'float', 'math.floor': 'int',
    'math.ceil': 'int', 'math.fabs': 'float', 'math.pow': 'float', 'math.isfinite': 'bool',
    'collections.OrderedDict': 'dict*', 'collections.deque': 'list*', 'collections.defaultdict': 'dict*',
    'io.StringIO': 'lib', 'io.BytesIO': 'lib', 'copy.copy': 'arg0', 'copy.deepcopy': 'arg0',
    'string.capwords': 'str', 'unicodedata.normalize': 'str', 'unicodedata.category': 'str',
    'decimal.Decimal': 'float', 'fractions.Fraction': 'float', 'itertools.chain': 'list*',
    'functools.reduce': 'top', 'sys.exc_info': 'tuple<lib>', 'sys.getrecursionlimit': 'int',
    'types.GeneratorType': 'lib',
}
PURE_EXT_ATTRS = {
    'datetime.timezone.utc': 'tzinfo', 'types.GeneratorType': 'lib', 'collections.abc.Hashable': 'lib',
    'sys.maxsize': 'int', 'sys.maxunicode': 'int', 'sys.version_info': 'tuple<int>',
    'codecs.BOM_UTF16_LE': 'bytes', 'codecs.BOM_UTF16_BE': 'bytes', 'codecs.BOM_UTF8': 'bytes',
    'codecs.utf_8_decode': 'lib', 'codecs.utf_16_le_decode': 'lib', 'codecs.utf_16_be_decode': 'lib',
    'collections.abc.Mapping': 'lib', 'collections.abc.Sequence': 'lib', 'collections.abc.Set': 'lib',
    'types.FunctionType': 'lib', 'types.BuiltinFunctionType': 'lib', 'types.ModuleType': 'lib',
}
SINK_EXT_PREFIX = {
    'importlib': 'S-import', 'imp': 'S-import', 'pkgutil': 'S-import', 'runpy': 'S-import',
    'pickle': 'S-import', 'marshal': 'S-import', 'shelve': 'S-import', 'os': 'S-import',
    'subprocess': 'S-import', 'ctypes': 'S-import', 'builtins': 'S-lookup', 'inspect': 'S-lookup',
    'operator.attrgetter': 'S-lookup', 'operator.methodcaller': 'S-dyncall', 'sys.modules': 'S-lookup',
    'sys.setprofile': 'S-import', 'sys.settrace': 'S-import', 'gc': 'S-lookup', 'socket': 'S-import',
    'code': 'S-import', 'codeop': 'S-import', 'zipimport': 'S-import', 'copyreg': 'S-lookup',
    'warnings': 'S-import',      # showing a warning imports linecache / tokenize the first time

    'functools.partial': 'S-dyncall', 'types.FunctionType': 'S-dyncall', 'types.CodeType': 'S-dyncall',
    'weakref': 'S-lookup',
}


class Sink:
    def __init__(self, kind, func, node, why):
        self.kind = kind
        self.func = func
        self.node = node
        self.why = why
        self.text = norm(node).split('\n')[0][:90]

    def key(self):
        return '%s|%s|%s' % (self.kind, self.func.qualname, self.text)

    def __repr__(self):
        return 'Sink(%s %s:%d %s)' % (self.kind, self.func.qualname, self.node.lineno, self.text)


class Summary:
    def __init__(self, func):
        self.func = func
        self.params = {}      # name -> AV
        self.ret = BOTTOM
        self.yields = BOTTOM
        self.first_yield = BOTTOM
        self.parent = None    # (caller FuncInfo, call node) for chains
        self.analysed = False


class Universe:
    """Analysis of one concrete loader class."""

    def __init__(self, repo, cls, regmodel, family_root='constructor.BaseConstructor'):
        self.repo = repo
        self.cls = cls
        self.rm = regmodel
        self.family = repo.cls(family_root)
        self.summaries = {}
        self.inst = {}            # instance attribute name -> AV (field based)
        self.sinks = {}
        self.unfollowed = {}      # calls into functions outside the family (qualname -> count)
        self.notes = []
        self.worklist = []
        self.call_sites = 0
        self.resolved_sites = 0
        self.constructed = BOTTOM   # join of the values table functions construct
        self.table_funcs = {}     # FuncInfo -> [(reg, key)]
        self.changed = False

    # -- plumbing --------------------------------------------------------
    def summary(self, func):
        s = self.summaries.get(func)
        if s is None:
            s = self.summaries[func] = Summary(func)
        return s

    def in_family(self, func):
        return func.cls is not None and func.cls.is_subclass_of(self.family)

    def add_root(self, func, params, why):
        s = self.summary(func)
        params = dict(params)
        for p, d in func.defaults().items():
            if p not in params:
                cv = A.const_value(d)
                params[p] = const_av(cv) if cv is not NotImplemented else T('lib')
        for k, v in params.items():
            old = s.params.get(k, BOTTOM)
            s.params[k] = old.join(v)
        if s.parent is None:
            s.parent = ('root', why)
        if func not in self.worklist:
            self.worklist.append(func)

    def run(self):
        rounds = 0
        while True:
            rounds += 1
            if rounds > 60:
                raise AnalysisError('abstract interpretation of %s did not converge' % self.cls.qualname)
            self.changed = False
            todo = list(self.summaries)
            for f in todo:
                FuncAnalysis(self, f).run()
            self._update_constructed()
            if not self.changed:
                break
        return self

    def _update_constructed(self):
        av = BOTTOM
        for f in self.table_funcs:
            s = self.summary(f)
            av = av.join(self.constructed_value(f))
        if av != self.constructed:
            self.constructed = av
            self.changed = True

    def constructed_value(self, f):
        s = self.summary(f)
        if f.is_generator:
            return s.first_yield
        return s.ret

    def note_sink(self, sink):
        if sink.key() not in self.sinks:
            self.sinks[sink.key()] = sink

    def chain(self, func):
        out = []
        seen = set()
        f = func
        while f is not None and f not in seen:
            seen.add(f)
            s = self.summaries.get(f)
            if s is None or s.parent is None:
                out.append(f.qualname)
                break
            if s.parent[0] == 'root':
                out.append('%s [%s]' % (f.qualname, s.parent[1]))
                break
            out.append(f.qualname)
            f = s.parent[0]
        return list(reversed(out))

    def registry_av(self, name):
        tbl = self.rm.heap.table(self.cls, name)
        elem = set()
        for k, v in tbl.items():
            vals = v if isinstance(v, list) else [v]
            for x in vals:
                if isinstance(x, FuncInfo):
                    elem.add('func:' + x.qualname)
                elif isinstance(x, tuple):
                    elem.update(('tuple2', 'str', 'regex'))
                else:
                    elem.add('str')
        # 'regdict': a dict whose keys are tags/types (str|none) and whose values are `elem`
        return AV({'regdict'}, elem)


class FuncAnalysis:
    """Flow-sensitive abstract interpretation of one function body (join at merges, loops iterated
    to a local fixed point, unreachable code after return/raise/continue/break skipped)."""

    def __init__(self, uni, func):
        self.u = uni
        self.f = func
        self.repo = uni.repo
        self.s = uni.summary(func)
        self.env = {}
        self.first_yield_done = False
        self.loop_exits = []

    # -- driver ----------------------------------------------------------
    def run(self):
        f = self.f
        params = f.params
        a = f.node.args
        self.env = {}
        for i, p in enumerate(params):
            if i == 0 and f.cls is not None and not f.is_staticmethod:
                self.env[p] = T('cls') if f.is_classmethod else T('self')
                continue
            av = self.s.params.get(p)
            if av is None:
                av = T('top')
            self.env[p] = av
        for p in a.kwonlyargs:
            self.env[p.arg] = self.s.params.get(p.arg, T('top'))
        if a.vararg:
            self.env[a.vararg.arg] = AV({'tuple'}, {'top'}, {'top'})
        if a.kwarg:
            self.env[a.kwarg.arg] = AV({'dict'}, {'top', 'str'}, {'top'})
        self.ret = BOTTOM
        self.yields = BOTTOM
        self.first_yield = BOTTOM
        self.first_yield_done = False
        self.first_yield_name = None
        self.block(f.node.body)
        if self.env is not None and not f.is_generator:
            self.ret = self.ret.join(T('none'))
        if f.is_generator and self.first_yield_name and self.env is not None:
            # the yielded container is filled after the yield: take its final abstract value
            fin = self.env.get(self.first_yield_name)
            if fin is not None:
                self.first_yield = self.first_yield.join(fin)
                self.yields = self.yields.join(fin)
        s = self.s
        nr, ny, nf = s.ret.join(self.ret), s.yields.join(self.yields), s.first_yield.join(self.first_yield)
        if nr != s.ret or ny != s.yields or nf != s.first_yield or not s.analysed:
            s.ret, s.yields, s.first_yield = nr, ny, nf
            s.analysed = True
            self.u.changed = True

    def bind(self, name, av):
        self.env[name] = av

    @staticmethod
    def join_env(a, b):
        if a is None:
            return None if b is None else dict(b)
        if b is None:
            return dict(a)
        out = {}
        for k in set(a) | set(b):
            x, y = a.get(k), b.get(k)
            if x is None:
                out[k] = y
            elif y is None:
                out[k] = x
            else:
                out[k] = x.join(y)
        return out

    # -- statements --------------------------------------------------------
    def block(self, stmts):
        for st in stmts:
            if self.env is None:
                return
            self.stmt(st)

    def facts(self, test):
        """[(name, tags, positive)]: on the positive branch `name` has only `tags` (of the refinable tags),
        on the other branch it has none of them.  Only conjunction-free tests."""
        inner, pos = A.strip_not(test)
        if isinstance(inner, ast.Call) and norm(inner.func) == 'isinstance' and len(inner.args) == 2 \
                and isinstance(inner.args[0], ast.Name):
            classes = inner.args[1].elts if isinstance(inner.args[1], ast.Tuple) else [inner.args[1]]
            kinds = set()
            for c in classes:
                r = self.repo.resolve_expr(self.f.module, c)
                if r is not None and r.kind == 'class' and r.obj.qualname in NODE_CLASS_TAG:
                    kinds |= NODE_CLASS_TAG[r.obj.qualname]
                elif r is not None and r.kind == 'ext' and r.obj in ISINSTANCE_TAGS:
                    kinds |= ISINSTANCE_TAGS[r.obj]
                else:
                    return None
            return inner.args[0].id, kinds, pos
        if isinstance(inner, ast.Compare) and len(inner.ops) == 1 and isinstance(inner.left, ast.Name) \
                and isinstance(inner.comparators[0], ast.Constant) and inner.comparators[0].value is None:
            if isinstance(inner.ops[0], ast.Is):
                return inner.left.id, {'none'}, pos
            if isinstance(inner.ops[0], ast.IsNot):
                return inner.left.id, {'none'}, not pos
        if isinstance(inner, ast.Name):
            # truthiness: the false branch keeps only falsy things; the true branch drops none/false
            return inner.id, {'none', 'false'}, not pos
        return None

    def apply_fact(self, fact, branch_taken):
        if self.env is None:
            return
        name, kinds, pos = fact
        cur = self.env.get(name)
        if cur is None:
            return
        if pos == branch_taken:
            if kinds == {'gen'}:
                # GeneratorType cannot be subclassed: whatever it was, here it is a real generator
                self.env[name] = cur.with_tags({'gen'})
                return
            if kinds <= {'none', 'false'}:
                # falsy branch of a truthiness test: other falsy values (0, '', []) remain possible
                if kinds == {'none'}:
                    self.env[name] = AV({'none'})
                return
            if kinds <= set(NODE_KINDS):
                # an instance of a library node class, whatever we believed before
                if cur.tags & {'top', 'dyn', 'lib'}:
                    keep = set(kinds)
                else:
                    keep = {t for t in cur.tags if t in kinds}
            else:
                keep = {t for t in cur.tags if t in kinds or t in ('top', 'dyn', 'lib')}
            self.env[name] = cur.with_tags(keep)
        else:
            self.env[name] = cur.with_tags({t for t in cur.tags if t not in kinds})

    def stmt(self, st):
        if isinstance(st, ast.Assign):
            v = self.ev(st.value)
            for t in st.targets:
                self.assign(t, v, st.value)
        elif isinstance(st, ast.AnnAssign):
            if st.value is not None:
                self.assign(st.target, self.ev(st.value), st.value)
        elif isinstance(st, ast.AugAssign):
            cur = self.ev(_load(st.target))
            v = self.binop(cur, self.ev(st.value), st)
            if isinstance(st.target, ast.Name) and cur.tags & {'list', 'set', 'dict'}:
                v = AV(cur.tags, v.elem | cur.elem, v.deep | cur.deep)
            self.assign(st.target, v, st.value)
        elif isinstance(st, ast.Expr):
            self.ev(st.value)
        elif isinstance(st, ast.Return):
            if st.value is not None:
                self.ret = self.ret.join(self.ev(st.value))
            else:
                self.ret = self.ret.join(T('none'))
            if self.f.is_generator and getattr(self, 'first_yield_name', None):
                fin = self.env.get(self.first_yield_name)
                if fin is not None:
                    self.first_yield = self.first_yield.join(fin)
                    self.yields = self.yields.join(fin)
            self.env = None
        elif isinstance(st, ast.If):
            t = self.test(st.test)
            fact = self.facts(st.test)
            before = self.env
            env_t = env_f = None
            if t is not False:
                self.env = dict(before)
                if fact:
                    self.apply_fact(fact, True)
                self.block(st.body)
                env_t = self.env
            if t is not True:
                self.env = dict(before)
                if fact:
                    self.apply_fact(fact, False)
                self.block(st.orelse)
                env_f = self.env
            self.env = self.join_env(env_t, env_f)
        elif isinstance(st, (ast.While, ast.For, ast.AsyncFor)):
            self.loop(st)
        elif isinstance(st, ast.Try):
            before = dict(self.env)
            self.block(st.body)
            after_body = self.env
            if after_body is not None:
                self.block(st.orelse)
            normal = self.env
            outs = [normal]
            for h in st.handlers:
                self.env = self.join_env(before, after_body)
                if h.type is not None:
                    self.ev(h.type)
                if h.name:
                    self.bind(h.name, T('exc'))
                self.block(h.body)
                outs.append(self.env)
            env = None
            for o in outs:
                env = self.join_env(env, o)
            self.env = env
            if st.finalbody:
                if self.env is None:
                    # the finally block still runs (on the exceptional / returning path)
                    self.env = self.join_env(before, after_body)
                    self.block(st.finalbody)
                    self.env = None
                else:
                    self.block(st.finalbody)
        elif isinstance(st, (ast.With, ast.AsyncWith)):
            for it in st.items:
                v = self.ev(it.context_expr)
                if v.has('dyn', 'top'):
                    self.sink('S-dyncall', it.context_expr, 'context manager protocol on a document-selected object')
                if it.optional_vars is not None:
                    self.assign(it.optional_vars, T('top'), None)
            self.block(st.body)
        elif isinstance(st, ast.Raise):
            if st.exc is not None:
                self.ev(st.exc)
            if st.cause is not None:
                self.ev(st.cause)
            self.env = None
        elif isinstance(st, ast.Assert):
            self.ev(st.test)
            fact = self.facts(st.test)
            if fact:
                self.apply_fact(fact, True)
        elif isinstance(st, ast.Delete):
            for t in st.targets:
                if isinstance(t, ast.Subscript):
                    r = self.ev(t.value)
                    self.ev(t.slice)
                    if r.has('dyn', 'top'):
                        self.sink('S-dyncall', t, 'item deletion on a document-selected object')
                elif isinstance(t, ast.Attribute):
                    r = self.ev(t.value)
                    if r.has('dyn', 'top'):
                        self.sink('S-mutate', t, 'attribute deletion on a document-selected object')
                elif isinstance(t, ast.Name):
                    self.env.pop(t.id, None)
        elif isinstance(st, (ast.Import, ast.ImportFrom)):
            self.sink('S-import', st, 'import statement inside a function reachable from the loader')
        elif isinstance(st, (ast.FunctionDef, ast.AsyncFunctionDef, ast.ClassDef)):
            self.bind(st.name, T('top'))
        elif isinstance(st, (ast.Break, ast.Continue)):
            self.loop_exits.append(self.env)
            self.env = None
        elif isinstance(st, (ast.Pass, ast.Global, ast.Nonlocal)):
            pass
        else:
            raise AnalysisError('%s: statement %s not supported by the abstract interpreter'
                                % (self.f.loc(st), type(st).__name__))

    def loop(self, st):
        head = dict(self.env)
        saved_exits = self.loop_exits
        out_env = None
        for _ in range(12):
            self.loop_exits = []
            self.env = dict(head)
            t = None
            fact = None
            if isinstance(st, ast.While):
                t = self.test(st.test)
                fact = self.facts(st.test)
                exit_env = dict(self.env)
                if fact:
                    saved = self.env
                    self.env = exit_env
                    self.apply_fact(fact, False)
                    exit_env = self.env
                    self.env = saved
                    self.apply_fact(fact, True)
                if t is True and not (isinstance(st.test, ast.Constant)):
                    exit_env = dict(self.env)
                if isinstance(st.test, ast.Constant) and bool(st.test.value):
                    exit_env = None
            else:
                it = self.ev(st.iter)
                self.iter_sink(it, st.iter)
                exit_env = dict(self.env)
                el = it.element()
                if it.tags == {'regdict'}:
                    el = AV({'str', 'none'}) if it.elem else BOTTOM     # iterating a registry yields its keys
                if not el.tags and it.tags and it.tags <= CONTAINERS:
                    t = False          # provably empty container: the body never runs
                else:
                    self.assign(st.target, el, None)
            if t is not False:
                self.block(st.body)
            else:
                self.env = None
            body_end = self.env
            for e in self.loop_exits:
                body_end_or_exit = e
                out_env = self.join_env(out_env, body_end_or_exit)
            new_head = self.join_env(head, body_end)
            # continue statements also flow back to the head; loop_exits holds both break and continue envs
            for e in self.loop_exits:
                new_head = self.join_env(new_head, e)
            out_env = self.join_env(out_env, exit_env)
            if new_head == head:
                break
            head = new_head
        self.loop_exits = saved_exits
        self.env = out_env
        if self.env is not None and st.orelse:
            self.block(st.orelse)

    def assign(self, target, av, value_node):
        if isinstance(target, ast.Name):
            self.bind(target.id, av)
        elif isinstance(target, (ast.Tuple, ast.List)):
            if isinstance(value_node, (ast.Tuple, ast.List)) and len(value_node.elts) == len(target.elts):
                vals = [self.ev(v) for v in value_node.elts]
                for t, v, vn in zip(target.elts, vals, value_node.elts):
                    self.assign(t, v, vn)
            else:
                self.iter_sink(av, value_node or target)
                for t in target.elts:
                    if isinstance(t, ast.Starred):
                        self.assign(t.value, AV({'list'}, av.element().tags, av.inner()), None)
                    else:
                        self.assign(t, av.element(), None)
        elif isinstance(target, ast.Attribute):
            r = self.ev(target.value)
            if r.has('self', 'cls'):
                old = self.u.inst.get(target.attr, BOTTOM)
                new = old.join(av)
                if new != old:
                    self.u.inst[target.attr] = new
                    self.u.changed = True
            elif r.has('dyn', 'top'):
                self.sink('S-mutate', target, 'attribute store on a document-selected object')
        elif isinstance(target, ast.Subscript):
            r = self.ev(target.value)
            kv = self.ev(target.slice)
            if r.has('dyn', 'top'):
                self.sink('S-dyncall', target, 'item store on a document-selected object (calls its __setitem__)')
            self.store_elem(target.value, av)
            if r.has('dict') and not isinstance(target.slice, ast.Slice):
                # the key becomes part of the dict as well: its type belongs to what the container holds
                self.store_elem(target.value, kv)
        elif isinstance(target, ast.Starred):
            self.assign(target.value, av, None)

    def store_elem(self, container_expr, av):
        """container[...] = av / container.append(av): widen the container's elem."""
        if isinstance(container_expr, ast.Name):
            cur = self.env.get(container_expr.id, BOTTOM)
            self.env[container_expr.id] = AV(cur.tags, cur.elem | av.tags, cur.deep | av.inner())
        elif isinstance(container_expr, ast.Attribute):
            r = self.ev(container_expr.value)
            if r.has('self', 'cls'):
                old = self.u.inst.get(container_expr.attr, BOTTOM)
                new = AV(old.tags, old.elem | av.tags, old.deep | av.inner())
                if new != old:
                    self.u.inst[container_expr.attr] = new
                    self.u.changed = True

    # -- tests -------------------------------------------------------------
    def test(self, e):
        """three-valued truth of a branch condition (None = unknown); also evaluates it for sinks."""
        if isinstance(e, ast.UnaryOp) and isinstance(e.op, ast.Not):
            t = self.test(e.operand)
            return None if t is None else (not t)
        if isinstance(e, ast.BoolOp):
            vals = [self.test(v) for v in e.values]
            if isinstance(e.op, ast.And):
                if any(v is False for v in vals):
                    return False
                if all(v is True for v in vals):
                    return True
                return None
            if any(v is True for v in vals):
                return True
            if all(v is False for v in vals):
                return False
            return None
        av = self.ev(e)
        if av.has('dyn') and not isinstance(e, (ast.Compare, ast.Constant)):
            self.sink('S-dyncall', e, 'truth test of a document-selected object (calls its __bool__ / __len__)')
        if isinstance(e, ast.Name):
            return truth(av)
        if isinstance(e, ast.Constant):
            return bool(e.value)
        if isinstance(e, ast.Compare) and len(e.ops) == 1 and isinstance(e.left, ast.Name) \
                and isinstance(e.comparators[0], ast.Constant) and e.comparators[0].value is None \
                and isinstance(e.ops[0], (ast.Is, ast.IsNot)):
            l = self.env.get(e.left.id, BOTTOM)
            if l.tags and l.tags <= {'none'}:
                return isinstance(e.ops[0], ast.Is)
            if l.tags and 'none' not in l.tags and not l.has('top', 'dyn', 'lib'):
                return isinstance(e.ops[0], ast.IsNot)
        return None

    # -- sinks -----------------------------------------------------------------
    def sink(self, kind, node, why):
        self.u.note_sink(Sink(kind, self.f, node, why))

    def iter_sink(self, av, node):
        if av.has('dyn'):
            self.sink('S-dyncall', node, 'iteration over a document-selected object (calls its __iter__)')

    # -- expressions -------------------------------------------------------------
    def ev(self, e):
        m = getattr(self, 'ev_' + type(e).__name__, None)
        if m is None:
            for c in ast.iter_child_nodes(e):
                if isinstance(c, ast.expr):
                    self.ev(c)
            return T('top')
        return m(e)

    def ev_Constant(self, e):
        return const_av(e.value)

    def ev_Name(self, e):
        if e.id in self.env:
            return self.env[e.id]
        r = self.repo.resolve_name(self.f.module, e.id)
        return self.ref_av(r, e)

    def ref_av(self, r, e):
        if r is None:
            return T('top')
        if r.kind == 'class':
            return T('class:' + r.obj.qualname)
        if r.kind == 'func':
            return T('func:' + r.obj.qualname)
        if r.kind == 'module':
            return T('module:' + r.obj.name)
        if r.kind == 'ext':
            spec = PURE_EXT_ATTRS.get(r.obj)
            if spec:
                return parse_spec(spec)
            return T('ext:' + r.obj)
        if r.kind == 'value':
            node = r.obj
            if isinstance(node, list):
                node = node[-1]
            v = A.const_value(node)
            if v is not NotImplemented:
                return self.literal_av(v)
            return T('lib')
        return T('top')

    def literal_av(self, v):
        if isinstance(v, (list, tuple, set, frozenset)):
            el, dp = set(), set()
            for x in v:
                a = self.literal_av(x)
                el |= a.tags
                dp |= a.inner()
            kind = {list: 'list', tuple: 'tuple', set: 'set', frozenset: 'frozenset'}[type(v)]
            return AV({kind}, el, dp)
        if isinstance(v, dict):
            el, dp = set(), set()
            for k, x in v.items():
                for a in (self.literal_av(k), self.literal_av(x)):
                    el |= a.tags
                    dp |= a.inner()
            return AV({'dict'}, el, dp)
        return const_av(v)

    def ev_JoinedStr(self, e):
        for v in e.values:
            if isinstance(v, ast.FormattedValue):
                x = self.ev(v.value)
                if x.has('dyn'):
                    self.sink('S-dyncall', v.value, 'formatting a document-selected object (calls its __format__)')
        return T('str')

    def ev_FormattedValue(self, e):
        self.ev(e.value)
        return T('str')

    def ev_List(self, e):
        return self._display('list', e.elts)

    def ev_Set(self, e):
        return self._display('set', e.elts)

    def ev_Tuple(self, e):
        kind = 'tuple2' if len(e.elts) == 2 and not any(isinstance(x, ast.Starred) for x in e.elts) else 'tuple'
        return self._display(kind, e.elts)

    def _display(self, kind, elts):
        el, dp = set(), set()
        for x in elts:
            if isinstance(x, ast.Starred):
                a = self.ev(x.value)
                self.iter_sink(a, x.value)
                a = a.element()
            else:
                a = self.ev(x)
            el |= a.tags
            dp |= a.inner()
        return AV({kind}, el, dp)

    def ev_Dict(self, e):
        el, dp = set(), set()
        for k, v in zip(e.keys, e.values):
            if k is None:
                a = self.ev(v)
                el |= a.elem
                dp |= a.deep
                continue
            for a in (self.ev(k), self.ev(v)):
                el |= a.tags
                dp |= a.inner()
        return AV({'dict'}, el, dp)

    def _comp(self, e, kind, elts):
        saved = dict(self.env)
        for g in e.generators:
            it = self.ev(g.iter)
            self.iter_sink(it, g.iter)
            self.assign(g.target, it.element(), None)
            for c in g.ifs:
                self.ev(c)
        el, dp = set(), set()
        for x in elts:
            a = self.ev(x)
            el |= a.tags
            dp |= a.inner()
        # comprehension variables are local to it
        self.env = saved
        return AV({kind}, el, dp)

    def ev_ListComp(self, e):
        return self._comp(e, 'list', [e.elt])

    def ev_SetComp(self, e):
        return self._comp(e, 'set', [e.elt])

    def ev_GeneratorExp(self, e):
        return self._comp(e, 'gen', [e.elt])

    def ev_DictComp(self, e):
        return self._comp(e, 'dict', [e.key, e.value])

    def ev_IfExp(self, e):
        t = self.test(e.test)
        out = BOTTOM
        if t is not False:
            out = out.join(self.ev(e.body))
        if t is not True:
            out = out.join(self.ev(e.orelse))
        return out

    def ev_BoolOp(self, e):
        out = BOTTOM
        for v in e.values:
            out = out.join(self.ev(v))
        return out

    def ev_UnaryOp(self, e):
        v = self.ev(e.operand)
        if isinstance(e.op, ast.Not):
            return T('bool')
        if v.has('dyn', 'top'):
            self.sink('S-dyncall', e, 'arithmetic on a document-selected object')
        return v

    def ev_Compare(self, e):
        vals = [self.ev(e.left)] + [self.ev(c) for c in e.comparators]
        for op, l, r in zip(e.ops, vals, vals[1:]):
            if isinstance(op, (ast.Is, ast.IsNot)):
                continue
            if isinstance(op, (ast.In, ast.NotIn)):
                if r.has('dyn'):
                    self.sink('S-dyncall', e, 'membership test on a document-selected object (calls its __contains__)')
                continue
            if l.has('dyn') or r.has('dyn'):
                self.sink('S-dyncall', e, 'comparison of a document-selected object (calls its __eq__ / __ne__ / ordering methods)')
        return T('bool')

    def ev_BinOp(self, e):
        l, r = self.ev(e.left), self.ev(e.right)
        return self.binop(l, r, e)

    def binop(self, l, r, node):
        op = getattr(node, 'op', None)
        if isinstance(op, ast.Mod) and l.tags and l.tags <= {'str', 'bytes'}:
            right = getattr(node, 'right', None)
            operands = list(right.elts) if isinstance(right, ast.Tuple) else [right] if right is not None else []
            for opnd in operands:
                # the name attributes of modules / classes are strings by the data model: formatting them runs no user code
                if isinstance(opnd, ast.Attribute) and opnd.attr in ('__name__', '__qualname__', '__module__'):
                    continue
                if isinstance(opnd, ast.AST) and self.ev(opnd).has('dyn'):
                    self.sink('S-dyncall', node, 'formatting a document-selected object into a string (calls its __repr__ / __str__)')
                    break
            return T('str') if 'str' in l.tags else T('bytes')
        if l.has('dyn', 'top') or r.has('dyn', 'top'):
            if l.has('dyn') or r.has('dyn'):
                self.sink('S-dyncall', node, 'arithmetic on a document-selected object')
            return AV(l.tags | r.tags, l.elem | r.elem, l.deep | r.deep)
        return AV((l.tags | r.tags) - {'true', 'false', 'none'} | ({'int'} if (l.tags | r.tags) & {'true', 'false'} else set()),
                  l.elem | r.elem, l.deep | r.deep)

    def ev_Lambda(self, e):
        return T('lib')

    def ev_Starred(self, e):
        return self.ev(e.value).element()

    def ev_NamedExpr(self, e):
        v = self.ev(e.value)
        self.assign(e.target, v, e.value)
        return v

    def ev_Await(self, e):
        return self.ev(e.value)

    def ev_Yield(self, e):
        v = self.ev(e.value) if e.value is not None else T('none')
        self.yields = self.yields.join(v)
        if not self.first_yield_done:
            self.first_yield = self.first_yield.join(v)
            self.first_yield_done = True
            self.first_yield_name = e.value.id if isinstance(e.value, ast.Name) else None
        return T('none')

    def ev_YieldFrom(self, e):
        v = self.ev(e.value)
        self.yields = self.yields.join(v.element())
        return T('top')

    def ev_Slice(self, e):
        for x in (e.lower, e.upper, e.step):
            if x is not None:
                self.ev(x)
        return T('lib')

    def ev_Subscript(self, e):
        r = self.ev(e.value)
        self.ev(e.slice)
        if r.has('sysmodules'):
            self.sink('S-lookup', e, 'module object looked up in sys.modules by a name taken from the document')
            return T('dyn')
        if r.has('dyn'):
            self.sink('S-dyncall', e, 'indexing a document-selected object (calls its __getitem__)')
            return T('dyn')
        if isinstance(e.slice, ast.Slice):
            keep = r.tags & {'str', 'bytes', 'list', 'tuple', 'nlist', 'plist', 'top', 'lib'}
            if 'tuple2' in r.tags:
                keep = keep | {'tuple'}
            return AV(keep or r.tags, r.elem, r.deep)
        return r.element()

    def _is_ext(self, node, dotted):
        r = self.repo.resolve_expr(self.f.module, node)
        return r is not None and r.kind == 'ext' and r.obj == dotted and \
            not (isinstance(node, ast.Attribute) and attr_chain(node)[0] in self.env)

    def ev_Attribute(self, e):
        ch = attr_chain(e)
        if ch and ch[0] not in self.env:
            r = self.repo.resolve_expr(self.f.module, e)
            if r is not None:
                if r.kind == 'ext':
                    for pre, kind in SINK_EXT_PREFIX.items():
                        if r.obj == pre or r.obj.startswith(pre + '.'):
                            if pre == 'sys.modules':
                                return T('sysmodules')
                            break
                return self.ref_av(r, e)
        base = self.ev(e.value)
        return self.attr_of(base, e.attr, e)

    def attr_of(self, base, attr, node):
        out = BOTTOM
        for t in base.tags:
            if t in ('self', 'cls'):
                out = out.join(self.self_attr(attr, node, t))
            elif t in NODE_KINDS:
                if attr == 'value':
                    out = out.join(parse_spec(NODE_VALUE[t]))
                else:
                    out = out.join(parse_spec(NODE_ATTRS.get(attr, 'lib')))
            elif t == 'dyn':
                out = out.join(T('dyn'))
            elif t == 'top':
                out = out.join(T('top'))
            elif t.startswith('class:'):
                cls = self.repo.classes.get(t[6:])
                found = self.repo.lookup(cls, attr) if cls else None
                if found and isinstance(found[1], FuncInfo):
                    out = out.join(T('func:' + found[1].qualname))
                elif found:
                    out = out.join(self.class_attr_av(found[0], attr, found[1]))
                else:
                    out = out.join(T('lib'))
            elif t.startswith('module:'):
                mod = self.repo.modules.get(t[7:])
                r = self.repo.member(Ref('module', mod), attr) if mod else None
                out = out.join(self.ref_av(r, node))
            elif t.startswith('ext:'):
                dotted = t[4:] + '.' + attr
                spec = PURE_EXT_ATTRS.get(dotted)
                out = out.join(parse_spec(spec) if spec else T('ext:' + dotted))
            elif t in METHOD_TABLES and attr in METHOD_TABLES[t]:
                out = out.join(AV({'bound:%s.%s' % (t, attr)}, base.elem, base.deep))
            elif t == 'none':
                pass        # AttributeError at run time: no value
            elif t in METHOD_TABLES or t in ('lib', 'exc', 'mark'):
                # plain data attribute of a builtin / library value
                out = out.join(T('lib'))
            elif t.startswith('func:') or t.startswith('bound:'):
                out = out.join(T('lib'))
            else:
                out = out.join(T('top'))
        return out

    def self_attr(self, attr, node, selftag):
        u = self.u
        if attr == '__class__':
            return T('class:' + u.cls.qualname)
        if attr in u.rm.regs:
            return u.registry_av(attr)
        found = self.repo.lookup(u.cls, attr)
        out = BOTTOM
        if found is not None:
            owner, what = found
            if isinstance(what, FuncInfo):
                return T('func:' + what.qualname)
            out = out.join(self.class_attr_av(owner, attr, what))
        if attr in u.inst:
            out = out.join(u.inst[attr])
        if not out.tags:
            # an instance attribute set by a component outside the analysed family (reader, parser ...)
            return T('lib')
        return out

    def class_attr_av(self, owner, attr, values, _depth=0):
        out = BOTTOM
        for v in values:
            if isinstance(v, ast.Name) and v.id in owner.attrs and _depth < 3:
                if v.id != attr:
                    out = out.join(self.class_attr_av(owner, v.id, owner.attrs[v.id], _depth + 1))
                continue
            cv = A.const_value(v)
            if cv is NotImplemented and isinstance(v, (ast.DictComp, ast.ListComp, ast.SetComp, ast.BinOp, ast.Call, ast.JoinedStr)):
                # a table computed from literals and module-level constants at class creation
                fv = A.fold_value(v, owner.module)
                if fv is not NotImplemented and isinstance(fv, (dict, tuple, frozenset, str, int, float, bytes, bool)):
                    cv = dict(fv) if isinstance(fv, dict) else fv
            if cv is not NotImplemented:
                out = out.join(self.literal_av(cv))
            elif isinstance(v, ast.Call) and norm(v.func) in ('re.compile',):
                out = out.join(T('regex'))
            elif isinstance(v, (ast.BinOp, ast.UnaryOp, ast.Constant)):
                out = out.join(T('float', 'int'))
            elif isinstance(v, ast.Dict):
                out = out.join(AV({'dict'}, {'lib'}))
            elif isinstance(v, (ast.List, ast.Tuple)):
                el = set()
                for x in v.elts:
                    r = self.repo.resolve_expr(owner.module, x)
                    a = self.ref_av(r, x)
                    el |= a.tags
                out = out.join(AV({'list'}, el))
            else:
                r = self.repo.resolve_expr(owner.module, v)
                out = out.join(self.ref_av(r, v) if r is not None else T('lib'))
        return out

    # -- calls ---------------------------------------------------------------------
    def ev_Call(self, e):
        u = self.u
        u.call_sites += 1
        fn = e.func
        # super().m(...) / super(K, self).m(...)
        if isinstance(fn, ast.Attribute) and isinstance(fn.value, ast.Call) and norm(fn.value.func) == 'super':
            args = self.args(e)
            after = self.f.cls
            if fn.value.args:
                r = self.repo.resolve_expr(self.f.module, fn.value.args[0])
                if r is not None and r.kind == 'class':
                    after = r.obj
            found = self.repo.lookup_after(u.cls, after, fn.attr) if after is not None else None
            if found is None or not isinstance(found[1], FuncInfo):
                if fn.attr == '__init__':
                    return T('none')
                self.sink('S-dyncall', e, 'super() call that does not resolve in this universe')
                return T('top')
            return self.call_func(found[1], [T('self')] + args[0], args[1], e)
        if isinstance(fn, ast.Name) and fn.id not in self.env:
            return self.call_named(fn.id, e)
        if isinstance(fn, ast.Attribute):
            ch = attr_chain(fn)
            if ch and ch[0] not in self.env:
                r = self.repo.resolve_expr(self.f.module, fn)
                if r is not None:
                    return self.call_ref(r, e)
            recv = self.ev(fn.value)
            return self.call_method(recv, fn.attr, e)
        callee = self.ev(fn)
        return self.call_value(callee, e)

    def args(self, e):
        pos = []
        for a in e.args:
            if isinstance(a, ast.Starred):
                v = self.ev(a.value)
                self.iter_sink(v, a.value)
                pos.append(('*', v.element()))
            else:
                pos.append(self.ev(a))
        kw = {}
        for k in e.keywords:
            v = self.ev(k.value)
            if k.arg is None:
                kw['**'] = v.element()
            else:
                kw[k.arg] = v
        return pos, kw

    def call_named(self, name, e):
        r = self.repo.resolve_name(self.f.module, name)
        if r is None:
            self.args(e)
            self.sink('S-dyncall', e, 'call of an unresolved name')
            return T('top')
        return self.call_ref(r, e)

    def call_ref(self, r, e):
        u = self.u
        if r.kind == 'func':
            pos, kw = self.args(e)
            f = r.obj
            if f.cls is not None and not f.is_staticmethod:
                # K.m(self, ...) explicit-class call; classmethods get cls implicitly
                if f.is_classmethod:
                    pos = [T('cls')] + pos
            return self.call_func(f, pos, kw, e)
        if r.kind == 'class':
            pos, kw = self.args(e)
            cls = r.obj
            u.resolved_sites += 1
            found = self.repo.lookup(cls, '__init__')
            if found and isinstance(found[1], FuncInfo):
                self.call_func(found[1], [T('lib')] + pos, kw, e, count=False)
            if self.repo.is_yaml_error(cls) or any(x.endswith('Exception') or x.endswith('Error')
                                                    for x in cls.ext_bases()):
                return T('exc')
            if cls.qualname in NODE_CLASS_TAG:
                return AV(NODE_CLASS_TAG[cls.qualname])
            return T('lib')
        if r.kind == 'ext':
            return self.call_ext(r.obj, e)
        if r.kind == 'module':
            self.args(e)
            self.sink('S-dyncall', e, 'call of a module object')
            return T('top')
        # a module-level value (alias etc.)
        pos, kw = self.args(e)
        self.sink('S-dyncall', e, 'call of a module-level value the analysis cannot identify')
        return T('top')

    def call_ext(self, dotted, e):
        u = self.u
        name = dotted[9:] if dotted.startswith('builtins.') else None
        pos, kw = self.args(e)
        if name is not None:
            if name in SINK_BUILTINS:
                kind = SINK_BUILTINS[name]
                if name == 'getattr' and len(e.args) >= 2 and isinstance(e.args[1], ast.Constant):
                    base = pos[0] if pos and isinstance(pos[0], AV) else T('top')
                    u.resolved_sites += 1
                    return self.attr_of(base, e.args[1].value, e) if not base.has('dyn', 'top') else T('dyn')
                if name == 'vars' or name == 'dir':
                    pass
                self.sink(kind, e, '%s() reachable from the loader' % name)
                u.resolved_sites += 1
                return T('dyn') if kind != 'S-mutate' else T('none')
            if name == 'hasattr':
                u.resolved_sites += 1
                if len(e.args) >= 2 and not isinstance(e.args[1], ast.Constant):
                    self.sink('S-lookup', e, 'hasattr() with a name taken from the document')
                return T('bool')
            spec = PURE_BUILTINS.get(name)
            if spec is not None:
                u.resolved_sites += 1
                return self.builtin_result(name, spec, pos, e)
            self.sink('S-dyncall', e, 'call of builtin %s, which is not in the table of harmless builtins' % name)
            return T('top')
        for pre, kind in SINK_EXT_PREFIX.items():
            if dotted == pre or dotted.startswith(pre + '.'):
                self.sink(kind, e, 'call of %s reachable from the loader' % dotted)
                u.resolved_sites += 1
                return T('dyn')
        spec = PURE_EXT.get(dotted)
        if spec is not None:
            u.resolved_sites += 1
            if spec == 'arg0':
                if pos and isinstance(pos[0], AV) and pos[0].has('dyn'):
                    self.sink('S-dyncall', e, '%s() applied to a document-selected object (runs its __copy__ / __reduce_ex__ and '
                                              'builds a new instance of its class)' % dotted)
                return pos[0] if pos and isinstance(pos[0], AV) else T('top')
            if spec.endswith('*'):
                return self.builtin_result(dotted, spec, pos, e)
            return parse_spec(spec)
        self.sink('S-dyncall', e, 'call of %s, which is not in the table of harmless library functions' % dotted)
        return T('top')

    def builtin_result(self, name, spec, pos, e):
        args = [p for p in pos if isinstance(p, AV)]
        for a in args:
            if a.has('dyn') and name not in ('isinstance', 'issubclass', 'callable', 'id', 'type', 'print'):
                self.sink('S-dyncall', e, '%s() applied to a document-selected object (calls its special methods)' % name)
        if spec == 'elemof':
            return args[0].element() if args else T('top')
        if spec.endswith('*') or '*+' in spec:
            kind = spec.split('*')[0]
            el, dp = set(), set()
            for a in args:
                x = a.element()
                el |= x.tags
                dp |= x.inner()
            if spec.endswith('+int'):
                dp |= el | {'int'}
                el = {'tuple2'}
            if spec.endswith('+tuple'):
                dp |= el
                el = {'tuple'}
            return AV({kind}, el, dp)
        return parse_spec(spec)

    def call_method(self, recv, attr, e):
        u = self.u
        pos, kw = self.args(e)
        out = BOTTOM
        resolved = True
        for t in recv.tags:
            if t in ('self', 'cls'):
                found = self.repo.lookup(u.cls, attr)
                if found is not None and isinstance(found[1], FuncInfo):
                    f = found[1]
                    first = [] if f.is_staticmethod else [T('cls') if f.is_classmethod else T(t)]
                    out = out.join(self.call_func(f, first + pos, kw, e, count=False))
                elif attr in u.inst or found is not None:
                    val = self.self_attr(attr, e, t)
                    out = out.join(self.call_value(val, e, count=False, preargs=(pos, kw)))
                else:
                    resolved = False
                    self.sink('S-dyncall', e, 'self.%s is not defined anywhere in the MRO of %s' % (attr, u.cls.qualname))
                    out = out.join(T('top'))
            elif t == 'sysmodules':
                self.sink('S-lookup', e, 'sys.modules.%s(...) reachable from the loader' % attr)
                out = out.join(T('dyn'))
            elif t in ('dyn', 'top'):
                resolved = False
                self.sink('S-dyncall', e, 'method call on %s' % ('a document-selected object' if t == 'dyn'
                                                                   else 'a value the analysis cannot classify'))
                out = out.join(T(t))
            elif t.startswith('class:'):
                cls = self.repo.classes.get(t[6:])
                found = self.repo.lookup(cls, attr) if cls else None
                if found and isinstance(found[1], FuncInfo):
                    f = found[1]
                    first = [T('cls')] if f.is_classmethod else []
                    out = out.join(self.call_func(f, first + pos, kw, e, count=False))
                elif attr == '__new__':
                    out = out.join(T('lib'))
                else:
                    out = out.join(T('lib'))
            elif t in METHOD_TABLES:
                spec = METHOD_TABLES[t].get(attr)
                if spec is None:
                    resolved = False
                    self.sink('S-dyncall', e, 'method %s is not a known pure method of %s' % (attr, t))
                    out = out.join(T('top'))
                else:
                    if attr in ('append', 'add', 'insert', 'setdefault') and pos:
                        v = pos[-1] if isinstance(pos[-1], AV) else T('top')
                        self.store_elem(e.func.value, v)
                    elif attr in ('extend', 'update') and pos:
                        v = pos[0] if isinstance(pos[0], AV) else T('top')
                        self.iter_sink(v, e)
                        self.store_elem(e.func.value, v.element())
                    r = parse_spec(spec, recv)
                    if attr in ('get', 'setdefault', 'pop') and len(pos) >= 2 and isinstance(pos[1], AV):
                        r = r.join(pos[1])
                    if attr == 'get' and len(pos) < 2:
                        r = r.join(T('none'))
                    out = out.join(r)
            elif t == 'none':
                pass
            elif t in ('lib', 'exc', 'mark') + NODE_KINDS or t.startswith('ext:') or t.startswith('module:') \
                    or t.startswith('func:') or t.startswith('bound:'):
                if t.startswith('ext:'):
                    out = out.join(self.call_ext(t[4:] + '.' + attr, e))
                elif t.startswith('module:'):
                    mod = self.repo.modules.get(t[7:])
                    r = self.repo.member(Ref('module', mod), attr)
                    out = out.join(self.call_ref(r, e) if r is not None else T('top'))
                else:
                    out = out.join(T('lib'))
            else:
                out = out.join(T('top'))
        if resolved:
            u.resolved_sites += 1
        return out

    def call_value(self, callee, e, count=True, preargs=None):
        u = self.u
        pos, kw = preargs if preargs is not None else self.args(e)
        out = BOTTOM
        ok = True
        for t in callee.tags:
            if t.startswith('func:'):
                f = self._func_by_qual(t[5:])
                if f is None:
                    ok = False
                    out = out.join(T('top'))
                    continue
                out = out.join(self.call_func(f, list(pos), kw, e, count=False))
            elif t.startswith('class:'):
                out = out.join(T('lib'))
            elif t in ('dyn', 'top'):
                ok = False
                self.sink('S-dyncall', e, 'call of %s' % ('an object selected by the document' if t == 'dyn'
                                                            else 'a value the analysis cannot classify'))
                out = out.join(T('dyn'))
            elif t == 'none':
                pass            # TypeError at run time
            elif t.startswith('ext:'):
                out = out.join(self.call_ext(t[4:], e))
            elif t.startswith('bound:'):
                out = out.join(T('lib'))
            else:
                ok = False
                self.sink('S-dyncall', e, 'call of a value (%s) whose origin the analysis cannot identify' % t)
                out = out.join(T('top'))
        # elements of a registry dict are called through a local variable: tags arrive via elem
        for t in callee.elem:
            pass
        if ok and count:
            u.resolved_sites += 1
        return out

    def _func_by_qual(self, q):
        parts = q.split('.')
        m = self.repo.modules.get(parts[0])
        if m is None:
            return None
        if len(parts) == 2:
            return m.functions.get(parts[1])
        c = m.classes.get(parts[1])
        return c.methods.get(parts[2]) if c else None

    def call_func(self, f, pos, kw, e, count=True):
        """Bind arguments into f's summary; return its current result."""
        u = self.u
        if count:
            u.resolved_sites += 1
        if not u.in_family(f) and not (f.cls is None and f.module.name == 'constructor'):
            u.unfollowed[f.qualname] = u.unfollowed.get(f.qualname, 0) + 1
            return UNFOLLOWED_RESULTS.get(f.name, T('lib'))
        params = f.params
        npos = sum(1 for a in pos if not isinstance(a, tuple))
        has_star = any(isinstance(a, tuple) for a in pos) or '**' in kw
        if npos > len(params) and f.node.args.vararg is None:
            return BOTTOM          # TypeError at run time: the body never executes
        if not has_star:
            required = params[:len(params) - len(f.node.args.defaults)]
            if any(p not in kw for p in required[npos:]):
                return BOTTOM
        s = u.summary(f)
        if s.parent is None:
            s.parent = (self.f, e)
        binding = {}
        star = None
        for i, a in enumerate(pos):
            if isinstance(a, tuple):
                star = a[1]
                continue
            if i < len(params):
                binding[params[i]] = a
        for k, v in kw.items():
            if k == '**':
                continue
            binding[k] = v
        defaults = f.defaults()
        for p in params:
            if p in binding:
                continue
            if star is not None:
                binding[p] = star
            elif p in defaults:
                d = defaults[p]
                cv = A.const_value(d)
                binding[p] = const_av(cv) if cv is not NotImplemented else T('lib')
        for p, v in binding.items():
            old = s.params.get(p, BOTTOM)
            new = old.join(v)
            if new != old:
                s.params[p] = new
                u.changed = True
        if f.name == 'construct_object' and f.cls is u.family:
            return u.constructed if u.constructed.tags else BOTTOM
        if f.is_generator:
            return AV({'gen'}, s.yields.tags, s.yields.inner())
        return s.ret


UNFOLLOWED_RESULTS = {
    'get_single_node': AV(NODE_KINDS + ('none',)), 'get_node': AV(NODE_KINDS + ('none',)), 'check_node': T('bool'),
    'compose_node': NODE(), 'compose_document': NODE(),
}


def _always_exits(stmts):
    if not stmts:
        return False
    last = stmts[-1]
    if isinstance(last, (ast.Raise, ast.Return, ast.Continue, ast.Break)):
        return True
    if isinstance(last, ast.If) and last.orelse:
        return _always_exits(last.body) and _always_exits(last.orelse)
    return False


def _load(target):
    """copy of an assignment target usable as a load expression."""
    t = ast.parse(norm(target), mode='eval').body
    return t
