"""Variants for sa.selftest: (name, expect fire|silent, checks, edits[(file, old, new)])."""

VARIANTS = []


def V(name, expect, checks, edits, mention=None):
    VARIANTS.append({'name': name, 'expect': expect, 'checks': checks, 'edits': edits, 'mention': mention})


CON = 'lib/yaml/constructor.py'
REP = 'lib/yaml/representer.py'
RES = 'lib/yaml/resolver.py'
INIT = 'lib/yaml/__init__.py'
LOADER = 'lib/yaml/loader.py'
CYAML = 'lib/yaml/cyaml.py'
DUMPER = 'lib/yaml/dumper.py'
SCAN = 'lib/yaml/scanner.py'
PARSER = 'lib/yaml/parser.py'
READER = 'lib/yaml/reader.py'
COMPOSER = 'lib/yaml/composer.py'
EMIT = 'lib/yaml/emitter.py'
SER = 'lib/yaml/serializer.py'
PYX = 'yaml/_yaml.pyx'

# ---------------------------------------------------------------- C10 / C01 / C04: ownership
V('B01-drop-cow-add_constructor', 'fire', ['C10', 'C01', 'C04'], [(CON,
  "        if not 'yaml_constructors' in cls.__dict__:\n            cls.yaml_constructors = cls.yaml_constructors.copy()\n", "")],
  mention='add_constructor')
V('B02a-drop-cow-add_multi_constructor', 'fire', ['C10', 'C01', 'C04'], [(CON,
  "        if not 'yaml_multi_constructors' in cls.__dict__:\n            cls.yaml_multi_constructors = cls.yaml_multi_constructors.copy()\n", "")])
V('B02b-drop-cow-add_representer', 'fire', ['C10'], [(REP,
  "        if not 'yaml_representers' in cls.__dict__:\n            cls.yaml_representers = cls.yaml_representers.copy()\n", "")])
V('B02c-drop-cow-add_multi_representer', 'fire', ['C10'], [(REP,
  "        if not 'yaml_multi_representers' in cls.__dict__:\n            cls.yaml_multi_representers = cls.yaml_multi_representers.copy()\n", "")])
V('B02d-drop-cow-add_path_resolver', 'fire', ['C10'], [(RES,
  "        if not 'yaml_path_resolvers' in cls.__dict__:\n            cls.yaml_path_resolvers = cls.yaml_path_resolvers.copy()\n", "")])
V('B02e-cow-tests-wrong-registry', 'fire', ['C10'], [(CON,
  "        if not 'yaml_multi_constructors' in cls.__dict__:\n            cls.yaml_multi_constructors",
  "        if not 'yaml_constructors' in cls.__dict__:\n            cls.yaml_multi_constructors")])
V('B03-shallow-implicit-resolvers', 'fire', ['C10'], [(RES,
  "implicit_resolvers[key] = cls.yaml_implicit_resolvers[key][:]", "implicit_resolvers[key] = cls.yaml_implicit_resolvers[key]")],
  mention='shallow')
V('B03b-shallow-implicit-resolvers-copy', 'fire', ['C10'], [(RES,
  "            implicit_resolvers = {}\n            for key in cls.yaml_implicit_resolvers:\n                implicit_resolvers[key] = cls.yaml_implicit_resolvers[key][:]\n            cls.yaml_implicit_resolvers = implicit_resolvers\n",
  "            cls.yaml_implicit_resolvers = cls.yaml_implicit_resolvers.copy()\n")])
V('B09-fanout-includes-safeloader', 'fire', ['C10', 'C01'], [(INIT,
  "        loader.Loader.add_constructor(tag, constructor)\n",
  "        loader.Loader.add_constructor(tag, constructor)\n        loader.SafeLoader.add_constructor(tag, constructor)\n")])
V('B09b-helper-writes-base-table', 'fire', ['C10', 'C01'], [(INIT,
  "        Loader.add_multi_constructor(tag_prefix, multi_constructor)\n",
  "        Loader.add_multi_constructor(tag_prefix, multi_constructor)\n        Loader.yaml_multi_constructors[tag_prefix] = multi_constructor\n")])
V('B09c-subclass-aliases-registry', 'fire', ['C10'], [(CON,
  "class FullConstructor(SafeConstructor):\n",
  "class FullConstructor(SafeConstructor):\n    yaml_multi_constructors = BaseConstructor.yaml_multi_constructors\n")])
V('B09d-dispatch-named-class', 'fire', ['C10', 'C01'], [(CON,
  "        if node.tag in self.yaml_constructors:\n            constructor = self.yaml_constructors[node.tag]",
  "        if node.tag in self.yaml_constructors:\n            constructor = Constructor.yaml_constructors[node.tag]")])
V('B09e-yamlobject-default-safeloader', 'fire', ['C10'], [(INIT,
  "yaml_loader = [Loader, FullLoader, UnsafeLoader]", "yaml_loader = [Loader, FullLoader, UnsafeLoader, SafeLoader]")])
V('B09f-metaclass-unguarded', 'fire', ['C10'], [(INIT,
  "if 'yaml_tag' in kwds and kwds['yaml_tag'] is not None:", "if cls.yaml_tag is not None or True:")])
V('B09g-add_representer-default-safedumper', 'fire', ['C10'], [(INIT,
  "def add_representer(data_type, representer, Dumper=Dumper):", "def add_representer(data_type, representer, Dumper=SafeDumper):")])

V('N01-cow-dict-call', 'silent', ['C10', 'C01', 'C04'], [(CON,
  "cls.yaml_constructors = cls.yaml_constructors.copy()", "cls.yaml_constructors = dict(cls.yaml_constructors)")])
V('N02-cow-vars-not-in', 'silent', ['C10', 'C01'], [(CON,
  "if not 'yaml_constructors' in cls.__dict__:", "if 'yaml_constructors' not in vars(cls):")])
V('N03-cow-dictcomp-deep', 'silent', ['C10'], [(RES,
  "            implicit_resolvers = {}\n            for key in cls.yaml_implicit_resolvers:\n                implicit_resolvers[key] = cls.yaml_implicit_resolvers[key][:]\n            cls.yaml_implicit_resolvers = implicit_resolvers\n",
  "            cls.yaml_implicit_resolvers = {k: list(v) for k, v in cls.yaml_implicit_resolvers.items()}\n")])
V('N04-cow-unconditional-rebuild', 'silent', ['C10', 'C01'], [(CON,
  "        if not 'yaml_constructors' in cls.__dict__:\n            cls.yaml_constructors = cls.yaml_constructors.copy()\n        cls.yaml_constructors[tag] = constructor\n",
  "        cls.yaml_constructors = {**cls.yaml_constructors, tag: constructor}\n")])
