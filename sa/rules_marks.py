"""C09: tokens and events are grammatical, positions are true (pairing / ordering / agreement clauses).

Variables are found by role (reaching definitions), callees by what they resolve to, constructor arguments by the
attribute the class stores them in; see the helper section of rules_reader.
"""
import ast

from . import astutil as A
from . import charworld as CW
from . import match as M
from .cfg import CFG, own_exprs
from .srcmodel import AnalysisError, FuncInfo, norm, walk_function
from .rules_reader import (Flow, ConsumingLoop, origins, is_self_attr, is_self_call, self_name, live_methods, is_new_helper, callee_classes,
                           ctor_arg, lf_at, clone, _clean, matches)

BREAKS = '\n\x85\u2028\u2029'


def _forward_effect(repo, cls, f, _memo, _stack=()):
    """does calling f (a scanner method) possibly move the reader position?"""
    if f in _memo:
        return _memo[f]
    if f in _stack:
        return False
    res = False
    for c in A.func_calls(f.node):
        if is_self_call(c, f):
            if c.func.attr == 'forward':
                res = True
            else:
                found = repo.lookup(cls, c.func.attr)
                if found and isinstance(found[1], FuncInfo) and found[1].module.name == 'scanner':
                    if _forward_effect(repo, cls, found[1], _memo, _stack + (f,)):
                        res = True
    _memo[f] = res
    return res


# ======================================================================================================================
# R-MARK-ORDER
# ======================================================================================================================

def _is_get_mark(f, e):
    return is_self_call(e, f, 'get_mark') and not e.args and not e.keywords


def _returns_fresh_mark(repo, cls, h, idx, memo, depth):
    """every value h returns (element idx of it, when the caller unpacks) is a mark taken with get_mark() during the call."""
    key = (h, idx)
    if key in memo:
        return memo[key]
    memo[key] = False
    hflow = Flow(h)
    rets = [r for r in walk_function(h.node) if isinstance(r, ast.Return)]
    ok = bool(rets)
    for r in rets:
        v = r.value
        if idx is not None:
            if not (isinstance(v, (ast.Tuple, ast.List)) and idx < len(v.elts)):
                ok = False
                break
            v = v.elts[idx]
        if v is None:
            ok = False
            break
        src = _mark_sources(repo, cls, hflow, v, hflow.node_of(r), memo, depth + 1)
        if not src or not all(k in ('taken', 'callee') for k, n, t in src):
            ok = False
            break
    memo[key] = ok
    return ok


def _mark_sources(repo, cls, flow, expr, at, memo, depth=0):
    """where a mark comes from: [(kind, node, text)] with kind
         'taken'   self.get_mark() evaluated at node
         'callee'  handed back by a scanner method called at node, which takes it with get_mark() during that call
         'entry'   a parameter: taken by the caller before this function started
         'other'   anything else (text says what)"""
    f = flow.f
    out = []
    for kind, e, node, idx in origins(flow, expr, at):
        if kind == 'param':
            out.append(('entry', flow.cfg.entry, ''))
        elif kind == 'expr' and _is_get_mark(f, e):
            out.append(('taken', node, ''))
        elif kind in ('expr', 'elt') and is_self_call(e, f) and depth < 4:
            found = repo.lookup(cls, e.func.attr)
            if found and isinstance(found[1], FuncInfo) and found[1].module.name == 'scanner' \
                    and _returns_fresh_mark(repo, cls, found[1], idx, memo, depth):
                out.append(('callee', node, ''))
            else:
                out.append(('other', node, norm(e)[:40]))
        elif kind == 'expr' and not isinstance(e, (ast.Constant, ast.Call)):
            # a mark kept somewhere this rule does not follow (an attribute, a container element)
            raise AnalysisError('%s: a token mark is taken from %s, which is not a local, a parameter or a call (line %d)'
                                % (f.qualname, norm(e)[:40], getattr(e, 'lineno', 0)))
        else:
            out.append(('other', node, norm(e)[:40] if isinstance(e, ast.AST) else kind))
    return out


def r_mark_order(ctx, repo):
    rule = ctx.rule('R-MARK-ORDER', 'in every scanner function that builds a token from two marks, the start mark is taken before any '
                                    'call that moves the reader and every mark that can become the end mark is taken at or after it')
    cls = repo.cls('loader.SafeLoader')
    S = repo.cls('scanner.Scanner')
    Token = repo.cls('tokens.Token')
    memo, rmemo = {}, {}
    for f in live_methods(repo, S):
        flow = None
        movers = None
        assigned = None
        for c in A.func_calls(f.node):
            if not isinstance(c.func, ast.Name):
                continue
            # cheap pre-filter: a token class by name, or a local / parameter that may hold one
            r = repo.resolve_name(f.module, c.func.id)
            if assigned is None:
                assigned = set(f.params) | {n.id for n in walk_function(f.node) if isinstance(n, ast.Name) and isinstance(n.ctx, ast.Store)}
            if c.func.id not in assigned and not (r is not None and r.kind == 'class' and hasattr(r.obj, 'is_subclass_of')
                                                 and r.obj.is_subclass_of(Token)):
                continue
            if flow is None:
                flow = Flow(f)
            classes = callee_classes(repo, S, flow, c)
            if not classes or not all(k.is_subclass_of(Token) for k in classes):
                continue
            fn = norm(c.func) if c.func.id not in assigned else '/'.join(sorted(k.name for k in classes))
            pairs = {(id(s), id(e)): (s, e) for s, e in ((ctor_arg(repo, k, c, 'start_mark'), ctor_arg(repo, k, c, 'end_mark')) for k in classes)}
            if len(pairs) != 1:
                raise AnalysisError('%s: the token classes built at line %d take their marks at different positions' % (f.qualname, c.lineno))
            start, end = list(pairs.values())[0]
            if start is None or end is None:
                continue
            if ast.dump(start) == ast.dump(end):
                rule.ok(f.loc(c), '%s(%s, %s): zero-width token' % (fn, norm(start), norm(end)))
                continue
            cfg = flow.cfg
            site = flow.node_of(c)
            src_s = _mark_sources(repo, cls, flow, start, site, rmemo)
            src_e = _mark_sources(repo, cls, flow, end, site, rmemo)
            if not src_s or not src_e:
                raise AnalysisError('%s: no definition of the marks reaches the token construction at line %d' % (f.qualname, c.lineno))
            if movers is None:
                movers = []
                for n in cfg.nodes:
                    if n.ast is None:
                        continue
                    for sub in own_exprs(n):
                        if is_self_call(sub, f):
                            if sub.func.attr == 'forward':
                                movers.append(n)
                            else:
                                found = repo.lookup(cls, sub.func.attr)
                                if found and isinstance(found[1], FuncInfo) and found[1].module.name == 'scanner' \
                                        and _forward_effect(repo, cls, found[1], memo):
                                    movers.append(n)
            problems = []           # (code for the key, text)
            for kind, ds, txt in src_s:
                if kind == 'entry':
                    continue            # a start mark passed in: taken by the caller before the call
                if kind != 'taken':
                    problems.append(('start-not-taken', 'the start mark is not taken with self.get_mark() (%s)' % txt))
                    continue
                # no mover may execute before the start mark is taken (loops back excluded: a token is built once per call)
                before = cfg.reach([cfg.entry], blocked=[ds])
                for m in movers:
                    if m in before and m is not ds and ds in cfg.reach([m]):
                        problems.append(('moved-before-start', 'the reader may already have moved (%s) when the start mark is taken'
                                         % norm(m.ast).split('\n')[0][:40]))
                        break
            for kind, de, txt in src_e:
                if kind in ('taken', 'callee'):
                    # must be evaluated at or after the start mark on every path
                    for k2, ds, t2 in src_s:
                        if k2 == 'taken' and not cfg.dominates(ds, de):
                            problems.append(('end-before-start', 'the end mark can be taken before the start mark (line %d)' % de.lineno))
                elif kind == 'entry':
                    if any(k2 != 'entry' for k2, ds, t2 in src_s):
                        problems.append(('end-before-start', 'the end mark is passed in by the caller but the start mark is taken later'))
                else:
                    problems.append(('end-computed', 'the end mark is computed as %s' % txt))
            if problems:
                rule.fail('%s|%s|%s' % (f.qualname, fn, problems[0][0]), f.module.rel, c.lineno, f.qualname, norm(c)[:80],
                          '%s: %s - a token whose start mark lies after its end mark, or not at its first character'
                          % (fn, '; '.join(sorted(set(t for k, t in problems)))))
            else:
                rule.ok(f.loc(c), '%s(%s, %s): start taken first, end at or after it' % (fn, norm(start), norm(end)))
    rule.require_min(10, 'token construction sites')
    return rule


# ======================================================================================================================
# R-BREAKSET-AGREEMENT(positions)
# ======================================================================================================================

def _and3(vals):
    if any(v is False for v in vals):
        return False
    return True if all(v is True for v in vals) else None


def _or3(vals):
    if any(v is True for v in vals):
        return True
    return False if all(v is False for v in vals) else None


class _LineAdvance:
    """the condition under which one iteration of Reader.forward's consuming loop advances self.line, as a function of the
    consumed character and the character after it.  Reads of the buffer are identified by their offset from the pointer at
    the start of the iteration (0: the consumed character, 1: the next one), whatever local they are kept in."""

    def __init__(self, repo, fw):
        self.repo = repo
        self.f = fw
        self.cl = ConsumingLoop(fw)
        self.flow = self.cl.flow
        self.loop, self.head = self.cl.loop, self.cl.head
        self.adv = [n for n in walk_function(fw.node) if isinstance(n, ast.AugAssign) and is_self_attr(n.target, fw, 'line')
                    and isinstance(n.op, ast.Add)]
        if not self.adv:
            raise AnalysisError('Reader.forward: line counting not found')
        inside = {id(x) for x in ast.walk(self.loop)}
        if not all(id(a) in inside for a in self.adv):
            raise AnalysisError('Reader.forward: the line is not advanced inside the consuming loop')

    def _read_offset(self, e, node):
        return self.cl.read_offset(e, node)

    def instantiate(self, test, chars, _depth=0):
        """test with every buffer read replaced by chars[offset] (unknown offsets are left alone); a local that holds an
        intermediate condition (one definition reaching the use) is replaced by that condition"""
        def repl(n):
            if isinstance(n, ast.Subscript):
                off = self._read_offset(n, self.flow.node_of(n))
                if off in chars:
                    return ast.Constant(chars[off])
            if isinstance(n, ast.Name) and isinstance(n.ctx, ast.Load):
                at = self.flow.node_of(n)
                offs = set()
                for kind, e, node, idx in origins(self.flow, n, at):
                    offs.add(self._read_offset(e, node) if kind == 'expr' else None)
                if len(offs) == 1 and None not in offs and list(offs)[0] in chars:
                    return ast.Constant(chars[list(offs)[0]])
                og = list(origins(self.flow, n, at))
                if len(og) == 1 and og[0][0] == 'expr' and _depth < 3 and not isinstance(og[0][1], (ast.Call, ast.Name)) \
                        and isinstance(og[0][1], (ast.Compare, ast.BoolOp, ast.UnaryOp)):
                    return self.instantiate(og[0][1], chars, _depth + 1)
            return None
        return ast.fix_missing_locations(clone(test, repl))

    def advances(self, cur, nxt):
        """three-valued: does an iteration consuming `cur`, followed by `nxt`, advance the line?"""
        alts = []
        for a in self.adv:
            conds = []
            for iff, branch in A.guarding_ifs(a, self.loop):
                v = CW.eval_cond(self.repo, self.instantiate(iff.test, {0: cur, 1: nxt}), {})
                conds.append(v if branch == 'body' or v is None else (not v))
            alts.append(_and3(conds))
        return _or3(alts)

    def column_reset(self):
        """every line advance is accompanied by `self.column = 0` in the same iteration"""
        cfg = self.flow.cfg
        zs = [self.flow.node_of(s) for s in ast.walk(self.loop) if isinstance(s, ast.Assign) and any(is_self_attr(t, self.f, 'column') for t in s.targets)
              and isinstance(s.value, ast.Constant) and s.value.value == 0 and not isinstance(s.value.value, bool)]
        if not zs:
            return False
        for a in self.adv:
            an = self.flow.node_of(a)
            after = cfg.must_pass_between(an, self.head, zs)
            before = an not in cfg.reach([m for (m, lab) in cfg.succ[self.head]], blocked=[self.head] + zs)
            if not (after or before):
                return False
        return True


def r_breakset_positions(ctx, repo):
    rule = ctx.rule('R-BREAKSET-AGREEMENT(positions)', 'the characters that advance Reader.line are exactly those Scanner.scan_line_break '
                                                       'consumes as a line break (CR LF once), and Mark.get_snippet stops at the same set')
    R = repo.cls('reader.Reader')
    fw = R.methods.get('forward')
    if fw is None:
        raise AnalysisError('Reader.forward has vanished')
    la = _LineAdvance(repo, fw)
    t = la.adv[0]
    cls = repo.cls('loader.SafeLoader')
    slb = repo.func('scanner.Scanner.scan_line_break')
    probes = sorted(set(CW.representative_chars(repo, 'scanner')) | set('\r\n\x85\u2028\u2029\x0b\x0c\x1c\x1d\x1e a'))
    bad = []
    for c in probes:
        if c == '\0':
            continue
        # reader: is c (followed by something that is not LF) a line advance?
        r_adv = la.advances(c, 'x')
        # scanner: does scan_line_break treat c as a break?
        it = CW.Interp(repo, cls, c, 'self.peek()', None)
        ends = it.run_block(slb.node.body, CW.State({}), 0)
        rets = {(v[1] if CW.is_const(v) else None) for k, v, s in ends if k == 'return'}
        s_break = rets and all(x for x in rets)
        s_none = rets == {''}
        if r_adv is None or not (s_break or s_none):
            raise AnalysisError('break-set comparison undecidable for %r' % c)
        if bool(r_adv) != bool(s_break):
            bad.append((c, r_adv, s_break))
        if c == '\r' and la.advances(c, '\n') is not False:
            bad.append(('\r\n', la.advances(c, '\n'), 'one break'))
    where = getattr(t, '_parent', t)
    if bad:
        rule.fail('reader-vs-scanner|%s' % ''.join(repr(b[0]) for b in bad)[:40], fw.module.rel, t.lineno, fw.qualname,
                  norm(where.test)[:90] if isinstance(where, ast.If) else norm(t),
                  'Reader.forward and Scanner.scan_line_break disagree on %s (reader advances line: %s, scanner treats as break: %s): '
                  'every mark after such a character names a line/column that does not exist in the input'
                  % (', '.join(repr(b[0]) for b in bad[:4]), bad[0][1], bad[0][2]))
    else:
        rule.ok(fw.loc(t), 'line advance set == scanner break set over %d probe characters; CR LF counted once' % len(probes))
    # column reset accompanies the line advance
    if la.column_reset():
        rule.ok(fw.loc(t), 'column reset with the line advance')
    else:
        rule.fail('%s|column' % fw.qualname, fw.module.rel, t.lineno, fw.qualname, 'self.column = 0', 'the column is not reset at a line break')
    Mk = repo.cls('error.Mark')
    gs = Mk.methods.get('get_snippet')
    if gs is None:
        raise AnalysisError('Mark.get_snippet has vanished')
    lits = set()
    for c in walk_function(gs.node):
        if isinstance(c, ast.Compare) and isinstance(c.ops[0], (ast.In, ast.NotIn)):
            s = A.const_str(c.comparators[0])
            if s and set(s) & set(BREAKS):
                lits.add(s)
    want = set('\0\r\n\x85\u2028\u2029')
    if lits and all(set(s) == want for s in lits):
        rule.ok(gs.loc(), 'Mark.get_snippet delimits lines by the same set')
    else:
        rule.fail('%s|set' % gs.qualname, gs.module.rel, gs.node.lineno, gs.qualname, repr(sorted(lits)),
                  'Mark.get_snippet uses another line delimiter set than the reader/scanner')
    return rule


# ======================================================================================================================
# R-KEY-BEFORE-VALUE
# ======================================================================================================================

def _built_classes(repo, cls, flow, expr, at):
    """names of the classes of the object `expr` denotes at `at` (a construction, possibly kept in a local); [] if unknown"""
    out = []
    for kind, e, node, idx in origins(flow, expr, at):
        if kind != 'expr' or not isinstance(e, ast.Call):
            return []
        ks = callee_classes(repo, cls, flow, e)
        if not ks:
            return []
        out.extend(k.name for k in ks if k.name not in out)
    return out


def r_key_before_value(ctx, repo):
    rule = ctx.rule('R-KEY-BEFORE-VALUE', 'fetch_value inserts the KEY (and BLOCK-MAPPING-START) token at the saved token number before it '
                                          'appends VALUE; save_possible_simple_key records tokens_taken + len(tokens)')
    S = repo.cls('scanner.Scanner')
    f = S.methods.get('fetch_value')
    g = S.methods.get('save_possible_simple_key')
    if f is None or g is None:
        raise AnalysisError('fetch_value / save_possible_simple_key have vanished')
    flow = Flow(f)
    cfg = flow.cfg
    sn = self_name(f)

    def saved_key(e, at):
        """e denotes the candidate recorded for the current flow level"""
        og = origins(flow, e, at)
        return bool(og) and all(kind == 'expr' and (matches('self.possible_simple_keys[self.flow_level]', x) is not None or
                                                    matches('self.possible_simple_keys.pop(self.flow_level)', x) is not None)
                                for kind, x, n, i in og)
    ins = [c for c in A.func_calls(f.node) if matches('self.tokens.insert', c.func) is not None and len(c.args) == 2]
    at_saved = True
    kinds = {}
    for c in ins:
        at = flow.node_of(c)

        def atom(x, at):
            return '<key>.token_number' if isinstance(x, ast.Attribute) and x.attr == 'token_number' and saved_key(x.value, at) else None
        if _clean(lf_at(flow, c.args[0], at, atom)) != {'<key>.token_number': 1, '%s.tokens_taken' % sn: -1}:
            at_saved = False
        for k in _built_classes(repo, S, flow, c.args[1], at) or ['?']:
            kinds.setdefault(k, []).append(at)
    keys, bms = kinds.get('KeyToken', []), kinds.get('BlockMappingStartToken', [])
    # BLOCK-MAPPING-START is inserted at the same index after KEY, so that it ends up in front of it
    order = bool(keys) and bool(bms) and all(any(cfg.dominates(k, b) for k in keys) for b in bms) \
        and not any(k in cfg.reach([b]) for k in keys for b in bms)
    if ins and at_saved and set(kinds) == {'KeyToken', 'BlockMappingStartToken'} and order:
        rule.ok(f.loc(), 'KEY then BLOCK-MAPPING-START inserted at key.token_number - tokens_taken')
    else:
        rule.fail('%s|insert' % f.qualname, f.module.rel, f.node.lineno, f.qualname, 'self.tokens.insert(...)',
                  'the retroactive KEY / BLOCK-MAPPING-START tokens are not inserted at the position recorded for the simple key')
    val = [n for n in cfg.nodes if n.ast is not None and any(isinstance(s, ast.Call) and isinstance(s.func, ast.Name) and s.func.id == 'ValueToken'
                                                             for s in own_exprs(n))]
    insn = [flow.node_of(c) for c in ins]
    if val and insn and all(v in cfg.reach([i]) and i not in cfg.reach([v]) for v in val for i in insn):
        rule.ok(f.loc(), 'VALUE appended after the KEY insertion')
    else:
        rule.fail('%s|order' % f.qualname, f.module.rel, f.node.lineno, f.qualname, 'ValueToken', 'VALUE can be queued before its KEY')
    # save_possible_simple_key: the candidate stored for the current flow level carries tokens_taken + len(tokens)
    gflow = Flow(g)
    gs = self_name(g)
    SK = repo.cls('scanner.SimpleKey')
    stores = M.find(g.node, 'self.possible_simple_keys[self.flow_level] = __v')
    recorded = bool(stores)
    for st, e in stores:
        at = gflow.node_of(st)
        og = origins(gflow, e['__v'], at)
        if not og:
            recorded = False
        for kind, x, node, idx in og:
            if not (kind == 'expr' and isinstance(x, ast.Call) and SK in callee_classes(repo, S, gflow, x)):
                recorded = False
                continue
            tn = ctor_arg(repo, SK, x, 'token_number')
            if tn is None:
                recorded = False
                continue
            for k2, y, n2, i2 in origins(gflow, tn, node):
                if k2 != 'expr' or _clean(lf_at(gflow, y, n2)) != {'%s.tokens_taken' % gs: 1, 'len(%s.tokens)' % gs: 1}:
                    recorded = False
    if recorded:
        rule.ok(g.loc(), 'candidate recorded as tokens_taken + len(tokens) for the current flow level')
    else:
        rule.fail('%s|record' % g.qualname, g.module.rel, g.node.lineno, g.qualname, 'token_number = ...',
                  'the position of a possible simple key is not recorded as tokens_taken + len(tokens)')
    return rule


# ======================================================================================================================
# R-PARSER-STACK-DISCIPLINE
# ======================================================================================================================

NODE_STATES = {'parse_block_node', 'parse_flow_node', 'parse_block_node_or_indentless_sequence', 'parse_node',
               'parse_document_content'}
MAX_PATHS = 4000


def _state_ref(f, e):
    """self.<name> -> name"""
    return e.attr if isinstance(e, ast.Attribute) and isinstance(e.value, ast.Name) and e.value.id == self_name(f) else None


class _StackEvents:
    """per CFG node of a parser method: the stack-relevant events it performs, as (code, argument)

        S / Sn   self.state = <state> / <node-parsing state>       P   self.state = self.states.pop()
        A        self.states.append(...)                           D / Dn  delegation: call of a state / node state
        M+ / M-  self.marks.append(...) / self.marks.pop()
    Calls of helpers that are not part of the reference inventory (and could not be inlined) contribute the events of
    their own paths."""

    def __init__(self, repo, P, names):
        self.repo, self.P, self.names = repo, P, names
        self._summary = {}

    def node_events(self, f, n, name, stack=()):
        """list of alternatives, each a tuple of events"""
        a = n.ast
        if a is None:
            return [()]
        if n.kind == 'stmt' and isinstance(a, ast.Assign) and any(is_self_attr(t, f, 'state') for t in a.targets):
            if matches('self.states.pop()', a.value) is not None:
                return [(('P', None),)]
            if isinstance(a.value, ast.Constant) and a.value.value is None:
                return [(('S', None),)]        # end of stream
            nm = _state_ref(f, a.value)
            if nm in NODE_STATES:
                return [(('Sn', nm),)]       # the next state parses a child node
            return [(('S', nm),)]
        alts = [()]
        for sub in own_exprs(n):
            if not isinstance(sub, ast.Call):
                continue
            ev = None
            if matches('self.states.append', sub.func) is not None:
                ev = ('A', _state_ref(f, sub.args[0]) if sub.args else None)
            elif matches('self.marks.append', sub.func) is not None:
                ev = ('M+', None)
            elif matches('self.marks.pop', sub.func) is not None:
                ev = ('M-', None)
            elif is_self_call(sub, f) and sub.func.attr in self.names:
                ev = ('Dn' if sub.func.attr in NODE_STATES else 'D', sub.func.attr)
            elif is_self_call(sub, f):
                h = self.P.methods.get(sub.func.attr)
                if h is not None and is_new_helper(h) and h not in stack:
                    sm = self.summary(h, stack + (f,))
                    alts = [x + y for x in alts for y in sm]
                    if len(alts) > 64:
                        raise AnalysisError('%s: too many paths through the helpers it calls' % f.qualname)
                    continue
            if ev is not None:
                alts = [x + (ev,) for x in alts]
        return alts

    def paths(self, f, name, stack=()):
        """event sequences of all acyclic paths entry -> normal exit"""
        cfg = CFG(f.node)
        out = []
        work = [(cfg.entry, (), frozenset())]
        while work:
            n, evs, seen = work.pop()
            if n in seen:
                continue
            if n in (cfg.exit_return, cfg.exit_fall):
                out.append(evs)
                if len(out) > MAX_PATHS:
                    raise AnalysisError('%s: too many paths' % f.qualname)
                continue
            if n is cfg.exit_raise:
                continue
            for alt in self.node_events(f, n, name, stack):
                e2 = evs + alt
                for (m, lab) in cfg.succ[n]:
                    if lab == 'exc':
                        continue
                    work.append((m, e2, seen | {n}))
        return out

    def summary(self, h, stack):
        if h not in self._summary:
            self._summary[h] = sorted(set(self.paths(h, h.name, stack)))
        return self._summary[h]


def r_parser_stack_discipline(ctx, repo):
    rule = ctx.rule('R-PARSER-STACK-DISCIPLINE', 'on every path through a parser state function exactly one next-state decision is made '
                                                 '(direct assignment, pop of the continuation stack, or delegation), and a continuation is '
                                                 'pushed exactly when the path delegates to a node-parsing state')
    P = repo.cls('parser.Parser')
    methods = live_methods(repo, P)
    # state functions: assigned to self.state / pushed / delegated to
    names = set()
    for f in methods:
        for n in walk_function(f.node):
            if isinstance(n, ast.Assign) and any(is_self_attr(t, f, 'state') for t in n.targets) and _state_ref(f, n.value):
                names.add(n.value.attr)
            if isinstance(n, ast.Call) and matches('self.states.append', n.func) is not None and n.args and _state_ref(f, n.args[0]):
                names.add(n.args[0].attr)
    names |= NODE_STATES
    SE = _StackEvents(repo, P, names)
    all_paths = {}
    for name in sorted(names):
        f = P.methods.get(name)
        if f is None:
            raise AnalysisError('parser state %s is referenced but not defined' % name)
        paths = SE.paths(f, name)
        all_paths[name] = paths
        bad = []
        for p in paths:
            codes = [c for c, a in p]
            a = codes.count('A')
            dn = codes.count('Dn') + codes.count('Sn')
            dec = codes.count('S') + codes.count('P') + codes.count('D') + dn
            if name in NODE_STATES:
                # a node-entry state passes the pending continuation through: it never pushes
                if dec != 1 or a != 0:
                    bad.append(codes)
            elif dec != 1 or a != dn:
                bad.append(codes)
        if bad:
            b = [c for c in bad[0] if c not in ('M+', 'M-')]
            rule.fail('%s|%s' % (f.qualname, ''.join(b)), f.module.rel, f.node.lineno, f.qualname, 'def %s' % name,
                      'a path through %s performs %d push(es), %d delegation(s) to a node state and %d next-state decision(s) '
                      '(sequence %s): the continuation stack gets out of balance, so a later construct ends with the wrong '
                      'state (unbalanced events) or the final `assert not self.states` fails'
                      % (name, b.count('A'), b.count('Dn') + b.count('Sn'),
                         b.count('S') + b.count('P') + b.count('D') + b.count('Dn') + b.count('Sn'), '-'.join(b)))
        else:
            rule.ok(f.loc(), '%s: %d paths, each with one decision and push==node-delegation' % (name, len(paths)))
    rule.require_min(12, 'parser state functions')
    # marks stack: its depth is the number of open collections.  A state that opens a collection pushes one mark on every
    # path and hands over to the collection's entry state; that entry state pops one mark exactly on the paths that end the
    # collection (the ones that pop the continuation stack); nothing else touches the stack.
    problems = []
    openers, entries = {}, {}
    for name, paths in all_paths.items():
        pushes = [[c for c, a in p].count('M+') for p in paths]
        if any(pushes):
            if not all(k == 1 for k in pushes):
                problems.append('%s pushes a mark on some paths only (or twice)' % name)
            targets = {a for p in paths for c, a in p if c == 'D'}
            if len(targets) != 1 or not all([c for c, a in p].count('D') == 1 for p in paths):
                problems.append('%s pushes a mark but does not hand over to the entry state of a collection' % name)
            else:
                openers[name] = list(targets)[0]
                entries.setdefault(list(targets)[0], []).append(name)
    n_pops = 0
    for name, paths in all_paths.items():
        for p in paths:
            codes = [c for c, a in p]
            k = codes.count('M-')
            n_pops += k
            if name in entries:
                if 'M+' in codes:
                    problems.append('%s both opens and iterates a collection' % name)
                if codes.count('P') and k != 1:
                    problems.append('%s ends its collection without popping exactly one mark' % name)
                if not codes.count('P') and k:
                    problems.append('%s pops a mark although the collection continues' % name)
            elif k:
                problems.append('%s pops a mark but no state that pushes one hands over to it' % name)
    for f in methods:
        if f.name not in names and not is_new_helper(f):
            for c in A.func_calls(f.node):
                if matches('self.marks.append', c.func) is not None or matches('self.marks.pop', c.func) is not None:
                    problems.append('%s touches the marks stack outside the state functions' % f.name)
    if not openers or not n_pops:
        problems.append('no state pushes / pops the marks stack')
    if not problems:
        rule.ok(P.module.rel, 'marks: pushed by the %d states that open a collection, popped where their entry states end it'
                % len(openers))
    else:
        rule.fail('parser.Parser|marks', P.module.rel, P.node.lineno, 'parser.Parser', 'self.marks',
                  'the marks stack is not pushed once per collection start and popped once per collection end (%s)'
                  % '; '.join(sorted(set(problems))[:3]))
    return rule


# ======================================================================================================================
# R-EVENT-MARKS
# ======================================================================================================================

END_EVENTS = {'SequenceEndEvent', 'MappingEndEvent', 'DocumentEndEvent', 'StreamEndEvent'}


def _token_marks(flow, expr, at):
    """the token marks `expr` (evaluated at `at`) can denote: [(attr, how the token was obtained: 'peek'|'get'|'?', line)]"""
    f = flow.f
    out = []
    for kind, e, node, idx in origins(flow, expr, at):
        if kind == 'expr' and isinstance(e, ast.Attribute) and e.attr in ('start_mark', 'end_mark'):
            for k2, t, n2, i2 in origins(flow, e.value, node):
                how = '?'
                if k2 == 'expr' and is_self_call(t, f, 'peek_token'):
                    how = 'peek'
                elif k2 == 'expr' and is_self_call(t, f, 'get_token'):
                    how = 'get'
                out.append((e.attr, how, n2.lineno))
    return out


def r_event_marks(ctx, repo):
    rule = ctx.rule('R-EVENT-MARKS', 'an End event (or empty scalar) built from a token that was only peeked is zero-width at that '
                                     'token\'s start: it never extends over a token that belongs to the enclosing construct')
    P = repo.cls('parser.Parser')
    for f in live_methods(repo, P):
        sites = []
        flow = None
        assigned = set(f.params) | {n.id for n in walk_function(f.node) if isinstance(n, ast.Name) and isinstance(n.ctx, ast.Store)}
        for c in A.func_calls(f.node):
            if is_self_call(c, f, 'process_empty_scalar') and c.args:
                sites.append((c, 'empty scalar', [c.args[0]]))
            elif isinstance(c.func, ast.Name):
                # an End event class by name, or a local / parameter that may hold one
                r = repo.resolve_name(f.module, c.func.id)
                if c.func.id not in assigned and not (r is not None and r.kind == 'class' and r.obj.name in END_EVENTS):
                    continue
                flow = flow or Flow(f)
                ks = callee_classes(repo, P, flow, c)
                if ks and all(k.name in END_EVENTS for k in ks):
                    args = [ctor_arg(repo, ks[0], c, 'start_mark'), ctor_arg(repo, ks[0], c, 'end_mark')]
                    sites.append((c, '/'.join(sorted(k.name for k in ks)), [a for a in args if a is not None]))
        for c, what, args in sites:
            flow = flow or Flow(f)
            site = flow.node_of(c)
            problems = []
            for idx, a in enumerate(args):
                for attr, how, line in _token_marks(flow, a, site):
                    if how == 'peek' and attr == 'end_mark':
                        problems.append('argument %d is the end_mark of a token that was only peeked (line %d)' % (idx + 1, line))
                    if what == 'empty scalar' and how != 'peek' and attr == 'start_mark':
                        problems.append('the empty scalar is placed at the start_mark of a token that was already consumed (line '
                                        '%d): it lies before the end of what the parser has just reported' % line)
            if problems:
                rule.fail('%s|%s' % (f.qualname, what), f.module.rel, c.lineno, f.qualname, norm(c)[:80],
                          '%s: %s - the event overlaps the next token, so the following event starts before this one ends '
                          '(marks move backwards)' % (what, problems[0]))
            else:
                rule.ok(f.loc(c), '%s marks come from consumed tokens or are zero-width' % what)
    rule.require_min(12, 'End event / empty scalar construction sites')
    return rule
