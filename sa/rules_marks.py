"""C09: tokens and events are grammatical, positions are true (pairing / ordering / agreement clauses)."""
import ast

from . import astutil as A
from . import charworld as CW
from .cfg import CFG, own_exprs, reaching_defs, defs_of
from .srcmodel import AnalysisError, FuncInfo, norm, walk_function

BREAKS = '\n\x85\u2028\u2029'


def _forward_effect(repo, cls, f, _memo, _stack=()):
    """does calling f (a scanner method) possibly move the reader position?"""
    if f in _memo:
        return _memo[f]
    if f in _stack:
        return False
    res = False
    for c in A.func_calls(f.node):
        if isinstance(c.func, ast.Attribute) and isinstance(c.func.value, ast.Name) and c.func.value.id == 'self':
            if c.func.attr == 'forward':
                res = True
            else:
                found = repo.lookup(cls, c.func.attr)
                if found and isinstance(found[1], FuncInfo) and found[1].module.name == 'scanner':
                    if _forward_effect(repo, cls, found[1], _memo, _stack + (f,)):
                        res = True
    _memo[f] = res
    return res


def r_mark_order(ctx, repo):
    rule = ctx.rule('R-MARK-ORDER', 'in every scanner function that builds a token from two marks, the start mark is taken before any '
                                    'call that moves the reader and every mark that can become the end mark is taken at or after it')
    cls = repo.cls('loader.SafeLoader')
    S = repo.cls('scanner.Scanner')
    memo = {}
    n_sites = 0
    for f in S.methods.values():
        cfg = None
        for c in A.func_calls(f.node):
            fn = norm(c.func)
            if not (fn.endswith('Token') or fn == 'TokenClass'):
                continue
            marks = [a for a in c.args if isinstance(a, ast.Name) and 'mark' in a.id]
            if len(marks) < 2:
                continue
            start, end = marks[-2], marks[-1]
            n_sites += 1
            if start.id == end.id:
                rule.ok(f.loc(c), '%s(%s, %s): zero-width token' % (fn, start.id, end.id))
                continue
            if cfg is None:
                cfg = CFG(f.node)
            site = cfg.nodes_of(A.enclosing_stmt(c))
            if not site:
                raise AnalysisError('%s: token construction site not in CFG' % f.qualname)
            site = site[0]
            rd_s = reaching_defs(cfg, start.id)[site]
            rd_e = reaching_defs(cfg, end.id)[site]
            if not rd_s or not rd_e:
                # a parameter (start_mark passed in): taken by the caller before the call
                if not rd_s and start.id in f.params:
                    rd_s = {cfg.entry}
                else:
                    raise AnalysisError('%s: no definition of %s/%s reaches the token construction' % (f.qualname, start.id, end.id))
            movers = []
            for n in cfg.nodes:
                if n.ast is None:
                    continue
                for sub in own_exprs(n):
                    if isinstance(sub, ast.Call) and isinstance(sub.func, ast.Attribute) and isinstance(sub.func.value, ast.Name) \
                            and sub.func.value.id == 'self':
                        if sub.func.attr == 'forward':
                            movers.append(n)
                        else:
                            found = repo.lookup(cls, sub.func.attr)
                            if found and isinstance(found[1], FuncInfo) and found[1].module.name == 'scanner' \
                                    and _forward_effect(repo, cls, found[1], memo):
                                movers.append(n)
            problems = []
            for ds in rd_s:
                if ds is cfg.entry:
                    continue
                # the start definition must be a get_mark() and no mover may precede it on any path
                val = ds.ast.value if isinstance(ds.ast, ast.Assign) else None
                if val is None or norm(val) != 'self.get_mark()':
                    problems.append('the start mark %s is not taken with self.get_mark()' % start.id)
                    continue
                before = cfg.reach([cfg.entry], blocked=[ds])
                first_movers = [m for m in movers if m in before and m is not ds and ds in cfg.reach([m])]
                # movers that can execute before ds on a path leading to ds, excluding loops back (token built once per call)
                for m in first_movers:
                    if not cfg.dominates(ds, m):
                        problems.append('the reader may already have moved (%s) when the start mark is taken'
                                        % norm(m.ast).split('\n')[0][:40])
                        break
            for de in rd_e:
                val = de.ast.value if isinstance(de.ast, ast.Assign) else None
                if val is None:
                    continue
                vt = norm(val)
                if vt == start.id:
                    continue            # end_mark = start_mark
                if vt == 'self.get_mark()' or 'end_mark' in norm(de.ast.targets[0]) or isinstance(de.ast.targets[0], ast.Tuple):
                    # must be evaluated at or after the start definition on every path
                    for ds in rd_s:
                        if ds is cfg.entry:
                            continue
                        if not cfg.dominates(ds, de):
                            problems.append('the end mark can be taken before the start mark (%s at line %d)' % (vt[:30], de.lineno))
                else:
                    problems.append('the end mark is computed as %s' % vt[:40])
            if problems:
                rule.fail('%s|%s|%s' % (f.qualname, fn, problems[0][:60]), f.module.rel, c.lineno, f.qualname, norm(c)[:80],
                          '%s: %s - a token whose start mark lies after its end mark, or not at its first character'
                          % (fn, '; '.join(sorted(set(problems)))))
            else:
                rule.ok(f.loc(c), '%s(%s, %s): start taken first, end at or after it' % (fn, start.id, end.id))
    rule.require_min(15, 'token construction sites')
    return rule


def _line_advance_test(f):
    for n in walk_function(f.node):
        if isinstance(n, ast.If) and any(isinstance(s, ast.AugAssign) and norm(s.target) == 'self.line' for s in n.body):
            return n
    return None


def r_breakset_positions(ctx, repo):
    rule = ctx.rule('R-BREAKSET-AGREEMENT(positions)', 'the characters that advance Reader.line are exactly those Scanner.scan_line_break '
                                                       'consumes as a line break (CR LF once), and Mark.get_snippet stops at the same set')
    R = repo.cls('reader.Reader')
    fw = R.methods.get('forward')
    if fw is None:
        raise AnalysisError('Reader.forward has vanished')
    t = _line_advance_test(fw)
    if t is None:
        raise AnalysisError('Reader.forward: line counting not found')
    cls = repo.cls('loader.SafeLoader')
    slb = repo.func('scanner.Scanner.scan_line_break')
    probes = sorted(set(CW.representative_chars(repo, 'scanner')) | set('\r\n\x85\u2028\u2029\x0b\x0c\x1c\x1d\x1e a'))
    bad = []
    for c in probes:
        if c == '\0':
            continue
        # reader: is c (followed by something that is not LF) a line advance?
        src = norm(t.test).replace('self.buffer[self.pointer]', "'x'")
        r_adv = CW.eval_cond(repo, ast.parse(src, mode='eval').body, {'ch': c})
        src2 = norm(t.test).replace('self.buffer[self.pointer]', "'\\n'")
        r_adv_lf = CW.eval_cond(repo, ast.parse(src2, mode='eval').body, {'ch': c})
        # scanner: does scan_line_break treat c as a break?
        it = CW.Interp(repo, cls, c, 'self.peek()', None)
        ends = it.run_block(slb.node.body, CW.State({}), 0)
        rets = {(v[1] if CW.is_const(v) else None) for k, v, s in ends if k == 'return'}
        s_break = rets and all(x for x in rets)
        s_none = rets == {''}
        if r_adv is None or not (s_break or s_none):
            raise AnalysisError('break-set comparison undecidable for %r' % c)
        if bool(r_adv) != bool(s_break):
            bad.append((c, r_adv, s_break))
        if c == '\r' and r_adv_lf is not False:
            bad.append(('\r\n', r_adv_lf, 'one break'))
    if bad:
        rule.fail('reader-vs-scanner|%s' % ''.join(repr(b[0]) for b in bad)[:40], fw.module.rel, t.lineno, fw.qualname, norm(t.test)[:90],
                  'Reader.forward and Scanner.scan_line_break disagree on %s (reader advances line: %s, scanner treats as break: %s): '
                  'every mark after such a character names a line/column that does not exist in the input'
                  % (', '.join(repr(b[0]) for b in bad[:4]), bad[0][1], bad[0][2]))
    else:
        rule.ok(fw.loc(t), 'line advance set == scanner break set over %d probe characters; CR LF counted once' % len(probes))
    # column reset accompanies the line advance; BOM does not count as a column
    body = norm(t.body)
    if 'self.column = 0' in body:
        rule.ok(fw.loc(t), 'column reset with the line advance')
    else:
        rule.fail('%s|column' % fw.qualname, fw.module.rel, t.lineno, fw.qualname, 'self.column = 0', 'the column is not reset at a line break')
    M = repo.cls('error.Mark')
    gs = M.methods.get('get_snippet')
    lits = set()
    for c in walk_function(gs.node):
        if isinstance(c, ast.Compare) and isinstance(c.ops[0], (ast.In, ast.NotIn)):
            s = A.const_str(c.comparators[0])
            if s and set(s) & set(BREAKS):
                lits.add(s)
    want = set('\0\r\n\x85\u2028\u2029')
    if lits and all(set(s) == want for s in lits):
        rule.ok(gs.loc(), 'Mark.get_snippet delimits lines by the same set')
    else:
        rule.fail('%s|set' % gs.qualname, gs.module.rel, gs.node.lineno, gs.qualname, repr(sorted(lits)),
                  'Mark.get_snippet uses another line delimiter set than the reader/scanner')
    return rule


def r_key_before_value(ctx, repo):
    rule = ctx.rule('R-KEY-BEFORE-VALUE', 'fetch_value inserts the KEY (and BLOCK-MAPPING-START) token at the saved token number before it '
                                          'appends VALUE; save_possible_simple_key records tokens_taken + len(tokens)')
    S = repo.cls('scanner.Scanner')
    f = S.methods.get('fetch_value')
    g = S.methods.get('save_possible_simple_key')
    if f is None or g is None:
        raise AnalysisError('fetch_value / save_possible_simple_key have vanished')
    ins = sorted([c for c in A.func_calls(f.node) if norm(c.func) == 'self.tokens.insert'], key=lambda c: c.lineno)
    ok = len(ins) == 2 and all(norm(c.args[0]) == 'key.token_number - self.tokens_taken' for c in ins)
    kinds = [norm(c.args[1].func) for c in ins if isinstance(c.args[1], ast.Call)]
    if ok and kinds == ['KeyToken', 'BlockMappingStartToken']:
        rule.ok(f.loc(), 'KEY then BLOCK-MAPPING-START inserted at key.token_number - tokens_taken')
    else:
        rule.fail('%s|insert' % f.qualname, f.module.rel, f.node.lineno, f.qualname, 'self.tokens.insert(...)',
                  'the retroactive KEY / BLOCK-MAPPING-START tokens are not inserted at the position recorded for the simple key')
    cfg = CFG(f.node)
    val = [n for n in cfg.nodes if n.ast is not None and any(isinstance(s, ast.Call) and norm(s.func) == 'ValueToken' for s in own_exprs(n))]
    insn = [n for n in cfg.nodes if n.ast is not None and any(isinstance(s, ast.Call) and norm(s.func) == 'self.tokens.insert' for s in own_exprs(n))]
    if val and insn and all(v in cfg.reach([i]) and i not in cfg.reach([v]) for v in val for i in insn):
        rule.ok(f.loc(), 'VALUE appended after the KEY insertion')
    else:
        rule.fail('%s|order' % f.qualname, f.module.rel, f.node.lineno, f.qualname, 'ValueToken', 'VALUE can be queued before its KEY')
    t = norm(g.node)
    if 'token_number = self.tokens_taken + len(self.tokens)' in t and 'self.possible_simple_keys[self.flow_level] = key' in t:
        rule.ok(g.loc(), 'candidate recorded as tokens_taken + len(tokens) for the current flow level')
    else:
        rule.fail('%s|record' % g.qualname, g.module.rel, g.node.lineno, g.qualname, 'token_number = ...',
                  'the position of a possible simple key is not recorded as tokens_taken + len(tokens)')
    return rule


NODE_STATES = {'parse_block_node', 'parse_flow_node', 'parse_block_node_or_indentless_sequence', 'parse_node',
               'parse_document_content'}


def r_parser_stack_discipline(ctx, repo):
    rule = ctx.rule('R-PARSER-STACK-DISCIPLINE', 'on every path through a parser state function exactly one next-state decision is made '
                                                 '(direct assignment, pop of the continuation stack, or delegation), and a continuation is '
                                                 'pushed exactly when the path delegates to a node-parsing state')
    P = repo.cls('parser.Parser')
    # state functions: assigned to self.state / pushed / delegated to
    names = set()
    for f in P.methods.values():
        for n in walk_function(f.node):
            if isinstance(n, ast.Assign) and any(norm(t) == 'self.state' for t in n.targets) and isinstance(n.value, ast.Attribute) \
                    and norm(n.value.value) == 'self':
                names.add(n.value.attr)
            if isinstance(n, ast.Call) and norm(n.func) == 'self.states.append' and n.args and isinstance(n.args[0], ast.Attribute):
                names.add(n.args[0].attr)
    names |= NODE_STATES
    count = 0
    for name in sorted(names):
        f = P.methods.get(name)
        if f is None:
            raise AnalysisError('parser state %s is referenced but not defined' % name)
        cfg = CFG(f.node)

        def classify(n):
            a = n.ast
            if a is None:
                return None
            if n.kind == 'stmt' and isinstance(a, ast.Assign) and any(norm(t) == 'self.state' for t in a.targets):
                if norm(a.value) == 'self.states.pop()':
                    return 'P'
                if isinstance(a.value, ast.Constant) and a.value.value is None:
                    return 'S'        # end of stream
                if isinstance(a.value, ast.Attribute) and a.value.attr in NODE_STATES:
                    return 'Sn'       # the next state parses a child node
                return 'S'
            for sub in own_exprs(n):
                if isinstance(sub, ast.Call) and norm(sub.func) == 'self.states.append':
                    return 'A'
                if isinstance(sub, ast.Call) and isinstance(sub.func, ast.Attribute) and norm(sub.func.value) == 'self' \
                        and sub.func.attr in names and sub.func.attr != name + '_':
                    return 'Dn' if sub.func.attr in NODE_STATES else 'D'
            return None
        # enumerate acyclic paths entry -> normal exit, counting
        bad = []
        paths = 0
        stack = [(cfg.entry, (), frozenset())]
        while stack:
            n, counts, seen = stack.pop()
            if n in seen:
                continue
            k = classify(n)
            c2 = counts + ((k,) if k else ())
            if n in (cfg.exit_return, cfg.exit_fall):
                paths += 1
                a = c2.count('A')
                dn = c2.count('Dn') + c2.count('Sn')
                dec = c2.count('S') + c2.count('P') + c2.count('D') + dn
                if name in NODE_STATES:
                    # a node-entry state passes the pending continuation through: it never pushes
                    if dec != 1 or a != 0:
                        bad.append(c2)
                elif dec != 1 or a != dn:
                    bad.append(c2)
                continue
            if n is cfg.exit_raise:
                continue
            if paths > 4000:
                raise AnalysisError('%s: too many paths' % f.qualname)
            for (m, lab) in cfg.succ[n]:
                if lab == 'exc':
                    continue
                stack.append((m, c2, seen | {n}))
        count += 1
        if bad:
            b = bad[0]
            rule.fail('%s|%s' % (f.qualname, ''.join(b)), f.module.rel, f.node.lineno, f.qualname, 'def %s' % name,
                      'a path through %s performs %d push(es), %d delegation(s) to a node state and %d next-state decision(s) '
                      '(sequence %s): the continuation stack gets out of balance, so a later construct ends with the wrong '
                      'state (unbalanced events) or the final `assert not self.states` fails'
                      % (name, b.count('A'), b.count('Dn') + b.count('Sn'),
                         b.count('S') + b.count('P') + b.count('D') + b.count('Dn') + b.count('Sn'), '-'.join(b)))
        else:
            rule.ok(f.loc(), '%s: %d paths, each with one decision and push==node-delegation' % (name, paths))
    rule.require_min(20, 'parser state functions')
    # marks stack: pushed in the *_first_* handlers, popped where the matching end event is built
    pushes = [(f, c) for f in P.methods.values() for c in A.func_calls(f.node) if norm(c.func) == 'self.marks.append']
    pops = [(f, c) for f in P.methods.values() for c in A.func_calls(f.node) if norm(c.func) == 'self.marks.pop']
    okm = len(pushes) == len(pops) and all('first' in f.name for f, c in pushes)
    for f, c in pops:
        body = norm(getattr(A.enclosing_stmt(c), '_parent', f.node))
        if 'EndEvent(' not in norm(f.node):
            okm = False
    if okm:
        rule.ok(P.module.rel, 'marks: %d pushes in *_first_* handlers, %d pops next to the End events' % (len(pushes), len(pops)))
    else:
        rule.fail('parser.Parser|marks', P.module.rel, P.node.lineno, 'parser.Parser', 'self.marks',
                  'the marks stack is not pushed once per collection start and popped once per collection end')
    return rule


END_EVENTS = {'SequenceEndEvent', 'MappingEndEvent', 'DocumentEndEvent', 'StreamEndEvent'}


def r_event_marks(ctx, repo):
    rule = ctx.rule('R-EVENT-MARKS', 'an End event (or empty scalar) built from a token that was only peeked is zero-width at that '
                                     'token\'s start: it never extends over a token that belongs to the enclosing construct')
    P = repo.cls('parser.Parser')
    n_sites = 0
    for f in P.methods.values():
        calls = [c for c in A.func_calls(f.node) if norm(c.func) in END_EVENTS]
        if not calls:
            continue
        cfg = CFG(f.node)
        rd_tok = reaching_defs(cfg, 'token')
        for c in calls:
            n_sites += 1
            site = cfg.nodes_of(A.enclosing_stmt(c))
            if not site:
                continue
            site = site[0]
            args = c.args[:2]
            problems = []
            for idx, a in enumerate(args):
                srcs = []
                if isinstance(a, ast.Attribute) and isinstance(a.value, ast.Name) and a.value.id == 'token':
                    srcs.append((a.attr, rd_tok[site]))
                elif isinstance(a, ast.Name):
                    for d in reaching_defs(cfg, a.id)[site]:
                        v = d.ast.value if isinstance(d.ast, ast.Assign) else None
                        if isinstance(v, ast.Attribute) and isinstance(v.value, ast.Name) and v.value.id == 'token':
                            srcs.append((v.attr, rd_tok[d]))
                for attr, tdefs in srcs:
                    for td in tdefs:
                        tv = td.ast.value if isinstance(td.ast, ast.Assign) else None
                        if tv is not None and norm(tv) == 'self.peek_token()' and attr == 'end_mark':
                            problems.append('argument %d is the end_mark of a token that was only peeked (line %d)' % (idx + 1, td.lineno))
            if problems:
                rule.fail('%s|%s' % (f.qualname, norm(c.func)), f.module.rel, c.lineno, f.qualname, norm(c)[:80],
                          '%s: %s - the event overlaps the next token, so the following event starts before this one ends '
                          '(marks move backwards)' % (norm(c.func), problems[0]))
            else:
                rule.ok(f.loc(c), '%s marks come from consumed tokens or are zero-width' % norm(c.func))
    rule.require_min(8, 'End event construction sites')
    return rule
