"""Rules over the class-level registries: R-COW, R-SOLE-WRITER, R-REGISTRY-DECL, R-FANOUT,
R-DISPATCH-SELF, R-TABLE-CLOSED (C10, C01, C04, C02, C17)."""
import ast

from . import astutil as A
from . import tables as T
from .cfg import CFG
from .srcmodel import AnalysisError, ClassInfo, FuncInfo, norm, walk_function

CORE = 'tag:yaml.org,2002:'
CORE_TAGS = {CORE + t for t in ('null', 'bool', 'int', 'float', 'binary', 'timestamp', 'omap', 'pairs',
                                'set', 'str', 'seq', 'map')}
FULL_EXTRA = {CORE + 'python/' + t for t in ('none', 'bool', 'str', 'unicode', 'bytes', 'int', 'long',
                                             'float', 'complex', 'list', 'tuple', 'dict')}
FULL_MULTI = {CORE + 'python/name:'}
UNSAFE_MULTI = {CORE + 'python/' + t for t in ('name:', 'module:', 'object:', 'object/new:', 'object/apply:')}

SAFE_LOADERS = ['loader.SafeLoader', 'cyaml.CSafeLoader']
BASE_LOADERS = ['loader.BaseLoader', 'cyaml.CBaseLoader']
FULL_LOADERS = ['loader.FullLoader', 'cyaml.CFullLoader']
UNSAFE_LOADERS = ['loader.UnsafeLoader', 'loader.Loader', 'cyaml.CUnsafeLoader', 'cyaml.CLoader']
SAFE_DUMPERS = ['dumper.SafeDumper', 'cyaml.CSafeDumper']
BASE_DUMPERS = ['dumper.BaseDumper', 'cyaml.CBaseDumper']
PROTECTED_UNIVERSES = SAFE_LOADERS + BASE_LOADERS + SAFE_DUMPERS + BASE_DUMPERS


class RegistryModel:
    """Everything derived once per run about the registries."""

    def __init__(self, repo):
        self.repo = repo
        self.regs = T.discover_registries(repo)
        for r in self.regs.values():
            for w in r.writers:
                T.check_cow(repo, w)
        self.heap, self.registrations = T.fold_registrations(repo, self.regs)

    def table(self, qualname, reg):
        return self.heap.table(self.repo.cls(qualname), reg)


def model(repo):
    if not hasattr(repo, '_registry_model'):
        repo._registry_model = RegistryModel(repo)
    return repo._registry_model


def r_cow(ctx, repo, only=None):
    rm = model(repo)
    rule = ctx.rule('R-COW', 'every write of a class registry in an add_* classmethod is preceded on every path '
                             'by the ownership test-and-copy, deep enough for the writes that follow')
    n = 0
    for reg in rm.regs.values():
        if only and reg.name not in only:
            continue
        for w in reg.writers:
            n += 1
            if w.problems:
                for key, node, why in w.problems:
                    rule.fail('%s|%s' % (w.func.qualname, key), w.func.module.rel, node.lineno,
                              w.func.qualname, norm(node).split('\n')[0][:100], why)
            else:
                rule.ok(w.func.loc(), '%s owns cls.%s before %d write(s)%s' % (
                    w.func.qualname, reg.name, len(w.mutations), ' (element copy)' if w.needs_deep else ''))
    rule.require_min(6 if not only else len(only), 'add_* writers')
    if not only and len(rm.regs) < 6:
        raise AnalysisError('only %d class registries discovered (6 confirmed by reading)' % len(rm.regs))
    return rule


def r_sole_writer(ctx, repo):
    rm = model(repo)
    rule = ctx.rule('R-SOLE-WRITER', 'no statement outside the add_* owners mutates or rebinds a class registry')
    viol = T.sole_writer_violations(repo, rm.regs)
    for f, m, reg in viol:
        rule.fail('%s|%s|%s' % (f.qualname, reg, norm(m.stmt).split('\n')[0]), f.module.rel, m.node.lineno,
                  f.qualname, norm(m.stmt).split('\n')[0][:100],
                  '%s %s the class-level registry %s outside its add_* owner: a write made here is shared by every '
                  'class that inherits the table' % (f.qualname, 'rebinds' if m.kind == 'rebind' else 'mutates', reg))
    nfun = 0
    for f in repo.all_functions():
        nfun += 1
    rule.instances += nfun
    rule.distinct.add(('functions scanned', nfun))
    rule.samples.append('%d functions in %d modules scanned for writes to %s: none outside the owners'
                        % (nfun, len(repo.modules), sorted(rm.regs)))
    return rule


def r_registry_decl(ctx, repo):
    rm = model(repo)
    rule = ctx.rule('R-REGISTRY-DECL', 'every class-body binding of a registry is a fresh dict display')
    for cls, name, v, ok in T.class_body_declarations(repo, rm.regs):
        if ok:
            rule.ok('%s:%d' % (cls.module.rel, v.lineno), '%s.%s = %s' % (cls.name, name, norm(v)))
        else:
            rule.fail('%s|%s' % (cls.qualname, name), cls.module.rel, v.lineno, cls.qualname,
                      '%s = %s' % (name, norm(v)),
                      'class body binds registry %s to something that is not a fresh dict: the object may be shared '
                      'with another class' % name)
    rule.require_min(6, 'declarations')
    return rule


def protected_classes(repo):
    out = set()
    for q in PROTECTED_UNIVERSES:
        for k in repo.cls(q).mro_classes():
            out.add(k)
    return out


def r_fanout(ctx, repo):
    rm = model(repo)
    rule = ctx.rule('R-FANOUT', 'registrations made inside functions (yaml.add_* helpers, YAMLObject metaclass) target '
                                'only the caller-given class or the documented non-safe defaults')
    prot = protected_classes(repo)
    init = repo.modules['__init__']
    seen = 0
    for f, call, recv in T.dynamic_registrations(repo, rm.regs):
        if f.node in {w.func.node for r in rm.regs.values() for w in r.writers}:
            continue
        seen += 1
        where = f.loc(call)
        text = norm(call.func)
        try:
            targets = _receiver_classes(repo, f, recv)
        except DynamicTargets as e:
            rule.fail('%s|dynamic|%s' % (f.qualname, text), f.module.rel, call.lineno, f.qualname, norm(call)[:100],
                      'the classes this registration reaches are computed at run time (%s): the fan-out is no longer the '
                      'documented fixed set and may include the safe / base classes' % e)
            continue
        if targets is None:
            raise AnalysisError('%s: cannot determine the class targeted by %s' % (where, text))
        bad = [t for t in targets if isinstance(t, ClassInfo) and t in prot]
        if bad:
            rule.fail('%s|%s' % (f.qualname, text), f.module.rel, call.lineno, f.qualname, norm(call)[:100],
                      'registration reaches %s, which is (a base of) a shipped safe/base class'
                      % ', '.join(b.qualname for b in bad))
        else:
            rule.ok(where, '%s -> %s' % (text, ', '.join(t.qualname if isinstance(t, ClassInfo) else str(t)
                                                         for t in targets)))
    # the metaclass registers only for classes that set yaml_tag themselves
    meta = init.classes.get('YAMLObjectMetaclass')
    if meta is None or '__init__' not in meta.methods:
        raise AnalysisError('YAMLObjectMetaclass.__init__ has vanished')
    mf = meta.methods['__init__']
    cfg = CFG(mf.node)
    from . import match as M
    in_edges, nn_edges, get_edges = [], [], []
    for n in cfg.nodes:
        if n.kind == 'test':
            if M.match(M.compile_pattern("'yaml_tag' in __d")[1], n.ast, {}):
                in_edges.append((n, True))
            elif M.match(M.compile_pattern("'yaml_tag' not in __d")[1], n.ast, {}):
                in_edges.append((n, False))
            elif M.match(M.compile_pattern("__d['yaml_tag'] is not None")[1], n.ast, {}):
                nn_edges.append((n, True))
            elif M.match(M.compile_pattern("__d['yaml_tag'] is None")[1], n.ast, {}):
                nn_edges.append((n, False))
            elif M.match(M.compile_pattern("__d.get('yaml_tag') is not None")[1], n.ast, {}) or \
                    M.match(M.compile_pattern("__d.get('yaml_tag', None) is not None")[1], n.ast, {}):
                get_edges.append((n, True))
            elif M.match(M.compile_pattern("__d.get('yaml_tag') is None")[1], n.ast, {}):
                get_edges.append((n, False))

    def tag_guarded(n):
        if get_edges and cfg.guarded(n, edges=get_edges):
            return True
        return bool(in_edges) and bool(nn_edges) and cfg.guarded(n, edges=in_edges) and cfg.guarded(n, edges=nn_edges)
    for c in A.func_calls(mf.node):
        if isinstance(c.func, ast.Attribute) and c.func.attr in ('add_constructor', 'add_representer',
                                                                  'add_multi_constructor', 'add_multi_representer'):
            st = A.enclosing_stmt(c)
            nodes = cfg.nodes_of(st)
            if nodes and all(tag_guarded(n) for n in nodes):
                rule.ok(mf.loc(c), '%s only when the class body sets yaml_tag' % norm(c.func))
            else:
                rule.fail('%s|unguarded|%s' % (mf.qualname, norm(c.func)), mf.module.rel, c.lineno, mf.qualname,
                          norm(c)[:100], 'the metaclass registers even for subclasses that do not define yaml_tag '
                                         '(a None tag would become a catch-all entry of the loader tables)')
    rule.require_min(10, 'registration call sites')
    return rule


class DynamicTargets(Exception):
    """the set of classes is computed at run time (getattr / comprehension over names): not a fixed documented set."""


def _yaml_object_attr(repo, attr):
    yo = repo.modules['__init__'].classes.get('YAMLObject')
    if yo is None:
        return None
    vals = yo.attrs.get(attr)
    if not vals:
        return None
    out = []
    for e in _elements(vals[-1]):
        r = repo.resolve_expr(yo.module, e)
        if r is None or r.kind != 'class':
            return None
        out.append(r.obj)
    return out + ['<subclass-given %s>' % attr]


def _elements(v):
    return list(v.elts) if isinstance(v, (ast.List, ast.Tuple, ast.Set)) else [v]


_IN_PROGRESS = set()


def _value_classes(repo, f, expr, at=None, depth=0):
    if isinstance(expr, ast.Name):
        k = ('v', f.qualname, expr.id, id(at) if at is not None and _enclosing_for(at, f, expr.id) is not None else 0)
        if k in _IN_PROGRESS:
            return []
        _IN_PROGRESS.add(k)
        try:
            return _value_classes_1(repo, f, expr, at, depth)
        finally:
            _IN_PROGRESS.discard(k)
    return _value_classes_1(repo, f, expr, at, depth)


def _enclosing_for(at, f, name):
    p = getattr(at, '_parent', None)
    while p is not None and p is not f.node:
        if isinstance(p, ast.For) and isinstance(p.target, ast.Name) and p.target.id == name:
            return p
        p = getattr(p, '_parent', None)
    return None


def _const_names(f, e, at):
    """the strings an expression can be: a literal, or the variable of an enclosing loop over a constant tuple of strings
    (inline, or a module-level name bound once to one).  None when not determined."""
    s = A.const_str(e)
    if s is not None:
        return [s]
    if isinstance(e, ast.Name) and at is not None:
        p = getattr(at, '_parent', None)
        while p is not None and p is not f.node:
            if isinstance(p, ast.For) and isinstance(p.target, ast.Name) and p.target.id == e.id:
                it = p.iter
                if isinstance(it, ast.Name):
                    binds = f.module.bindings.get(it.id, [])
                    if len(binds) != 1 or any(isinstance(x, ast.Name) and x.id == it.id and isinstance(x.ctx, ast.Store)
                                              for x in walk_function(f.node)):
                        return None
                    it = binds[0]
                v = A.const_value(it)
                if isinstance(v, (tuple, list)) and v and all(isinstance(x, str) for x in v):
                    return list(v)
                return None
            p = getattr(p, '_parent', None)
    return None


def _value_classes_1(repo, f, expr, at=None, depth=0):
    """classes an expression may denote inside function f (None: undetermined; raises DynamicTargets when the value is
    computed from names at run time).  Follows loop variables to the elements of what they iterate over, locals to their
    definitions (list displays, append/extend), and calls of package functions to what they return / yield."""
    if depth > 8:
        return None
    m = f.module
    if isinstance(expr, ast.IfExp):
        a = _value_classes(repo, f, expr.body, at, depth + 1)
        b = _value_classes(repo, f, expr.orelse, at, depth + 1)
        return None if a is None or b is None else a + [x for x in b if x not in a]
    if isinstance(expr, (ast.List, ast.Tuple, ast.Set)):
        out = []
        for e in expr.elts:
            if isinstance(e, ast.Starred):
                r = _iter_classes(repo, f, e.value, at, depth + 1)
            else:
                r = _value_classes(repo, f, e, at, depth + 1)
            if r is None:
                return None
            out += [x for x in r if x not in out]
        return out
    if isinstance(expr, (ast.ListComp, ast.GeneratorExp, ast.SetComp)):
        raise DynamicTargets(norm(expr)[:80])
    if isinstance(expr, ast.Call) and norm(expr.func) == 'getattr' and len(expr.args) == 2 and not expr.keywords:
        # getattr(<module or class of the package>, <name>) with the name a literal or the variable of a loop over a constant
        # tuple of names is the fixed set of attributes it spells
        names = _const_names(f, expr.args[1], at)
        if names is not None:
            out = []
            for nm in names:
                r = repo.resolve_expr(m, ast.Attribute(value=expr.args[0], attr=nm, ctx=ast.Load())) if nm.isidentifier() else None
                if r is None or r.kind != 'class':
                    out = None
                    break
                if r.obj not in out:
                    out.append(r.obj)
            if out is not None:
                return out
        raise DynamicTargets(norm(expr)[:80])
    if isinstance(expr, ast.Call) and norm(expr.func) in ('getattr', 'globals', 'vars', 'eval'):
        raise DynamicTargets(norm(expr)[:80])
    if isinstance(expr, ast.Name):
        # innermost enclosing for-loop binding this name (takes precedence over a parameter of the same name)
        if at is not None:
            p = getattr(at, '_parent', None)
            while p is not None and p is not f.node:
                if isinstance(p, ast.For) and any(isinstance(x, ast.Name) and x.id == expr.id for x in ast.walk(p.target)) \
                        and isinstance(p.target, ast.Name):
                    return _iter_classes(repo, f, p.iter, p, depth + 1)
                p = getattr(p, '_parent', None)
        if expr.id in f.params + [a.arg for a in f.node.args.kwonlyargs]:
            stored = any(isinstance(n, ast.Name) and n.id == expr.id and isinstance(n.ctx, ast.Store) for n in walk_function(f.node))
            if not stored or at is None:
                d = f.defaults().get(expr.id)
                if d is None or (isinstance(d, ast.Constant) and d.value is None):
                    return ['<caller-given %s>' % expr.id]
                r = repo.resolve_expr(m, d)
                if r is None or r.kind != 'class':
                    return None
                return [r.obj, '<caller-given %s>' % expr.id]
        r = repo.resolve_expr(m, expr)
        if r is not None and r.kind == 'class':
            return [r.obj]
        # a local: union of what is assigned to it
        out, found = [], False
        for n in walk_function(f.node):
            if isinstance(n, ast.Assign) and any(isinstance(t, ast.Name) and t.id == expr.id for t in n.targets):
                found = True
                v = _value_classes(repo, f, n.value, n, depth + 1)
                if v is None:
                    return None
                out += [x for x in v if x not in out]
        if expr.id in f.params and found:
            d = f.defaults().get(expr.id)
            if d is None or (isinstance(d, ast.Constant) and d.value is None):
                out.append('<caller-given %s>' % expr.id)
        return out if found else None
    if isinstance(expr, ast.Attribute) and isinstance(expr.value, ast.Name) and expr.attr in ('yaml_loader', 'yaml_dumper'):
        return _yaml_object_attr(repo, expr.attr)
    r = repo.resolve_expr(m, expr)
    if r is not None and r.kind == 'class':
        return [r.obj]
    return None


def _iter_classes(repo, f, it, at, depth=0):
    if isinstance(it, ast.Name):
        k = ('i', f.qualname, it.id)
        if k in _IN_PROGRESS:
            return []
        _IN_PROGRESS.add(k)
        try:
            return _iter_classes_1(repo, f, it, at, depth)
        finally:
            _IN_PROGRESS.discard(k)
    return _iter_classes_1(repo, f, it, at, depth)


def _iter_classes_1(repo, f, it, at, depth=0):
    """classes of the *elements* of an iterable expression."""
    if depth > 8:
        return None
    if isinstance(it, (ast.List, ast.Tuple, ast.Set)):
        return _value_classes(repo, f, it, at, depth + 1)
    if isinstance(it, (ast.ListComp, ast.GeneratorExp, ast.SetComp)):
        raise DynamicTargets(norm(it)[:80])
    if isinstance(it, ast.IfExp):
        a = _iter_classes(repo, f, it.body, at, depth + 1)
        b = _iter_classes(repo, f, it.orelse, at, depth + 1)
        return None if a is None or b is None else a + [x for x in b if x not in a]
    if isinstance(it, ast.Attribute) and isinstance(it.value, ast.Name) and it.attr in ('yaml_loader', 'yaml_dumper'):
        return _yaml_object_attr(repo, it.attr)
    if isinstance(it, ast.Call) and norm(it.func) in ('list', 'tuple', 'iter', 'sorted', 'reversed', 'set') and len(it.args) == 1:
        return _iter_classes(repo, f, it.args[0], at, depth + 1)
    if isinstance(it, ast.Call):
        r = repo.resolve_expr(f.module, it.func)
        if r is not None and r.kind == 'func':
            g = r.obj
            out = []
            some = False
            for n in walk_function(g.node):
                vals = None
                if isinstance(n, ast.Yield) and n.value is not None:
                    vals = _value_classes(repo, g, n.value, n, depth + 1)
                elif isinstance(n, ast.YieldFrom):
                    vals = _iter_classes(repo, g, n.value, n, depth + 1)
                elif isinstance(n, ast.Return) and n.value is not None:
                    vals = _iter_classes(repo, g, n.value, n, depth + 1)
                else:
                    continue
                some = True
                if vals is None:
                    return None
                out += [x for x in vals if x not in out]
            return out if some else None
        return None
    if isinstance(it, ast.Name):
        out, found = [], False
        for n in walk_function(f.node):
            if isinstance(n, ast.Assign) and any(isinstance(t, ast.Name) and t.id == it.id for t in n.targets):
                found = True
                v = _iter_classes(repo, f, n.value, n, depth + 1)
                if v is None:
                    return None
                out += [x for x in v if x not in out]
            elif isinstance(n, ast.Call) and isinstance(n.func, ast.Attribute) and isinstance(n.func.value, ast.Name) \
                    and n.func.value.id == it.id and n.func.attr in ('append', 'extend', 'insert', 'add', 'update') and n.args:
                found = True
                arg = n.args[-1]
                v = _value_classes(repo, f, arg, n, depth + 1) if n.func.attr in ('append', 'insert', 'add') \
                    else _iter_classes(repo, f, arg, n, depth + 1)
                if v is None:
                    return None
                out += [x for x in v if x not in out]
            elif isinstance(n, ast.AugAssign) and isinstance(n.target, ast.Name) and n.target.id == it.id:
                found = True
                v = _iter_classes(repo, f, n.value, n, depth + 1)
                if v is None:
                    return None
                out += [x for x in v if x not in out]
        if found:
            return out
        # not a local: a module-level list / tuple of classes
        binds = f.module.bindings.get(it.id, [])
        vals = [b[1] for b in binds if b[0] == 'assign']
        if vals and len(vals) == len(binds):
            out = []
            for v in vals:
                r = _iter_classes(repo, f, v, None, depth + 1)
                if r is None:
                    return None
                out += [x for x in r if x not in out]
            return out
        return None
    return None


def _receiver_classes(repo, f, recv):
    """Classes a registration receiver may denote; None if undetermined; DynamicTargets if computed at run time."""
    return _value_classes(repo, f, recv, at=recv)


def r_dispatch_self(ctx, repo):
    rm = model(repo)
    rule = ctx.rule('R-DISPATCH-SELF', 'every read of a registry goes through self / cls (MRO lookup), never a named class')
    names = set(rm.regs)
    for f in repo.all_functions():
        for n in walk_function(f.node):
            if isinstance(n, ast.Attribute) and n.attr in names:
                base = n.value
                first = f.params[0] if f.params else None
                if isinstance(base, ast.Name) and base.id == first and f.cls is not None:
                    rule.ok(f.loc(n), '%s in %s' % (norm(n), f.qualname))
                else:
                    rule.fail('%s|%s' % (f.qualname, norm(n)), f.module.rel, n.lineno, f.qualname, norm(n),
                              'registry read through %s instead of the instance/class being used: the table of a '
                              'fixed class is consulted whatever loader/dumper is running' % norm(base))
    # getattr/vars tricks on registries
    rule.require_min(25, 'registry reads')
    return rule


def _fmt_keys(keys):
    return sorted(str(k) for k in keys)


def r_table_closed(ctx, repo, groups):
    """groups: list of (label, [universe qualnames], expected exact keys, expected multi keys)."""
    rm = model(repo)
    rule = ctx.rule('R-TABLE-CLOSED', 'the effective (MRO-resolved, registration-folded) constructor tables have exactly '
                                      'the documented key sets')
    for label, universes, exact, multi in groups:
        for q in universes:
            cls = repo.cls(q)
            for (dm, dst, dclasses) in rm.heap.dynamic:
                hit = [k for (k, wn) in dclasses if k is None or k in cls.mro_classes() or cls in getattr(k, 'mro_classes', lambda: [])()]
                if hit or not dclasses:
                    rule.fail('%s|dynamic-registration|%s' % (q, dm.name), dm.rel, dst.lineno, q,
                              'for %s in %s' % (norm(dst.target), norm(dst.iter)[:60]),
                              'the tables of %s (%s) are filled by a loop over %s, computed when the module is imported: the '
                              'effective table is whatever that expression yields (e.g. every method whose name matches), not the '
                              'documented closed set' % (q, label, norm(dst.iter)[:60]), universe=q)
            for reg, expected in (('yaml_constructors', exact), ('yaml_multi_constructors', multi)):
                tbl = rm.heap.table(cls, reg)
                keys = set(tbl)
                extra = keys - expected
                missing = expected - keys
                if extra or missing:
                    culprit = ''
                    for (where, kcls, kreg, key, value, landed) in rm.heap.events:
                        if kreg == reg and key in extra and landed in cls.mro_classes():
                            culprit += ' [%s registered %r on %s, landed in the table owned by %s]' % (
                                where, key, kcls.name, landed.name)
                    line = cls.node.lineno
                    rule.fail('%s|%s|+%s|-%s' % (q, reg, _fmt_keys(extra), _fmt_keys(missing)),
                              cls.module.rel, line, q, '%s.%s' % (cls.name, reg),
                              'effective %s of %s (%s) is not the documented set: unexpected %s, missing %s%s'
                              % (reg, q, label, _fmt_keys(extra), _fmt_keys(missing), culprit), universe=q)
                else:
                    rule.ok('%s:%d' % (cls.module.rel, cls.node.lineno),
                            '%s.%s has exactly the %d documented keys (owner %s)'
                            % (cls.name, reg, len(keys), getattr(rm.heap.owner(cls, reg), 'name', None)))
    return rule


def table_groups_safe():
    return [('safe', SAFE_LOADERS, CORE_TAGS | {None}, set()),
            ('base', BASE_LOADERS, set(), set())]


def table_groups_full():
    return [('full', FULL_LOADERS, CORE_TAGS | {None} | FULL_EXTRA, FULL_MULTI)]
