"""Run every claimed check against the behaviour-preserving edits in /verif/neutral/ (scratch copies, never /repo).

    python -m sa.neutraltest [-k substring] [-v]

Each /verif/neutral/<name>/patch.diff is a refactoring that leaves the behaviour of yaml/pyyaml unchanged (written by
independent sub-agents or by hand, suite-confirmed).  Every check must exit 0 on it: exit 1 is a false alarm, exit 2 means
the analyser no longer recognises code that still satisfies the property - both are defects of the checker.
"""
import concurrent.futures
import os
import re
import shutil
import subprocess
import sys
import tempfile

from . import selftest

VERIF = selftest.VERIF
PY = sys.executable


def run_one(args):
    name, checks = args
    d = os.path.join(VERIF, 'neutral', name)
    tmp = tempfile.mkdtemp(prefix='sa-neutral-')
    try:
        selftest.make_copy(tmp)
        p = subprocess.run(['git', 'apply', os.path.join(d, 'patch.diff')], cwd=tmp, capture_output=True, text=True)
        if p.returncode != 0:
            return name, [('apply', 99, p.stderr)]
        res = []
        env = dict(os.environ, SA_REPO=tmp, SA_NO_EVIDENCE='1')
        for prop in checks:
            q = subprocess.run([PY, '-m', 'checks.' + prop.lower()], cwd=VERIF, env=env,
                               capture_output=True, text=True, timeout=600)
            res.append((prop, q.returncode, q.stdout + q.stderr))
        return name, res
    finally:
        shutil.rmtree(tmp, ignore_errors=True)


def main(argv):
    pat = None
    verbose = False
    only = None
    it = iter(argv)
    for a in it:
        if a == '-k':
            pat = next(it)
        elif a == '-v':
            verbose = True
        elif a == '--checks':
            only = [c.upper() for c in next(it).split(',')]
    base = os.path.join(VERIF, 'neutral')
    names = sorted(n for n in os.listdir(base)
                   if os.path.exists(os.path.join(base, n, 'patch.diff')) and (pat is None or pat in n or re.search(pat, n)))
    every = sorted(f[:-3].upper() for f in os.listdir(os.path.join(VERIF, 'checks'))
                   if f.startswith('c') and f.endswith('.py') and f[1:3].isdigit())
    if only:
        every = [c for c in every if c in only]
    bad = 0
    with concurrent.futures.ThreadPoolExecutor(max_workers=16) as ex:
        for name, res in ex.map(run_one, [(n, every) for n in names]):
            alarms = [p for p, c, o in res if c == 1]
            errs = [p for p, c, o in res if c not in (0, 1)]
            status = 'silent' if not alarms and not errs else 'FALSE-ALARM' if alarms else 'ANALYSIS-ERROR'
            if alarms or errs:
                bad += 1
            print('%-22s %-15s alarms=%s errors=%s' % (name, status, ','.join(alarms) or '-', ','.join(errs) or '-'))
            for p, c, o in res:
                if c != 0:
                    lines = [l for l in o.split('\n') if l and not l.startswith('VIOLATION') and 'KNOWN-FINDING' not in l
                             and ' holds [' not in l and ' VIOLATED [' not in l]
                    for l in (lines if verbose else lines[:2]):
                        print('      [%s exit %s] %s' % (p, c, l[:260]))
    print('%d neutral edits, %d with an alarm or analysis error' % (len(names), bad))
    return 1 if bad else 0


if __name__ == '__main__':
    sys.exit(main(sys.argv[1:]))
