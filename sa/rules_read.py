"""Rules of C03 (and shared with C05/C06/C19): R-RAISE-CLASS, R-LOOP-PROGRESS, R-SENTINEL-APPENDED, R-ERROR-MAP,
R-PYX-EXCEPT-CLAUSE, R-TOKEN-SHAPES, R-INDENT-PAIRING."""
import ast

from . import astutil as A
from . import charworld as CW
from .cfg import CFG, own_exprs
from .srcmodel import AnalysisError, ClassInfo, FuncInfo, norm, walk_function


def always_raising_helpers(repo, modules):
    """functions all of whose paths raise (wrappers like self._fail(...)): {FuncInfo: raised class or None}."""
    out = {}
    for f in repo.all_functions(modules):
        if f.is_generator:
            continue
        cfg = CFG(f.node)
        r = cfg.reachable()
        if cfg.exit_return in r or cfg.exit_fall in r:
            continue
        raises = [n for n in r if n.kind == 'raise' and isinstance(n.ast, ast.Raise)]
        if raises:
            out[f] = raises
    return out


def raised_class(repo, func, exc, depth=0):
    """ClassInfo / 'reraise' / ('ext', name) / None for the expression of a raise statement."""
    if exc is None:
        return 'reraise'
    target = exc.func if isinstance(exc, ast.Call) else exc
    r = repo.resolve_expr(func.module, target, cls=None)
    if r is not None and r.kind == 'class':
        return r.obj
    if r is not None and r.kind == 'ext':
        return ('ext', r.obj)
    # raise error  where  error = self._parser_error() / a local bound to a constructed exception
    if isinstance(target, ast.Name) and depth < 3:
        classes = []
        for n in walk_function(func.node):
            if isinstance(n, ast.Assign) and any(isinstance(t, ast.Name) and t.id == target.id for t in n.targets):
                v = n.value
                if isinstance(v, ast.Call) and isinstance(v.func, ast.Attribute) and isinstance(v.func.value, ast.Name) \
                        and func.cls is not None and v.func.value.id == func.params[0]:
                    found = repo.lookup(func.cls, v.func.attr)
                    if found and isinstance(found[1], FuncInfo):
                        classes.append(('returns-of', found[1]))
                        continue
                c = raised_class(repo, func, v, depth + 1)
                classes.append(c)
        if len(classes) == 1:
            return classes[0]
        if classes:
            return ('multi', classes)
    if isinstance(target, ast.Name):
        for n in walk_function(func.node):
            if isinstance(n, ast.ExceptHandler) and n.name == target.id:
                return 'reraise'
    return None


def return_classes(repo, func):
    """classes of the values a helper like _parser_error returns: [(ClassInfo|('ext',name)|None, return node)]."""
    out = []
    for n in walk_function(func.node):
        if isinstance(n, ast.Return) and n.value is not None:
            v = n.value
            target = v.func if isinstance(v, ast.Call) else v
            r = repo.resolve_expr(func.module, target)
            if r is not None and r.kind == 'class':
                out.append((r.obj, n))
            elif r is not None and r.kind == 'ext':
                out.append((('ext', r.obj), n))
            else:
                out.append((None, n))
    return out


def r_raise_class(ctx, repo, modules, allowed_base='error.YAMLError', rule_id='R-RAISE-CLASS', want=None, minimum=0,
                  pyx_roles=True):
    """every raise in `modules` raises a subclass of YAMLError (want: {module: exact class qualname})."""
    base = repo.cls(allowed_base)
    rule = ctx.rule(rule_id, 'every explicit raise in %s raises a subclass of %s' % (','.join(modules), base.name))
    for f in repo.all_functions(modules):
        if f.name in ('__str__', '__repr__'):
            continue
        for n in walk_function(f.node):
            if not isinstance(n, ast.Raise):
                continue
            c = raised_class(repo, f, n.exc)
            items = []
            todo = list(c[1]) if isinstance(c, tuple) and c and c[0] == 'multi' else [c]
            seen_helpers = set()
            for c1 in todo:
                if isinstance(c1, tuple) and c1 and c1[0] == 'returns-of':
                    if c1[1] in seen_helpers:
                        continue
                    seen_helpers.add(c1[1])
                    for k, rn in return_classes(repo, c1[1]):
                        items.append((k, 'via %s line %d' % (c1[1].name, rn.lineno)))
                    # the helper's own fall-through raise is judged where it stands
                else:
                    items.append((c1, ''))
            for k, via in items:
                ok = False
                why = ''
                if k == 'reraise':
                    ok = True
                elif isinstance(k, ClassInfo):
                    ok = k.is_subclass_of(base)
                    if ok and want and f.module.name in want and k.qualname != want[f.module.name] \
                            and not k.is_subclass_of(repo.cls(want[f.module.name])):
                        ok = False
                        why = 'raises %s where %s is documented' % (k.name, want[f.module.name])
                    if not ok and not why:
                        why = '%s is not a YAML error class' % k.qualname
                elif isinstance(k, tuple) and k[0] == 'ext':
                    name = k[1].split('.')[-1]
                    if f.module.kind == 'pyx' and pyx_roles and _pyx_role(repo, f, n, name):
                        ok = True
                    else:
                        why = 'raises the builtin %s' % name
                else:
                    why = 'the raised expression %s does not resolve to an exception class' % norm(n.exc)
                if ok:
                    rule.ok(f.loc(n), 'raise %s in %s %s' % (k.name if isinstance(k, ClassInfo) else k, f.name, via))
                else:
                    rule.fail('%s|%s|%s' % (f.qualname, norm(n).split('\n')[0][:70], via), f.module.rel, n.lineno, f.qualname,
                              norm(n).split('\n')[0][:90],
                              '%s: an exception that is not derived from YAMLError can leave scan/parse/compose' % why)
    if minimum:
        rule.require_min(minimum, 'raise statements')
    return rule


def _pyx_role(repo, f, n, name):
    """the three admitted roles of a builtin exception in the binding (none reachable from document content)."""
    if name == 'MemoryError':
        # on the zero-return edge of a libyaml initialiser
        for iff, branch in A.guarding_ifs(n, f.node):
            if branch != 'body':
                continue
            for k in A.conjuncts(iff.test):
                if isinstance(k, ast.Compare) and len(k.ops) == 1 and isinstance(k.ops[0], ast.Eq) \
                        and isinstance(k.comparators[0], ast.Constant) and k.comparators[0].value == 0 \
                        and isinstance(k.left, ast.Call) and norm(k.left.func).startswith('yaml_'):
                    return True
        return False
    if name == 'TypeError':
        # type validation of a caller-supplied object right after a Py*_CheckExact test
        p = getattr(n, '_parent', None)
        if isinstance(p, ast.If) and 'CheckExact' in norm(p.test):
            return True
        # fall-through of a class dispatch over event objects
        if isinstance(p, ast.If) and n in p.orelse and isinstance(p.test, ast.Compare) and len(p.test.ops) == 1 \
                and isinstance(p.test.ops[0], ast.Is) and isinstance(p.test.comparators[0], ast.Name) \
                and p.test.comparators[0].id.endswith('Event'):
            return True
        return False
    if name == 'ValueError':
        # the else of an exhaustive enum dispatch ("unknown token type", "no parser error") / too many tags
        p = getattr(n, '_parent', None)
        if isinstance(p, ast.If) and n in p.orelse:
            return True
        if isinstance(p, ast.FunctionDef):      # fall-through after an if/elif chain of returns
            return True
        if isinstance(p, ast.If) and 'len(' in norm(p.test):
            return True
        return False
    return False


def r_loop_progress(ctx, repo, universe='loader.SafeLoader', module='scanner'):
    rule = ctx.rule('R-LOOP-PROGRESS', 'in every character loop of the scanner, for every class of current character, one '
                                       'iteration either leaves the loop or consumes input; at the NUL sentinel it leaves')
    cls = repo.cls(universe)
    chars = CW.representative_chars(repo, module)
    n = 0
    for f in repo.all_functions([module]):
        for loop in walk_function(f.node):
            if not isinstance(loop, ast.While):
                continue
            try:
                res = CW.check_loop(repo, cls, f, loop, chars)
            except CW.Budget:
                raise AnalysisError('%s: loop at line %d is too branchy for the per-character interpreter' % (f.qualname, loop.lineno))
            if res is None:
                continue
            n += 1
            if not res:
                rule.ok(f.loc(loop), 'while %s in %s: progress or exit for all %d character classes'
                        % (norm(loop.test)[:50], f.name, len(chars)))
            else:
                shown = ', '.join(repr(c) for c, d in res[:6])
                nul = [d for c, d in res if c == '\0']
                rule.fail('%s|while %s' % (f.qualname, norm(loop.test)[:60]), f.module.rel, loop.lineno, f.qualname,
                          'while %s' % norm(loop.test)[:70],
                          ('%s: ' % nul[0] if nul else '') +
                          'the loop can iterate without leaving or consuming input when the current character is one of '
                          '%s%s: scanning does not terminate (or runs off the buffer) on such input'
                          % (shown, ' ...' if len(res) > 6 else ''), inp=''.join(c for c, d in res[:3]))
    rule.require_min(30, 'character loops')
    ctx.extra['character_classes'] = len(chars)
    return rule


def r_sentinel_appended(ctx, repo):
    rule = ctx.rule('R-SENTINEL-APPENDED', 'the reader appends the NUL sentinel on every way input ends, and every chunk passes '
                                           'check_printable before it is appended to the buffer')
    R = repo.cls('reader.Reader')
    init = R.methods.get('__init__')
    upd = R.methods.get('update')
    if init is None or upd is None:
        raise AnalysisError('Reader.__init__/update have vanished')
    # __init__: the str branch stores stream + NUL after check_printable(stream)
    ok_store = False
    ok_check = False
    for n in walk_function(init.node):
        if isinstance(n, ast.If) and 'isinstance(stream, str)' in norm(n.test):
            texts = [norm(s) for s in n.body]
            for i, s in enumerate(n.body):
                if isinstance(s, ast.Assign) and A.is_attr(s.targets[0], 'self', 'buffer'):
                    v = s.value
                    if isinstance(v, ast.BinOp) and isinstance(v.op, ast.Add) and A.const_str(v.right) == '\0' \
                            and norm(v.left) == 'stream':
                        ok_store = True
                        ok_check = any('self.check_printable(stream)' in t for t in texts[:i])
    if ok_store and ok_check:
        rule.ok(init.loc(), 'str input: check_printable(stream), then buffer = stream + NUL')
    else:
        rule.fail('%s|str-branch' % init.qualname, init.module.rel, init.node.lineno, init.qualname, 'isinstance(stream, str) branch',
                  'the str branch of Reader.__init__ does not %s' % ('append the NUL sentinel' if not ok_store
                                                                     else 'validate the text before buffering it'))
    # update: every assignment raw_buffer = None (end of input) is preceded by buffer += NUL
    cfg = CFG(upd.node)
    ends = [n for n in cfg.nodes if n.kind == 'stmt' and isinstance(n.ast, ast.Assign)
            and any(A.is_attr(t, 'self', 'raw_buffer') for t in n.ast.targets)
            and isinstance(n.ast.value, ast.Constant) and n.ast.value.value is None]
    sent = [n for n in cfg.nodes if n.kind == 'stmt' and isinstance(n.ast, ast.AugAssign)
            and A.is_attr(n.ast.target, 'self', 'buffer') and A.const_str(n.ast.value) == '\0']
    if not ends:
        raise AnalysisError('Reader.update: no end-of-input assignment raw_buffer = None found')
    for e in ends:
        if sent and cfg.guarded(e, nodes=sent):
            rule.ok(upd.loc(e.ast), 'end of input: NUL appended before raw_buffer = None')
        else:
            rule.fail('%s|sentinel' % upd.qualname, upd.module.rel, e.lineno, upd.qualname, norm(e.ast),
                      'input can end (raw_buffer = None) without the NUL sentinel having been appended to the buffer')
    # every `self.buffer += data` is dominated by check_printable(data)
    apps = [n for n in cfg.nodes if n.kind == 'stmt' and isinstance(n.ast, ast.AugAssign)
            and A.is_attr(n.ast.target, 'self', 'buffer') and isinstance(n.ast.value, ast.Name)]
    for a in apps:
        name = a.ast.value.id
        checks = [n for n in cfg.nodes if n.kind == 'stmt' and isinstance(n.ast, ast.Expr)
                  and norm(n.ast.value) == 'self.check_printable(%s)' % name]
        if checks and cfg.guarded(a, nodes=checks):
            rule.ok(upd.loc(a.ast), 'chunk %s validated before it is buffered' % name)
        else:
            rule.fail('%s|printable' % upd.qualname, upd.module.rel, a.lineno, upd.qualname, norm(a.ast),
                      'decoded data is appended to the buffer without check_printable: characters outside the YAML '
                      'printable set (including a stray NUL that ends scanning early) reach the scanner')
    if not apps:
        raise AnalysisError('Reader.update: no buffer append found')
    # check_printable raises ReaderError when the regex finds something
    cp = R.methods.get('check_printable')
    if cp is None:
        raise AnalysisError('Reader.check_printable has vanished')
    raises = [n for n in walk_function(cp.node) if isinstance(n, ast.Raise)]
    if raises and 'NON_PRINTABLE' in norm(cp.node):
        rule.ok(cp.loc(), 'check_printable searches NON_PRINTABLE and raises')
    else:
        rule.fail('%s|body' % cp.qualname, cp.module.rel, cp.node.lineno, cp.qualname, 'def check_printable',
                  'check_printable no longer rejects non-printable characters')
    return rule


def r_token_shapes(ctx, repo):
    """payload tuples the parser unpacks are built as 2-tuples by both token producers."""
    rule = ctx.rule('R-TOKEN-SHAPES', 'DirectiveToken(YAML|TAG) and TagToken payloads are 2-tuples at every construction site')
    for f in repo.all_functions(['scanner', '_yaml']):
        for c in A.func_calls(f.node):
            fn = norm(c.func)
            if fn == 'TagToken' and c.args:
                v = c.args[0]
                if _is_pair(f, v):
                    rule.ok(f.loc(c), 'TagToken payload %s' % norm(v)[:40])
                else:
                    rule.fail('%s|TagToken' % f.qualname, f.module.rel, c.lineno, f.qualname, norm(c)[:80],
                              'TagToken is built with a payload that is not a (handle, suffix) pair; the parser unpacks it')
            elif fn == 'DirectiveToken' and len(c.args) >= 2:
                name, v = c.args[0], c.args[1]
                if isinstance(name, ast.Constant):
                    if _is_pair(f, v):
                        rule.ok(f.loc(c), 'DirectiveToken(%r) payload %s' % (name.value, norm(v)[:40]))
                    else:
                        rule.fail('%s|DirectiveToken' % f.qualname, f.module.rel, c.lineno, f.qualname, norm(c)[:80],
                                  'a %s directive token is built with a payload that is not a pair' % name.value)
                else:
                    # scanner: value computed per branch by scan_yaml_directive_value / scan_tag_directive_value
                    ok = True
                    for helper in ('scan_yaml_directive_value', 'scan_tag_directive_value'):
                        h = f.cls.methods.get(helper) if f.cls else None
                        if h is None:
                            ok = False
                            continue
                        rets = [r for r in walk_function(h.node) if isinstance(r, ast.Return)]
                        if not rets or not all(isinstance(r.value, ast.Tuple) and len(r.value.elts) == 2 for r in rets):
                            ok = False
                    if ok:
                        rule.ok(f.loc(c), 'directive payloads come from helpers returning pairs')
                    else:
                        rule.fail('%s|DirectiveToken' % f.qualname, f.module.rel, c.lineno, f.qualname, norm(c)[:80],
                                  'the YAML/TAG directive value helpers do not return pairs on every path')
    rule.require_min(4, 'token construction sites')
    return rule


def _is_pair(f, v):
    if isinstance(v, ast.Tuple) and len(v.elts) == 2:
        return True
    if isinstance(v, ast.Name):
        defs = [n for n in walk_function(f.node) if isinstance(n, ast.Assign)
                and any(isinstance(t, ast.Name) and t.id == v.id for t in n.targets)]
        return bool(defs) and all(isinstance(d.value, ast.Tuple) and len(d.value.elts) == 2 for d in defs)
    return False


def r_indent_pairing(ctx, repo):
    """BLOCK-START / BLOCK-END pairing of the scanner's indentation stack (also the G-shape guard of indents.pop())."""
    rule = ctx.rule('R-INDENT-PAIRING', 'indents is pushed only in add_indent (each true result appends one Block*StartToken), '
                                        'popped only in unwind_indent under `while self.indent > column` (each pop appends one '
                                        'BlockEndToken)')
    S = repo.cls('scanner.Scanner')
    ok_all = True
    pushes = []
    pops = []
    for f in S.methods.values():
        for c in A.func_calls(f.node):
            if isinstance(c.func, ast.Attribute) and norm(c.func.value) == 'self.indents':
                if c.func.attr in ('append', 'insert', 'extend'):
                    pushes.append((f, c))
                elif c.func.attr in ('pop', 'remove', 'clear'):
                    pops.append((f, c))
        for m in A.find_mutations(f.node):
            if m.kind in ('setitem', 'delitem', 'augassign') and norm(m.root) == 'self.indents':
                pops.append((f, m.node))
    for f, c in pushes:
        if f.name == 'add_indent':
            rule.ok(f.loc(c), 'push in add_indent')
        else:
            ok_all = False
            rule.fail('%s|push' % f.qualname, f.module.rel, c.lineno, f.qualname, norm(c), 'indents pushed outside add_indent')
    for f, c in pops:
        good = False
        if f.name == 'unwind_indent' and isinstance(c, ast.Call):
            p = c
            while p is not None and p is not f.node:
                p = getattr(p, '_parent', None)
                if isinstance(p, ast.While) and len(f.params) > 1 and norm(p.test) in ('self.indent > %s' % f.params[1], '%s < self.indent' % f.params[1]):
                    body = norm(p.body)
                    good = 'BlockEndToken' in body and body.count('self.indents.pop()') == 1
        if good:
            rule.ok(f.loc(c), 'pop in unwind_indent under indent > column, one BlockEndToken per pop')
        else:
            ok_all = False
            rule.fail('%s|pop|%s' % (f.qualname, norm(c)[:40]), f.module.rel, c.lineno, f.qualname, norm(c)[:60],
                      'indents is popped/modified outside the `while self.indent > column` loop of unwind_indent: '
                      'BLOCK-END tokens no longer pair with BLOCK-*-START tokens and the stack can underflow')
    # indent starts at -1 and unwind targets are >= -1, so indent > column implies a pushed level exists
    init = S.methods.get('__init__')
    if init is None or 'self.indent = -1' not in norm(init.node):
        ok_all = False
        rule.fail('scanner.Scanner.__init__|indent', S.module.rel, S.node.lineno, 'scanner.Scanner.__init__', 'self.indent = -1',
                  'the scanner no longer starts with indent -1')
    # every add_indent call is the test of an `if` whose body appends/inserts exactly one Block*StartToken
    for f in S.methods.values():
        for c in A.func_calls(f.node):
            if isinstance(c.func, ast.Attribute) and c.func.attr == 'add_indent' and norm(c.func.value) == 'self':
                p = getattr(c, '_parent', None)
                while isinstance(p, ast.BoolOp) and isinstance(p.op, ast.And):
                    p = getattr(p, '_parent', None)
                if isinstance(p, ast.If) and any(x is c for x in A.conjuncts(p.test)):
                    body = norm(p.body)
                    k = body.count('BlockSequenceStartToken(') + body.count('BlockMappingStartToken(')
                    if k == 1 and not p.orelse:
                        rule.ok(f.loc(c), 'add_indent result guards exactly one Block*StartToken in %s' % f.name)
                        continue
                ok_all = False
                rule.fail('%s|add_indent' % f.qualname, f.module.rel, c.lineno, f.qualname, norm(c),
                          'an add_indent call whose true result is not answered by exactly one Block*StartToken')
    # flow_level: +1 only with a Flow*StartToken, -1 only with a Flow*EndToken
    def appended_token_classes(g):
        """names of the token classes g appends to the queue (a class named directly, or a parameter: then the arguments
        of every call of g inside the scanner)."""
        out = set()
        for c in A.func_calls(g.node):
            if isinstance(c.func, ast.Attribute) and c.func.attr in ('append', 'insert') and norm(c.func.value) == 'self.tokens' and c.args:
                tok = c.args[-1]
                if isinstance(tok, ast.Call):
                    fn = tok.func
                    if isinstance(fn, ast.Name) and fn.id in g.params:
                        idx = g.params.index(fn.id) - 1
                        for h in S.methods.values():
                            for cc in A.func_calls(h.node):
                                if isinstance(cc.func, ast.Attribute) and cc.func.attr == g.name and norm(cc.func.value) == 'self':
                                    if 0 <= idx < len(cc.args):
                                        out.add(norm(cc.args[idx]))
                                    for kw in cc.keywords:
                                        if kw.arg == fn.id:
                                            out.add(norm(kw.value))
                    else:
                        out.add(norm(fn))
        return out
    for f in S.methods.values():
        for n in walk_function(f.node):
            if isinstance(n, ast.AugAssign) and norm(n.target) == 'self.flow_level':
                toks = appended_token_classes(f)
                want = 'Start' if isinstance(n.op, ast.Add) else 'End'
                if toks and all(t.startswith('Flow') and t.endswith(want + 'Token') for t in toks):
                    rule.ok(f.loc(n), 'flow_level %s 1 together with %s' % ('+=' if want == 'Start' else '-=', sorted(toks)))
                else:
                    ok_all = False
                    rule.fail('%s|flow_level' % f.qualname, f.module.rel, n.lineno, f.qualname, norm(n),
                              'flow_level changed in a function that does not emit the matching flow collection token (emits %s)'
                              % sorted(toks))
    rule.require_min(5, 'indent/flow bookkeeping sites')
    ctx.extra['indent_pairing_ok'] = ok_all
    return ok_all


def r_error_map(ctx, repo):
    """libyaml error kinds are mapped onto the same exception classes the Python components raise."""
    rule = ctx.rule('R-ERROR-MAP', '_parser_error/_emitter_error map YAML_*_ERROR kinds to the homonymous Python exception classes')
    P = repo.cls('_yaml.CParser')
    E = repo.cls('_yaml.CEmitter')
    expect = {'YAML_MEMORY_ERROR': 'MemoryError', 'YAML_READER_ERROR': 'reader.ReaderError',
              'YAML_SCANNER_ERROR': 'scanner.ScannerError', 'YAML_PARSER_ERROR': 'parser.ParserError',
              'YAML_EMITTER_ERROR': 'emitter.EmitterError'}
    for K, fname in ((P, '_parser_error'), (E, '_emitter_error')):
        f = K.methods.get(fname)
        if f is None:
            raise AnalysisError('%s.%s has vanished' % (K.qualname, fname))
        cfg = CFG(f.node)
        kinds = sorted({x.id for x in ast.walk(f.node) if isinstance(x, ast.Name) and x.id.startswith('YAML_')
                        and x.id.endswith('_ERROR') and x.id in expect})
        for K in kinds:
            def atom(node, K=K):
                # <something>.error == YAML_X_ERROR : the enum members are distinct, so exactly one of them holds
                if isinstance(node, ast.Compare) and len(node.ops) == 1 and isinstance(node.ops[0], (ast.Eq, ast.NotEq)):
                    l, r = node.left, node.comparators[0]
                    if isinstance(l, ast.Name) and l.id.startswith('YAML_'):
                        l, r = r, l
                    if isinstance(r, ast.Name) and r.id.startswith('YAML_') and r.id.endswith('_ERROR') \
                            and isinstance(l, ast.Attribute) and l.attr == 'error':
                        v = (r.id == K)
                        return v if isinstance(node.ops[0], ast.Eq) else (not v)
                return None
            reach = A.cfg_reach_under(cfg, atom)
            got = set()
            locs = []
            for n in reach:
                if n.kind == 'return' and n.ast is not None and n.ast.value is not None:
                    v = n.ast.value
                    target = v.func if isinstance(v, ast.Call) else v
                    r = repo.resolve_expr(f.module, target)
                    if r is not None and r.kind == 'class':
                        got.add(r.obj.qualname)
                    elif r is not None and r.kind == 'ext':
                        got.add(r.obj.split('.')[-1])
                    else:
                        got.add(norm(target))
                    locs.append(n.ast)
            if got == {expect[K]}:
                rule.ok(f.loc(locs[0]), '%s -> %s' % (K, expect[K]))
            else:
                line = locs[0].lineno if locs else f.node.lineno
                rule.fail('%s|%s|%s' % (f.qualname, K, '|'.join(sorted(got))), f.module.rel, line, f.qualname,
                          norm(locs[0])[:80] if locs else fname,
                          'libyaml error kind %s is turned into %s; the Python back-end raises %s for the same class of input'
                          % (K, sorted(got) or 'nothing', expect[K]))
    rule.require_min(5, 'error mappings')
    return rule


def _failure_checked(f, c):
    """the zero result of the libyaml call c is tested and the failing edge raises: `if ... and c == 0: raise`, `if not c:
    raise`, or the same through a local that holds the result."""
    def zero_test(e, subject):
        """does expression e being true imply subject == 0 ?"""
        for k in A.conjuncts(e):
            if isinstance(k, ast.Compare) and len(k.ops) == 1 and isinstance(k.ops[0], ast.Eq):
                l, r = k.left, k.comparators[0]
                if (subject(l) and isinstance(r, ast.Constant) and r.value == 0) or \
                        (subject(r) and isinstance(l, ast.Constant) and l.value == 0):
                    return True
            if isinstance(k, ast.UnaryOp) and isinstance(k.op, ast.Not) and subject(k.operand):
                return True
        return False

    def raises(stmts):
        return bool(stmts) and (isinstance(stmts[-1], ast.Raise) or any(isinstance(s, ast.Raise) for s in stmts))

    # direct: the call sits inside the test of an if
    p = c
    while p is not None and not isinstance(p, ast.stmt):
        p = getattr(p, '_parent', None)
    if isinstance(p, ast.If) and any(x is c for x in ast.walk(p.test)):
        if zero_test(p.test, lambda e: e is c) and raises(p.body):
            return True
    # through a local: r = call(...); if r == 0: raise
    if isinstance(p, ast.Assign) and p.value is c and len(p.targets) == 1 and isinstance(p.targets[0], ast.Name):
        name = p.targets[0].id
        for n in walk_function(f.node):
            if isinstance(n, ast.If) and n.lineno >= p.lineno and \
                    zero_test(n.test, lambda e: isinstance(e, ast.Name) and e.id == name) and raises(n.body):
                return True
    return False


def r_pyx_except_clause(ctx, repo):
    rule = ctx.rule('R-PYX-EXCEPT-CLAUSE', 'every cdef function with a C return type that can raise declares `except`, and every '
                                           'libyaml call that reports failure by returning 0 is checked and raises')
    m = repo.modules['_yaml']
    n_funcs = 0
    for f in repo.all_functions(['_yaml']):
        px = f.pyx
        if px is None or not px.is_cdef:
            continue
        ctype = px.ret_type not in ('', 'object')
        if not ctype:
            continue
        n_funcs += 1
        can_raise = any(isinstance(n, (ast.Raise, ast.Call)) for n in walk_function(f.node))
        if can_raise and not px.except_clause:
            rule.fail('%s|no-except' % f.qualname, f.module.rel, f.node.lineno, f.qualname, 'cdef %s %s(...)' % (px.ret_type, f.name),
                      'a cdef function returning the C type %s raises or calls Python code but has no `except` clause: Cython '
                      'would print and swallow the exception instead of propagating it through libyaml' % px.ret_type)
        else:
            rule.ok(f.loc(), 'cdef %s %s ... except %s' % (px.ret_type, f.name, px.except_clause))
    # checked libyaml calls
    checked = 0
    FALLIBLE = ('yaml_parser_scan', 'yaml_parser_parse', 'yaml_emitter_emit', 'yaml_parser_initialize',
                'yaml_emitter_initialize', 'yaml_document_start_event_initialize', 'yaml_alias_event_initialize',
                'yaml_scalar_event_initialize', 'yaml_sequence_start_event_initialize', 'yaml_mapping_start_event_initialize')
    for f in repo.all_functions(['_yaml']):
        for c in A.func_calls(f.node):
            fn = norm(c.func)
            if fn in FALLIBLE:
                ok = _failure_checked(f, c)
                if ok:
                    checked += 1
                    rule.ok(f.loc(c), '%s(...) == 0 -> raise' % fn)
                else:
                    rule.fail('%s|%s|unchecked' % (f.qualname, fn), f.module.rel, c.lineno, f.qualname, norm(c)[:70],
                              'the result of %s is not checked: a libyaml failure (or an exception raised inside a '
                              'handler callback) is dropped' % fn)
    if n_funcs < 6 or checked < 16:
        raise AnalysisError('R-PYX-EXCEPT-CLAUSE matched %d cdef functions / %d checked calls (6 / 16 confirmed by reading)'
                            % (n_funcs, checked))
    return rule
