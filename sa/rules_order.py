"""Ordering / guard rules on CFGs for C13 (aliases, anchors, two-phase construction) and C18 (laziness).

The rules bind variables by their *role* (parameter position, "the local that receives self.compose_node(...)", "the
expression used as the key of the self.anchors store") and state CFG facts (a guard edge dominates a use, a store lies
on every normal path, a node is not on a cycle).  Nothing here compares source text of local names.
"""
import ast

from . import astutil as A
from . import match as M
from . import rules_registry as RR
from .cfg import CFG, own_exprs, reaching_defs
from .srcmodel import AnalysisError, ClassInfo, FuncInfo, norm, walk_function


# ------------------------------------------------------------------------------------------------ shared helpers

def _nodes_with(cfg, pred):
    out = []
    for n in cfg.nodes:
        if n.ast is None:
            continue
        for sub in own_exprs(n):
            if pred(sub):
                out.append(n)
                break
    return out


def _self_call(name):
    def pred(x):
        return isinstance(x, ast.Call) and isinstance(x.func, ast.Attribute) and x.func.attr == name \
            and isinstance(x.func.value, ast.Name) and x.func.value.id == 'self'
    return pred


def _test_edges(cfg, match):
    """[(test node, label)] where match(inner test expr) gives the label on which the fact holds."""
    out = []
    for n in cfg.nodes:
        if n.kind == 'test':
            inner, pos = A.strip_not(n.ast)
            r = match(inner)
            if r is None:
                mirrored = mirror(inner)
                if mirrored is not None:
                    r = match(mirrored)
            if r is not None:
                out.append((n, r if pos else (not r)))
    return out


_MIRROR = {ast.Lt: ast.Gt, ast.Gt: ast.Lt, ast.LtE: ast.GtE, ast.GtE: ast.LtE, ast.Eq: ast.Eq, ast.NotEq: ast.NotEq}


def mirror(test):
    """`a < b` -> `b > a` (same condition, operands exchanged); None if the test is not a simple comparison."""
    if isinstance(test, ast.Compare) and len(test.ops) == 1 and type(test.ops[0]) in _MIRROR:
        return ast.Compare(left=test.comparators[0], ops=[_MIRROR[type(test.ops[0])]()], comparators=[test.left])
    return None


def name_node(ident):
    return ast.Name(id=ident, ctx=ast.Load())


def param_env(f, **roles):
    """{metavariable: Name of the parameter at the given position}; AnalysisError when the function is too short."""
    env = {}
    for meta, idx in roles.items():
        if idx >= len(f.params):
            raise AnalysisError('%s: expected at least %d parameters' % (f.qualname, idx + 1))
        env[meta] = name_node(f.params[idx])
    return env


class Bindings(dict):
    """metavariable bindings of a successful match (true even when nothing was bound)."""

    def __bool__(self):
        return True


def pmatch(src, node, env=None):
    """bindings (always true) if the (expression / statement) pattern matches `node` itself, else None."""
    if node is None:
        return None
    e = Bindings(env or {})
    return e if M.match(M.compile_pattern(src)[1], node, e) else None


def same(a, b):
    """structural equality of two expressions (load/store context ignored)."""
    return a is not None and b is not None and M._dump_noctx(a) == M._dump_noctx(b)


def _pairwise(target, value):
    """(target, value) pairs of an assignment; `a, b = x, y` is split into its components."""
    if isinstance(target, (ast.Tuple, ast.List)) and isinstance(value, (ast.Tuple, ast.List)) and len(target.elts) == len(value.elts) \
            and not any(isinstance(e, ast.Starred) for e in list(target.elts) + list(value.elts)):
        out = []
        for t, v in zip(target.elts, value.elts):
            out.extend(_pairwise(t, v))
        return out
    return [(target, value)]


def local_defs(fnode):
    """{local name: [value expr | None]} for every binding of a plain name in the function (None = the value is not a
    single expression: tuple unpacking, loop target, augmented assignment, with/except target)."""
    defs = {}
    for n in walk_function(fnode):
        if isinstance(n, ast.Assign):
            for t in n.targets:
                for tt, vv in _pairwise(t, n.value):
                    if isinstance(tt, ast.Name):
                        defs.setdefault(tt.id, []).append(vv)
                    else:
                        for x in ast.walk(tt):
                            if isinstance(x, ast.Name) and isinstance(x.ctx, ast.Store):
                                defs.setdefault(x.id, []).append(None)
        elif isinstance(n, ast.AnnAssign) and isinstance(n.target, ast.Name):
            defs.setdefault(n.target.id, []).append(n.value)
        elif isinstance(n, ast.AugAssign) and isinstance(n.target, ast.Name):
            defs.setdefault(n.target.id, []).append(None)
        elif isinstance(n, (ast.For, ast.AsyncFor, ast.comprehension)):
            for x in ast.walk(n.target):
                if isinstance(x, ast.Name):
                    defs.setdefault(x.id, []).append(None)
        elif isinstance(n, ast.ExceptHandler) and n.name:
            defs.setdefault(n.name, []).append(None)
        elif isinstance(n, ast.withitem) and n.optional_vars is not None:
            for x in ast.walk(n.optional_vars):
                if isinstance(x, ast.Name):
                    defs.setdefault(x.id, []).append(None)
        elif isinstance(n, ast.NamedExpr) and isinstance(n.target, ast.Name):
            defs.setdefault(n.target.id, []).append(n.value)
    return defs


def value_sources(fnode, expr, params=(), _defs=None, _seen=None):
    """the expressions a value may come from, looking through plain local copies (`x = <expr>`): a list of expressions,
    or None when some binding of a local on the way is not a single expression.  A parameter that is never re-bound
    stands for itself."""
    defs = _defs if _defs is not None else local_defs(fnode)
    seen = _seen if _seen is not None else set()
    if isinstance(expr, ast.Name):
        if expr.id in seen:
            return []
        ds = defs.get(expr.id)
        if not ds:
            return [expr]
        seen = seen | {expr.id}
        out = [expr] if expr.id in params else []
        for d in ds:
            if d is None:
                return None
            r = value_sources(fnode, d, params, defs, seen)
            if r is None:
                return None
            out.extend(r)
        return out
    return [expr]


def is_every_source(fnode, expr, pred, params=()):
    """every expression `expr` may come from (through local copies) satisfies pred; at least one exists."""
    srcs = value_sources(fnode, expr, params)
    return bool(srcs) and all(pred(s) for s in srcs)


class Flow:
    """flow-sensitive look-through of local copies on a CFG: where may the value of an expression *at a CFG node* come
    from?  (reaching definitions; a definition that is not a plain `name = <expr>` makes the answer unknown)"""

    def __init__(self, cfg, params=()):
        self.cfg = cfg
        self.params = set(params)
        self._rd = {}

    def defs_at(self, at, var):
        if var not in self._rd:
            self._rd[var] = reaching_defs(self.cfg, var)
        return self._rd[var][at]

    def sources(self, at, expr, _seen=None):
        """[(expr, cfg node where it is evaluated)] or None when unknown."""
        if not isinstance(expr, ast.Name):
            return [(expr, at)]
        seen = _seen or set()
        ds = self.defs_at(at, expr.id)
        if not ds:
            return [(expr, at)]           # a parameter / global / never assigned on a path to `at`
        out = []
        if expr.id in self.params and at in self.cfg.reach([self.cfg.entry], blocked=[d for d in ds if d is not at]):
            out.append((expr, at))        # the caller's value reaches `at` on a path without re-binding
        for d in ds:
            if (d, expr.id) in seen:
                continue
            a = d.ast
            if not (d.kind == 'stmt' and isinstance(a, ast.Assign)):
                return None
            vals = [vv for t in a.targets for (tt, vv) in _pairwise(t, a.value) if isinstance(tt, ast.Name) and tt.id == expr.id]
            if len(vals) != 1:
                return None
            r = self.sources(d, vals[0], seen | {(d, expr.id)})
            if r is None:
                return None
            out.extend(r)
        return out

    def every(self, at, expr, pred):
        """every possible source of expr at `at` satisfies pred(source expr, node of evaluation); at least one exists."""
        s = self.sources(at, expr)
        return bool(s) and all(pred(e, n) for (e, n) in s)


def reach_under(cfg, atom, starts, blocked=(), follow_exc=True):
    """nodes reachable from `starts` when every atomic test decided by atom(test expr) -> True/False/None follows only the
    decided edge; nodes in `blocked` are not entered."""
    blocked = set(blocked)
    seen = set()
    stack = [s for s in starts if s not in blocked]
    while stack:
        n = stack.pop()
        if n in seen:
            continue
        seen.add(n)
        v = None
        if n.kind == 'test' and n.ast is not None:
            v = A.eval3(n.ast, atom)
        for (m, lab) in cfg.succ[n]:
            if m in blocked:
                continue
            if lab == 'exc' and not follow_exc:
                continue
            if v is not None and lab in (True, False) and lab != v:
                continue
            stack.append(m)
    return seen


def on_cycle(cfg, n):
    """can control return to CFG node n after leaving it (n is executed more than once per call)?"""
    return n in cfg.reach([m for (m, lab) in cfg.succ[n]])


def raise_class_ok(repo, f, rnode, errcls):
    """the `raise` at CFG node rnode raises (an instance of) a subclass of errcls."""
    a = rnode.ast
    if not isinstance(a, ast.Raise) or a.exc is None:
        return False
    t = a.exc.func if isinstance(a.exc, ast.Call) else a.exc
    ref = repo.resolve_expr(f.module, t)
    return ref is not None and ref.kind == 'class' and ref.obj.is_subclass_of(errcls)


def only_raises(cfg, starts, atom=None):
    """(True, raise nodes) if no normal exit and no return is reachable from `starts` (under the decided tests)."""
    r = reach_under(cfg, atom or (lambda t: None), starts)
    if any(x in r for x in cfg.normal_exits()) or any(x.kind == 'return' for x in r):
        return False, []
    return True, [x for x in r if x.kind == 'raise' and isinstance(x.ast, ast.Raise)]


def none_test_edges(cfg, exprs):
    """edges on which one of `exprs` is known to be None (`x is None` true / `x is not None` false)."""
    def m(inner):
        e = pmatch('__x is None', inner)
        if e and any(same(e['__x'], k) for k in exprs):
            return True
        e = pmatch('__x is not None', inner)
        if e and any(same(e['__x'], k) for k in exprs):
            return False
        return None
    return _test_edges(cfg, m)


def call_arg(call, pos, kw=None):
    """positional argument `pos` or keyword `kw` of a call, or None."""
    if len(call.args) > pos and not any(isinstance(a, ast.Starred) for a in call.args[:pos + 1]):
        return call.args[pos]
    for k in call.keywords:
        if kw is not None and k.arg == kw:
            return k.value
    return None


def self_attr(attr):
    return lambda x: isinstance(x, ast.Attribute) and x.attr == attr and isinstance(x.value, ast.Name) and x.value.id == 'self'


# ------------------------------------------------------------------------------------------------ C13

COMPOSERS = [('composer.Composer', 'compose_node', 'compose_scalar_node', 'compose_sequence_node', 'compose_mapping_node',
              'compose_document'),
             ('_yaml.CParser', '_compose_node', '_compose_scalar_node', '_compose_sequence_node', '_compose_mapping_node',
              '_compose_document')]


def r_alias_guard(ctx, repo):
    rule = ctx.rule('R-ALIAS-GUARD', 'in compose_node the alias read self.anchors[anchor] is dominated by `anchor not in self.anchors '
                                     '-> raise ComposerError`, and node construction by `anchor in self.anchors -> raise ComposerError`')
    cerr = repo.cls('composer.ComposerError')
    is_anchors = self_attr('anchors')
    for kq, cn, sc, sq, mp, doc in COMPOSERS:
        K = repo.cls(kq)
        f = K.methods.get(cn)
        if f is None:
            raise AnalysisError('%s.%s has vanished' % (kq, cn))
        cfg = CFG(f.node)

        tests = []                                               # (test node, key expr, label on which `key in self.anchors`)
        for n in cfg.nodes:
            if n.kind != 'test':
                continue
            inner, pos = A.strip_not(n.ast)
            if isinstance(inner, ast.Compare) and len(inner.ops) == 1 and is_anchors(inner.comparators[0]):
                if isinstance(inner.ops[0], ast.In):
                    tests.append((n, inner.left, pos))
                elif isinstance(inner.ops[0], ast.NotIn):
                    tests.append((n, inner.left, not pos))

        def in_edges(key):
            return [(n, lab) for (n, k, lab) in tests if same(k, key)]

        # (1) every load self.anchors[x] (the alias read, the "first occurrence" of the error message) happens only when
        #     x is known to be a defined anchor
        loads = []
        for n in cfg.nodes:
            if n.ast is None:
                continue
            for sub in own_exprs(n):
                if isinstance(sub, ast.Subscript) and isinstance(sub.ctx, ast.Load) and is_anchors(sub.value):
                    loads.append((n, sub))
        defs = local_defs(f.node)

        def is_alias_value(e):
            if isinstance(e, ast.Subscript) and is_anchors(e.value):
                return True
            if isinstance(e, ast.Name) and defs.get(e.id):
                return all(d is not None and isinstance(d, ast.Subscript) and is_anchors(d.value) for d in defs[e.id])
            return False
        alias_returns = [n for n in cfg.nodes if n.kind == 'return' and n.ast.value is not None and is_alias_value(n.ast.value)]
        if not alias_returns or not loads:
            raise AnalysisError('%s: no alias path (a returned self.anchors[...]) found' % f.qualname)
        for n, sub in loads:
            e = in_edges(sub.slice)
            if e and cfg.guarded(n, edges=e):
                rule.ok(f.loc(sub), 'alias read guarded by membership test (%s)' % f.name)
            else:
                rule.fail('%s|alias-read' % f.qualname, f.module.rel, n.lineno, f.qualname, norm(n.ast).split('\n')[0][:80],
                          'an alias is resolved with self.anchors[anchor] without a dominating `anchor not in self.anchors` '
                          'rejection: an undefined alias raises KeyError instead of ComposerError')
        # the rejecting branches raise ComposerError
        n_bad_reject = 0
        for (tn, key, lab) in tests:
            for branch in (True, False):
                succ = [m for (m, l) in cfg.succ[tn] if l == branch]
                if not succ:
                    continue
                only, raises = only_raises(cfg, succ)
                if only:
                    for x in raises:
                        if raise_class_ok(repo, f, x, cerr):
                            rule.ok(f.loc(x.ast), 'rejection raises ComposerError')
                        else:
                            n_bad_reject += 1
                            rule.fail('%s|reject-class|%d' % (f.qualname, n_bad_reject), f.module.rel, x.lineno, f.qualname,
                                      norm(x.ast)[:80], 'an anchor/alias violation is rejected with something else than ComposerError')
        # (2) definition path: a kind composer is entered only when its anchor is None or known not to be defined yet
        comps = []
        for n in cfg.nodes:
            if n.ast is None:
                continue
            for sub in own_exprs(n):
                if any(_self_call(nm)(sub) for nm in (sc, sq, mp)):
                    comps.append((n, sub))
        if not comps:
            raise AnalysisError('%s: compose_*_node calls not found' % f.qualname)
        ok = True
        for c, call in comps:
            key = call_arg(call, 0, 'anchor')
            if key is None:
                raise AnalysisError('%s: %s is called without an anchor argument' % (f.qualname, norm(call.func)))
            # duplicate tests: membership tests of this anchor whose `in` edge cannot reach the composition
            dup = [(tn, lab) for (tn, lab) in in_edges(key)
                   if c not in cfg.reach([m for (m, l) in cfg.succ[tn] if l == lab])]
            if not dup or not cfg.guarded(c, edges=[(tn, not lab) for (tn, lab) in dup] + none_test_edges(cfg, [key])):
                ok = False
        if ok:
            rule.ok(f.loc(), '%s: duplicate anchors rejected before the node is built' % f.name)
        else:
            rule.fail('%s|duplicate-guard' % f.qualname, f.module.rel, f.node.lineno, f.qualname, 'anchor in self.anchors',
                      'a node with an already defined anchor can be composed (no dominating `anchor in self.anchors -> raise`): '
                      'the second definition silently replaces the first')
    return rule


def r_anchor_before_children(ctx, repo):
    rule = ctx.rule('R-ANCHOR-BEFORE-CHILDREN', 'self.anchors[anchor] = node is executed before any child of a collection is composed '
                                                '(and before a scalar node is returned)')
    is_anchors = self_attr('anchors')
    for kq, cn, sc, sq, mp, doc in COMPOSERS:
        K = repo.cls(kq)
        for fname, is_coll in ((sc, False), (sq, True), (mp, True)):
            f = K.methods.get(fname)
            if f is None:
                raise AnalysisError('%s.%s has vanished' % (kq, fname))
            cfg = CFG(f.node)
            stores, keys = [], []
            for n in cfg.nodes:
                if n.kind == 'stmt' and isinstance(n.ast, ast.Assign):
                    for t in n.ast.targets:
                        if isinstance(t, ast.Subscript) and is_anchors(t.value):
                            stores.append(n)
                            keys.append(t.slice)
            # "no anchor" edges: the expression used as the key of the store is None
            none_edges = none_test_edges(cfg, keys)
            if is_coll:
                targets = _nodes_with(cfg, _self_call(cn))
                what = 'child composition'
            else:
                targets = [n for n in cfg.nodes if n.kind == 'return']
                what = 'return'
            if not targets:
                raise AnalysisError('%s: no %s found' % (f.qualname, what))
            for t in targets:
                if stores and cfg.guarded(t, nodes=stores, edges=none_edges):
                    rule.ok(f.loc(t.ast if isinstance(t.ast, ast.AST) else f.node), '%s: anchor registered before %s' % (f.name, what))
                else:
                    rule.fail('%s|%s' % (f.qualname, what), f.module.rel, t.lineno, f.qualname,
                              norm(t.ast).split('\n')[0][:80],
                              'a path reaches %s in %s before the node has been stored in self.anchors: an alias to the '
                              'enclosing collection inside it is undefined (recursive structures cannot be built)'
                              % (what, f.qualname))
    return rule


def _mutates_self(n):
    """does CFG node n change the state of the object (assignment / deletion / mutating call rooted at self)?"""
    a = n.ast
    if n.kind != 'stmt' or a is None:
        return False
    for m in A.find_mutations([x for x in ast.walk(a)]):
        root = m.root
        while isinstance(root, (ast.Attribute, ast.Subscript)):
            root = root.value
        if isinstance(root, ast.Name) and root.id == 'self':
            return True
    return False


def r_construct_cache(ctx, repo):
    rule = ctx.rule('R-CONSTRUCT-CACHE', 'construct_object: cache test first; recursion test and mark dominate the dispatch; the cache '
                                         'store post-dominates it; the recursion mark is released only after the store; generators are '
                                         'resumed before the store only in deep mode')
    f = repo.func('constructor.BaseConstructor.construct_object')
    cfg = CFG(f.node)
    env = param_env(f, _N_self=0, _N_node=1)
    p1 = f.params[1]

    def fail(key, node, why):
        rule.fail('%s|%s' % (f.qualname, key), f.module.rel, getattr(node, 'lineno', f.node.lineno), f.qualname,
                  norm(node).split('\n')[0][:80] if node is not None else key, why)

    # dispatch calls: calls of a local variable with self as first argument
    locals_ = {n.id for n in walk_function(f.node) if isinstance(n, ast.Name) and isinstance(n.ctx, ast.Store)}
    dispatch = _nodes_with(cfg, lambda x: isinstance(x, ast.Call) and isinstance(x.func, ast.Name) and x.func.id in locals_
                           and x.args and isinstance(x.args[0], ast.Name) and x.args[0].id == f.params[0])
    if len(dispatch) < 1:
        raise AnalysisError('construct_object: dispatch call not found')
    # (a) the cache is consulted first: `node in self.constructed_objects` leads to `return self.constructed_objects[node]`,
    #     nothing on the way to that return changes the constructor's state, and the dispatch lies behind the false edge
    cache_edges = _test_edges(cfg, lambda inner: (True if pmatch('_N_node in self.constructed_objects', inner, env) else
                                                  (False if pmatch('_N_node not in self.constructed_objects', inner, env) else None)))
    cached_returns = [n for n in cfg.nodes if n.kind == 'return' and n.ast.value is not None and is_every_source(
        f.node, n.ast.value, lambda e: pmatch('self.constructed_objects[_N_node]', e, env) is not None)]
    ok = bool(cache_edges) and bool(cached_returns)
    first = cache_edges[0][0].stmt if cache_edges else f.node.body[0]
    if ok:
        for (tn, lab) in cache_edges:
            r = cfg.reach([m for (m, l) in cfg.succ[tn] if l == lab], follow_exc=False)
            if not any(x in r for x in cached_returns) or any(x in r for x in dispatch) or cfg.exit_fall in r:
                ok = False
        for rn in cached_returns:
            if not cfg.guarded(rn, edges=cache_edges):
                ok = False
        before = cfg.reach([cfg.entry], blocked=cached_returns)
        for n in before:
            if _mutates_self(n) and any(rn in cfg.reach([m for (m, l) in cfg.succ[n]]) for rn in cached_returns):
                ok = False
                first = n.ast
        if not all(cfg.guarded(d, edges=[(tn, not lab) for (tn, lab) in cache_edges]) for d in dispatch):
            ok = False
    if ok:
        rule.ok(f.loc(first), 'cache consulted first: one object per node')
    else:
        fail('cache-test', first, 'construct_object does not start by returning the cached object for a node that was already '
                                  'constructed: an alias yields a second object instead of the same one')
    # (b) recursion test + mark dominate the dispatch
    rec_edges = _test_edges(cfg, lambda inner: (False if pmatch('_N_node in self.recursive_objects', inner, env) else
                                                (True if pmatch('_N_node not in self.recursive_objects', inner, env) else None)))
    rec_raise_ok = False
    cerr = repo.cls('constructor.ConstructorError')
    for (tn, lab) in rec_edges:
        succ = [m for (m, l) in cfg.succ[tn] if l != lab]
        r = cfg.reach(succ)
        if not any(x in r for x in cfg.normal_exits()):
            for x in r:
                if x.kind == 'raise' and raise_class_ok(repo, f, x, cerr):
                    rec_raise_ok = True
    marks = [n for n in cfg.nodes if n.kind == 'stmt' and isinstance(n.ast, ast.Assign)
             and any(pmatch('self.recursive_objects[_N_node]', t, env) for t in n.ast.targets)]
    for d in dispatch:
        if rec_edges and rec_raise_ok and cfg.guarded(d, edges=rec_edges) and marks and cfg.guarded(d, nodes=marks):
            rule.ok(f.loc(d.ast), 'dispatch under recursion test + mark')
        else:
            fail('recursion-guard|%d' % dispatch.index(d), d.ast,
                 'the constructor is dispatched without a dominating `node in self.recursive_objects -> raise ConstructorError` '
                 'test and mark: a node that is its own key/argument recurses without bound instead of being rejected')
    # (c) cache store post-dominates the dispatch
    stores = [n for n in cfg.nodes if n.kind == 'stmt' and isinstance(n.ast, ast.Assign)
              and any(pmatch('self.constructed_objects[_N_node]', t, env) for t in n.ast.targets)]
    unmarks = [n for n in cfg.nodes if n.kind == 'stmt' and isinstance(n.ast, ast.Delete)
               and any(pmatch('self.recursive_objects[_N_node]', t, env) for t in n.ast.targets)]
    unmarks += _nodes_with(cfg, lambda x: pmatch('self.recursive_objects.pop(_N_node, ...)', x, env) is not None
                           or pmatch('self.recursive_objects.pop(_N_node)', x, env) is not None)
    for d in dispatch:
        starts = [m for (m, lab) in cfg.succ[d] if lab != 'exc']
        r = cfg.reach(starts, blocked=stores, follow_exc=False)
        if stores and not any(x in r for x in cfg.normal_exits()):
            rule.ok(f.loc(d.ast), 'every normal path from the dispatch stores the object in the cache')
        else:
            fail('cache-store|%d' % dispatch.index(d), d.ast,
                 'a normal path from the constructor call to the return does not store the object in self.constructed_objects: '
                 'an alias to such a node constructs a second, different object')
        # (d) the mark is released after the store, on every normal path, and not before
        r2 = cfg.reach(starts, blocked=unmarks, follow_exc=False)
        released = unmarks and not any(x in r2 for x in cfg.normal_exits())
        early = any(u in cfg.reach(starts, blocked=stores, follow_exc=False) for u in unmarks)
        if released and not early:
            rule.ok(f.loc(d.ast), 'recursion mark released after the cache store')
        else:
            fail('unmark-order|%d' % dispatch.index(d), (unmarks[0].ast if unmarks else d.ast),
                 'the recursion mark is %s: %s' % (
                     'released before the object is cached' if early else 'not released on every normal path',
                     'while a deep (eager) constructor is still draining, a self-reference is no longer recognised and '
                     'recurses without bound' if early else 'later documents see a stale mark'))
    # (e) generator protocol: the generator (the value handed to next()) is resumed before the store only under
    #     deep_construct, otherwise queued
    firsts = [x for n in _nodes_with(cfg, lambda x: isinstance(x, ast.Call) and norm(x.func) == 'next' and x.args) for x in own_exprs(n)
              if isinstance(x, ast.Call) and norm(x.func) == 'next' and x.args]
    gens = [x.args[0] for x in firsts]
    drains = [n for n in cfg.nodes if n.kind == 'for' and any(same(n.ast, g) for g in gens)]
    deep_edges = _test_edges(cfg, lambda inner: (True if pmatch('self.deep_construct', inner) else None))
    queued = _nodes_with(cfg, lambda x: isinstance(x, ast.Call) and pmatch('self.state_generators.append', x.func) is not None
                         and x.args and any(same(x.args[0], g) for g in gens))
    gen_ok = bool(queued) and bool(firsts)
    for dnode in drains:
        if not (deep_edges and cfg.guarded(dnode, edges=deep_edges)):
            gen_ok = False
    if gen_ok:
        rule.ok(f.loc(), 'two-phase protocol: next() once, drained only in deep mode, else queued')
    else:
        fail('generator-protocol', None,
             'the generator returned by a two-phase constructor is resumed before the object is cached outside deep mode (or '
             'never queued): children that alias the container are constructed before it can be found in the cache')
    return rule


def _queue_empty_edges(cfg, is_queue):
    """edges on which the queue expression is known to be empty (`while q` false, `len(q) > 0` false, `len(q) == 0` true)."""
    def m(inner):
        if is_queue(inner):
            return False
        for src, lab in (('len(__q) > 0', False), ('len(__q) != 0', False), ('len(__q) >= 1', False), ('len(__q)', False),
                         ('len(__q) == 0', True), ('len(__q) < 1', True), ('__q != []', False), ('__q == []', True)):
            e = pmatch(src, inner)
            if e and is_queue(e['__q']):
                return lab
        return None
    return _test_edges(cfg, m)


def r_generators_drained(ctx, repo):
    rule = ctx.rule('R-GENERATORS-DRAINED', 'construct_document drains state_generators (loop without break) before it resets the caches')
    f = repo.func('constructor.BaseConstructor.construct_document')
    cfg = CFG(f.node)
    is_queue = self_attr('state_generators')
    empty_edges = [(n, lab) for (n, lab) in _queue_empty_edges(cfg, is_queue) if isinstance(n.stmt, ast.While)]
    resets = [n for n in cfg.nodes if n.kind == 'stmt' and isinstance(n.ast, ast.Assign)
              and any(self_attr('constructed_objects')(t) or self_attr('recursive_objects')(t) for t in n.ast.targets)]
    rets = [n for n in cfg.nodes if n.kind == 'return']
    if not resets or not rets:
        raise AnalysisError('construct_document: resets/return not found')
    # the caches are reset / the document is returned only through an edge on which the queue is empty
    ok = bool(empty_edges) and all(cfg.guarded(r, edges=empty_edges) for r in resets + rets)
    # the loop body resumes every queued generator: a loop over the queue (or the local that took it over) whose body runs
    # each generator to exhaustion (a loop over the element)
    defs = local_defs(f.node)
    body_ok = False
    for (tn, lab) in empty_edges:
        cyc = cfg.reach([m for (m, l) in cfg.succ[tn] if l != lab])
        if tn not in cyc:
            continue
        for outer in cyc:
            if outer.kind != 'for' or not is_every_source(f.node, outer.ast, is_queue):
                continue
            tgt = outer.stmt.target
            inner = [n for n in cyc if n.kind == 'for' and n is not outer and same(n.ast, tgt)
                     and n in cfg.reach([m for (m, l) in cfg.succ[outer] if l is True])]
            if inner:
                body_ok = True
    if ok and body_ok:
        rule.ok(f.loc(), 'pending generators run to completion before the document is returned')
    else:
        rule.fail('%s|drain' % f.qualname, f.module.rel, f.node.lineno, f.qualname, 'while self.state_generators',
                  'construct_document can return (or clear the object cache) while two-phase constructors are still pending: '
                  'containers are returned unfilled, or aliases inside them construct fresh objects')
    return rule


CHILD_CALLS = ('construct_object', 'construct_sequence', 'construct_mapping', 'construct_pairs')
KIND_CONSTRUCTORS = ('construct_sequence', 'construct_mapping', 'construct_pairs')


def _deep_arg(call):
    """the expression passed as `deep` to a child constructor call (second positional or keyword), or None."""
    for k in call.keywords:
        if k.arg == 'deep':
            return k.value
    if len(call.args) >= 2:
        return call.args[1]
    return None


def r_two_phase(ctx, repo):
    rule = ctx.rule('R-TWO-PHASE', 'every table constructor that builds a mutable container from child nodes is a generator whose first '
                                   'yield (of the empty container / bare instance) dominates all child construction; safe container '
                                   'constructors do not construct children in deep mode')
    rm = RR.model(repo)
    seen = set()
    safe_funcs = set(rm.heap.table(repo.cls('loader.SafeLoader'), 'yaml_constructors').values())
    n = 0
    for q in RR.SAFE_LOADERS + RR.FULL_LOADERS + ['loader.UnsafeLoader']:
        cls = repo.cls(q)
        for reg in ('yaml_constructors', 'yaml_multi_constructors'):
            for key, f in rm.heap.table(cls, reg).items():
                if f in seen:
                    continue
                seen.add(f)
                calls = [c for c in A.func_calls(f.node) if isinstance(c.func, ast.Attribute) and c.func.attr in CHILD_CALLS
                         and isinstance(c.func.value, ast.Name) and c.func.value.id == f.params[0]]
                if not calls:
                    continue
                n += 1
                if f.is_generator:
                    cfg = CFG(f.node)
                    ynodes = [x for x in cfg.nodes if x.ast is not None and any(isinstance(s, ast.Yield) for s in own_exprs(x))]
                    bad = []
                    for c in calls:
                        st = A.enclosing_stmt(c)
                        for cn in cfg.nodes_of(st) or _nodes_with(cfg, lambda x, c=c: x is c):
                            if not cfg.guarded(cn, nodes=ynodes):
                                bad.append(c)
                    if bad:
                        rule.fail('%s|yield-order' % f.qualname, f.module.rel, bad[0].lineno, f.qualname, norm(bad[0])[:80],
                                  '%s constructs children before it has yielded the (empty) container: a child that aliases '
                                  'the container cannot find it in the cache' % f.qualname)
                    else:
                        rule.ok(f.loc(), '%s yields before constructing children' % f.name)
                    if f in safe_funcs:
                        deep = [c for c in calls if (_deep_arg(c) is not None and not (
                            isinstance(_deep_arg(c), ast.Constant) and _deep_arg(c).value is False))]
                        if deep:
                            rule.fail('%s|deep' % f.qualname, f.module.rel, deep[0].lineno, f.qualname, norm(deep[0])[:80],
                                      '%s constructs its children in deep mode: a self-reference nested below this container '
                                      'is rejected as "unconstructable recursive node" instead of being built' % f.qualname)
                        else:
                            rule.ok(f.loc(), '%s constructs children lazily (no deep=True)' % f.name)
                else:
                    # non-generator: either everything is constructed eagerly (deep=True) or the result is an immutable tuple
                    all_deep = all(isinstance(_deep_arg(c), ast.Constant) and _deep_arg(c).value is True for c in calls)
                    rets = [r for r in walk_function(f.node) if isinstance(r, ast.Return) and r.value is not None]
                    tuple_only = bool(rets) and all(isinstance(r.value, ast.Call) and norm(r.value.func) == 'tuple' for r in rets)
                    delegating = bool(rets) and all(isinstance(r.value, ast.Call) and isinstance(r.value.func, ast.Attribute)
                                                    and r.value.func.attr in CHILD_CALLS for r in rets) and len(calls) == len(rets)
                    if all_deep or tuple_only:
                        rule.ok(f.loc(), '%s: %s' % (f.name, 'children constructed eagerly (deep=True)' if all_deep
                                                     else 'returns an immutable tuple of child references'))
                    elif delegating:
                        rule.ok(f.loc(), '%s delegates to a kind constructor' % f.name)
                    else:
                        rule.fail('%s|not-generator' % f.qualname, f.module.rel, f.node.lineno, f.qualname, 'def %s' % f.name,
                                  '%s builds a container from child nodes but is not a two-phase (generator) constructor and does '
                                  'not construct its children eagerly: recursive documents raise instead of being built, or '
                                  'children are still unfilled when they are used' % f.qualname)
    # laziness of the table constructors rests on the kind constructors handing their own `deep` flag down unchanged:
    # a child is constructed in deep mode only when the caller asked for it
    B = repo.cls('constructor.BaseConstructor')
    for kname in KIND_CONSTRUCTORS:
        g = B.methods.get(kname)
        if g is None:
            raise AnalysisError('BaseConstructor.%s has vanished' % kname)
        if len(g.params) < 3:
            raise AnalysisError('%s: expected (self, node, deep)' % g.qualname)
        own_deep = g.params[2]
        kids = [c for c in A.func_calls(g.node) if isinstance(c.func, ast.Attribute) and c.func.attr in CHILD_CALLS
                and isinstance(c.func.value, ast.Name) and c.func.value.id == g.params[0]]
        if not kids:
            raise AnalysisError('%s constructs no children' % g.qualname)
        forced = [c for c in kids if not (isinstance(_deep_arg(c), ast.Name) and _deep_arg(c).id == own_deep)]
        rebound = own_deep in local_defs(g.node)
        if forced or rebound:
            c = forced[0] if forced else g.node
            rule.fail('%s|deep-passthrough' % g.qualname, g.module.rel, c.lineno, g.qualname,
                      norm(c)[:80] if forced else 'deep', '%s does not hand its own `deep` flag to the construction of its children: children '
                      'are built in deep mode (or lazily) regardless of what the caller asked for, so a two-phase table constructor '
                      'above it no longer builds nested self-references (or gets unfilled children)' % g.qualname)
        else:
            rule.ok(g.loc(), '%s passes its deep flag through to %d child constructions' % (g.name, len(kids)))
    if n < 4:
        raise AnalysisError('R-TWO-PHASE evaluated %d container constructors, fewer than half of the 8 confirmed by reading; the '
                            'rule no longer matches the code it was written for' % n)
    return rule


# ------------------------------------------------------------------------------------------------ C18

LAZY_API = {'scan': ('check_token', 'get_token'), 'parse': ('check_event', 'get_event'),
            'compose_all': ('check_node', 'get_node'), 'load_all': ('check_data', 'get_data')}
PASS_THROUGH = {'full_load_all': 'load_all', 'safe_load_all': 'load_all', 'unsafe_load_all': 'load_all'}


def r_api_generators(ctx, repo):
    rule = ctx.rule('R-API-GENERATORS', 'scan/parse/compose_all/load_all are generators that yield loader.get_X() inside `while '
                                        'loader.check_X()` inside try/finally dispose, with no draining construct; the *_load_all '
                                        'wrappers return load_all(...) unchanged')
    init = repo.modules['__init__']
    for name, (chk, get) in LAZY_API.items():
        f = init.functions.get(name)
        if f is None:
            raise AnalysisError('yaml.%s has vanished' % name)
        problems = []
        if not f.is_generator:
            problems.append('is not a generator function')
        cfg = CFG(f.node)
        yields = [n for n in walk_function(f.node) if isinstance(n, (ast.Yield, ast.YieldFrom))]
        for y in yields:
            if isinstance(y, ast.YieldFrom):
                problems.append('uses yield from')
                continue
            v = y.value
            if not (isinstance(v, ast.Call) and isinstance(v.func, ast.Attribute) and v.func.attr == get and not v.args):
                problems.append('yields %s instead of loader.%s()' % (norm(v)[:30] if v is not None else None, get))
                loader = None
            else:
                loader = v.func.value
            # every item is produced on demand: the yield is reached only through the true edge of loader.check_X()
            chk_edges = _test_edges(cfg, lambda inner: (True if (isinstance(inner, ast.Call) and isinstance(inner.func, ast.Attribute)
                                                                 and inner.func.attr == chk and not inner.args
                                                                 and (loader is None or same(inner.func.value, loader))) else None))
            ynodes = _nodes_with(cfg, lambda x: x is y)
            if not chk_edges or not all(cfg.guarded(yn, edges=chk_edges) and on_cycle(cfg, yn) for yn in ynodes):
                problems.append('the yield is not inside `while loader.%s()`' % chk)
            # abandoning the iterator (GeneratorExit at the yield) releases the loader: lexically inside try/finally dispose
            in_try = False
            p = y
            while p is not None and p is not f.node:
                child = p
                p = getattr(p, '_parent', None)
                if isinstance(p, ast.Try) and any(child is s for s in p.body) and p.finalbody and any(
                        isinstance(c.func, ast.Attribute) and c.func.attr == 'dispose' and
                        (loader is None or same(c.func.value, loader)) for c in A.calls_in(p.finalbody)):
                    in_try = True
                    if p.handlers:
                        problems.append('the try around the yield has except clauses')
            if not in_try:
                problems.append('the yield is not inside try/finally: dispose (abandoning the iterator would not release the loader)')
        for n in walk_function(f.node):
            if isinstance(n, (ast.ListComp, ast.SetComp, ast.DictComp, ast.GeneratorExp)):
                problems.append('contains a comprehension (draining construct)')
            if isinstance(n, ast.Call) and norm(n.func) in ('list', 'tuple', 'sorted', 'reversed', 'iter', 'len'):
                problems.append('calls %s() (draining construct)' % norm(n.func))
            if isinstance(n, ast.Call) and isinstance(n.func, ast.Attribute) and n.func.attr in ('append', 'extend', 'insert'):
                problems.append('collects into a container before yielding')
        if len(yields) != 1:
            problems.append('%d yield expressions' % len(yields))
        if problems:
            rule.fail('%s|%s' % (f.qualname, ';'.join(sorted(set(problems)))[:200]), f.module.rel, f.node.lineno, f.qualname,
                      'def %s' % name, 'yaml.%s %s' % (name, '; '.join(sorted(set(problems)))))
        else:
            rule.ok(f.loc(), 'yaml.%s yields item by item, dispose in finally' % name)
    for name, target in PASS_THROUGH.items():
        f = init.functions.get(name)
        if f is None:
            raise AnalysisError('yaml.%s has vanished' % name)
        rets = [n for n in walk_function(f.node) if isinstance(n, ast.Return)]
        ok = bool(rets) and not f.is_generator and all(
            r.value is not None and is_every_source(f.node, r.value, lambda e: isinstance(e, ast.Call) and norm(e.func) == target)
            for r in rets) and not any(isinstance(n, (ast.For, ast.While, ast.ListComp, ast.GeneratorExp)) for n in walk_function(f.node))
        if ok:
            rule.ok(f.loc(), 'yaml.%s returns %s(...) unchanged' % (name, target))
        else:
            rule.fail('%s|wrapper' % f.qualname, f.module.rel, f.node.lineno, f.qualname, 'def %s' % name,
                      'yaml.%s no longer hands back the lazy iterator of %s unchanged' % (name, target))
    return rule


def _atoms(test):
    """the atomic conditions of a boolean expression (operands of and / or / not, recursively)."""
    if isinstance(test, ast.BoolOp):
        return [a for v in test.values for a in _atoms(v)]
    if isinstance(test, ast.UnaryOp) and isinstance(test.op, ast.Not):
        return _atoms(test.operand)
    return [test]


def _is_stream_read(c):
    return isinstance(c, ast.Call) and isinstance(c.func, ast.Attribute) and c.func.attr == 'read' \
        and isinstance(c.func.value, ast.Attribute) and c.func.value.attr == 'stream'


def r_bounded_read(ctx, repo):
    rule = ctx.rule('R-BOUNDED-READ', 'every stream.read() in the reader asks for a constant block size, refills happen only on demand '
                                      '(update -> update_raw inside `while len(buffer) < length`), and the C input handler passes '
                                      'libyaml\'s requested size through')
    R = repo.cls('reader.Reader')
    reads = 0
    for f in R.methods.values():
        fcfg = None
        for c in A.func_calls(f.node):
            if _is_stream_read(c):
                reads += 1
                if fcfg is None:
                    fcfg = CFG(f.node)
                # one refill = a bounded number of read() calls: the read is not on a cycle of its function
                rnodes = _nodes_with(fcfg, lambda x, c=c: x is c)
                if any(on_cycle(fcfg, rn) for rn in rnodes):
                    rule.fail('%s|read-loop' % f.qualname, f.module.rel, c.lineno, f.qualname, norm(c),
                              'the stream is read inside a loop of %s: the amount pulled in by one refill is bounded by the '
                              'input, not by a constant block size' % f.name)
                    continue
                if len(c.args) != 1 or c.keywords:
                    rule.fail('%s|read-unsized' % f.qualname, f.module.rel, c.lineno, f.qualname, norm(c),
                              'the stream is read without a size: the whole input is requested at once')
                    continue
                a = c.args[0]
                if isinstance(a, ast.Constant) and isinstance(a.value, int) and not isinstance(a.value, bool) and a.value > 0:
                    rule.ok(f.loc(c), 'read(%d)' % a.value)
                    continue
                if isinstance(a, ast.Name) and a.id in f.params:
                    # every call site passes / defaults a constant
                    d = f.defaults().get(a.id)
                    consts = set()
                    okp = isinstance(d, ast.Constant) and isinstance(d.value, int)
                    if okp:
                        consts.add(d.value)
                    # the parameter is not modified inside the function
                    if a.id in local_defs(f.node):
                        okp = False
                    for g in repo.all_functions():
                        for cc in A.func_calls(g.node):
                            if isinstance(cc.func, ast.Attribute) and cc.func.attr == f.name:
                                args = list(cc.args) + [k.value for k in cc.keywords]
                                for x in args:
                                    if isinstance(x, ast.Constant) and isinstance(x.value, int):
                                        consts.add(x.value)
                                    else:
                                        okp = False
                    if okp:
                        rule.ok(f.loc(c), 'read(<block size parameter>) with a constant in %s at every call site' % sorted(consts))
                    else:
                        rule.fail('%s|read-size' % f.qualname, f.module.rel, c.lineno, f.qualname, norm(c),
                                  'the size passed to stream.read() is not a constant at every call site: the amount requested '
                                  'beyond a document is no longer bounded by a fixed number of refill blocks')
                    continue
                rule.fail('%s|read-size' % f.qualname, f.module.rel, c.lineno, f.qualname, norm(c),
                          'the size passed to stream.read() is computed, not a constant block size')
    if reads < 1:
        raise AnalysisError('no stream.read() call found in the reader')
    # update_raw is called only on demand: in update() while the buffer is shorter than the requested length, in
    # determine_encoding while fewer than a constant number of raw units are there and the stream has not ended
    upd = R.methods.get('update')
    if upd is None:
        raise AnalysisError('Reader.update has vanished')
    uenv = param_env(upd, _N_length=1)
    sites = 0
    for f in R.methods.values():
        fcfg = None
        for c in A.func_calls(f.node):
            if not (_self_call('update_raw')(c)):
                continue
            sites += 1
            if fcfg is None:
                fcfg = CFG(f.node)
            cnodes = _nodes_with(fcfg, lambda x, c=c: x is c)
            eof_edges = _test_edges(fcfg, lambda inner: (False if pmatch('self.eof', inner) else None))
            if f is upd:
                need = _test_edges(fcfg, lambda inner: (True if pmatch('len(self.buffer) < _N_length', inner, uenv) else
                                                        (False if pmatch('len(self.buffer) >= _N_length', inner, uenv) else None)))
                good = bool(need) and all(fcfg.guarded(cn, edges=need) for cn in cnodes)
                what = 'refill only while the buffer is shorter than requested'
            else:
                def short(inner):
                    for src, lab in (('len(self.raw_buffer) < __k', True), ('len(self.raw_buffer) >= __k', False),
                                     ('self.raw_buffer is None', True), ('self.raw_buffer is not None', False)):
                        e = pmatch(src, inner)
                        if e is not None and ('__k' not in e or (isinstance(e['__k'], ast.Constant) and isinstance(e['__k'].value, int))):
                            return lab
                    return None
                need = _test_edges(fcfg, short)
                good = bool(need) and bool(eof_edges) and all(fcfg.guarded(cn, edges=need) and fcfg.guarded(cn, edges=eof_edges)
                                                               for cn in cnodes)
                what = 'encoding detection reads only until a constant number of units / eof'
            if good:
                rule.ok(f.loc(c), what)
            else:
                rule.fail('%s|update_raw-site' % f.qualname, f.module.rel, c.lineno, f.qualname, norm(c),
                          'the stream is refilled outside the demand-driven loops (while len(buffer) < length / encoding '
                          'detection): input is pulled ahead of need')
    if sites < 1:
        raise AnalysisError('no update_raw() call found in the reader')
    # no drain loop: a loop whose only exit condition is the end of the stream
    for f in R.methods.values():
        for n in walk_function(f.node):
            if isinstance(n, ast.While):
                atoms = _atoms(n.test)
                has_eof = any(pmatch('self.eof', x) for x in atoms)
                has_len = any(isinstance(y, ast.Call) and norm(y.func) == 'len' for x in atoms for y in ast.walk(x))
                if has_eof and not has_len:
                    rule.fail('%s|drain-loop' % f.qualname, f.module.rel, n.lineno, f.qualname, 'while %s' % norm(n.test),
                              'a loop reads the stream until end of file')
    # pyx input handler: value = parser.stream.read(size) with libyaml's own size argument (parameter 3)
    ih = repo.modules['_yaml'].functions.get('input_handler')
    if ih is None:
        raise AnalysisError('input_handler has vanished from the binding')
    if len(ih.params) < 3:
        raise AnalysisError('input_handler: expected (data, buffer, size, read)')
    size = ih.params[2]
    rd = [c for c in A.func_calls(ih.node) if _is_stream_read(c)]
    ok = False
    if len(rd) == 1 and len(rd[0].args) == 1 and isinstance(rd[0].args[0], ast.Name) and rd[0].args[0].id == size:
        icfg = CFG(ih.node)
        rdefs = reaching_defs(icfg, size)
        rnodes = _nodes_with(icfg, lambda x: x is rd[0])
        ok = bool(rnodes) and all(not rdefs[rn] and not on_cycle(icfg, rn) for rn in rnodes)
    if ok:
        rule.ok(ih.loc(rd[0]), 'C input handler reads exactly the size libyaml asks for')
    else:
        rule.fail('%s|read' % ih.qualname, ih.module.rel, ih.node.lineno, ih.qualname, 'parser.stream.read(...)',
                  'the C input handler does not pass libyaml\'s requested size to stream.read()')
    return rule


def _expiry_loops(cfg):
    """stale-key expiry written out in a function: `for` nodes over the pending simple keys whose body deletes an entry of
    self.possible_simple_keys when it lies on another line or more than a constant number of characters back.
    -> [(for node, bound)]"""
    is_keys = self_attr('possible_simple_keys')
    out = []
    for loop in cfg.nodes:
        if loop.kind != 'for' or not any(is_keys(x) for x in ast.walk(loop.ast)):
            continue
        body = cfg.reach([m for (m, l) in cfg.succ[loop] if l is True], blocked=[loop])
        dels = [n for n in body if n.kind == 'stmt' and isinstance(n.ast, ast.Delete)
                and any(isinstance(t, ast.Subscript) and is_keys(t.value) for t in n.ast.targets)]
        dels += [n for n in body if n.ast is not None and n.kind == 'stmt' and any(
            isinstance(x, ast.Call) and isinstance(x.func, ast.Attribute) and x.func.attr == 'pop' and is_keys(x.func.value)
            for x in own_exprs(n))]
        if not dels:
            continue
        line_edges, dist_edges, bound = [], [], None
        for n in body:
            if n.kind != 'test':
                continue
            inner, pos = A.strip_not(n.ast)
            e = pmatch('__k.line != self.line', inner)
            if e is not None:
                line_edges.append((n, pos))
            e = pmatch('__k.line == self.line', inner)
            if e is not None:
                line_edges.append((n, not pos))
            for src, lab in (('self.index - __k.index > __c', True), ('self.index - __k.index >= __c', True),
                             ('self.index - __k.index <= __c', False), ('self.index - __k.index < __c', False)):
                e = pmatch(src, inner)
                if e is not None and isinstance(e['__c'], ast.Constant) and isinstance(e['__c'].value, int):
                    dist_edges.append((n, lab if pos else (not lab)))
                    bound = e['__c'].value
        if not line_edges or not dist_edges:
            continue
        # either condition alone leads to the deletion (or to the "required key" error): from the stale edge, the next
        # iteration / the loop exit is reached only through the deletion
        good = True
        for (tn, lab) in line_edges + dist_edges:
            r = cfg.reach([m for (m, l) in cfg.succ[tn] if l == lab], blocked=dels, follow_exc=False)
            if loop in r:
                good = False
        if good:
            out.append((loop, bound))
    return out


def _expiry_sites(cfg):
    """CFG guards that mean "stale simple-key candidates have been expired": calls of stale_possible_simple_keys() and the
    exits of written-out expiry loops.  -> (nodes, edges)"""
    nodes = _nodes_with(cfg, _self_call('stale_possible_simple_keys'))
    edges = [(loop, False) for (loop, bound) in _expiry_loops(cfg)]
    return nodes, edges


def r_token_demand(ctx, repo):
    rule = ctx.rule('R-TOKEN-DEMAND', 'tokens are fetched only while need_more_tokens(), which is true only for an empty queue or a '
                                      'pending simple key; stale keys are expired by line and by a character-distance constant before '
                                      'every decision')
    S = repo.cls('scanner.Scanner')
    for name in ('check_token', 'peek_token', 'get_token'):
        f = S.methods.get(name)
        if f is None:
            raise AnalysisError('Scanner.%s has vanished' % name)
        cfg = CFG(f.node)
        fetches = _nodes_with(cfg, _self_call('fetch_more_tokens'))
        need_edges = _test_edges(cfg, lambda inner: (True if pmatch('self.need_more_tokens()', inner) else None))
        good = bool(fetches) and bool(need_edges)
        for fn in fetches:
            # a fetch happens only right after need_more_tokens() said so: every path to it passes the true edge, and
            # every path from one fetch to the next passes it again
            if not cfg.guarded(fn, edges=need_edges):
                good = False
            r = cfg.reach([m for (m, l) in cfg.succ[fn] if l != 'exc'], blocked_edges=need_edges)
            if any(x in r for x in fetches):
                good = False
        # no other loop pulls tokens
        for n in cfg.nodes:
            if n.kind == 'test' and isinstance(n.stmt, ast.While) and not any(n is tn for (tn, lab) in need_edges):
                good = False
        if good:
            rule.ok(f.loc(), '%s fetches only while need_more_tokens()' % name)
        else:
            rule.fail('%s|fetch' % f.qualname, f.module.rel, f.node.lineno, f.qualname, 'fetch_more_tokens',
                      '%s fetches tokens outside `while self.need_more_tokens()`: the scanner runs ahead of the consumer' % name)
    f = S.methods.get('need_more_tokens')
    if f is None:
        raise AnalysisError('Scanner.need_more_tokens has vanished')
    cfg = CFG(f.node)
    rets_true = [n for n in cfg.nodes if n.kind == 'return' and isinstance(n.ast.value, ast.Constant) and n.ast.value.value is True]
    other = [n for n in cfg.nodes if n.kind == 'return' and n.ast.value is not None and not isinstance(n.ast.value, ast.Constant)]
    ok = bool(rets_true) and not other
    # reasons to ask for more: the queue is empty / the next possible simple key is the next token to hand out
    empty_edges = _queue_empty_edges(cfg, self_attr('tokens'))

    def pending(inner):
        for src, lab in (('self.next_possible_simple_key() == self.tokens_taken', True),
                         ('self.next_possible_simple_key() != self.tokens_taken', False)):
            if pmatch(src, inner) is not None:
                return lab
        return None
    key_edges = _test_edges(cfg, pending)
    for rt in rets_true:
        if not cfg.guarded(rt, edges=empty_edges + key_edges):
            ok = False
    stale_nodes, stale_edges = _expiry_sites(cfg)
    key_tests = [n for n in cfg.nodes if n.ast is not None and any(_self_call('next_possible_simple_key')(x) for x in own_exprs(n))]
    if not key_tests or not (stale_nodes or stale_edges) or \
            not all(cfg.guarded(k, nodes=stale_nodes, edges=stale_edges) for k in key_tests):
        ok = False
    # a finished scanner never asks for more
    done_edges = _test_edges(cfg, lambda inner: (False if pmatch('self.done', inner) else None))
    if not done_edges or not all(cfg.guarded(rt, edges=done_edges) for rt in rets_true):
        ok = False
    if ok:
        rule.ok(f.loc(), 'need_more_tokens: done -> False; empty queue or pending simple key (after expiry) -> True')
    else:
        rule.fail('%s|shape' % f.qualname, f.module.rel, f.node.lineno, f.qualname, 'def need_more_tokens',
                  'need_more_tokens can ask for more tokens for another reason than an empty queue or a pending simple key, or '
                  'decides before expiring stale keys: the look-ahead is no longer bounded')
    g = S.methods.get('stale_possible_simple_keys')
    if g is None:
        raise AnalysisError('Scanner.stale_possible_simple_keys has vanished')
    loops = _expiry_loops(CFG(g.node))
    if loops:
        bound = loops[0][1]
        rule.ok(g.loc(), 'simple-key candidates expire on a new line or after %d characters' % bound)
        ctx.extra['simple_key_window'] = bound
    else:
        rule.fail('%s|window' % g.qualname, g.module.rel, g.node.lineno, g.qualname, 'stale_possible_simple_keys',
                  'a simple-key candidate is no longer expired both by line and by a character-distance constant: a pending key '
                  'keeps the scanner fetching tokens without bound')
    # fetch_more_tokens expires stale keys too, before dispatch
    h = S.methods.get('fetch_more_tokens')
    if h is None:
        raise AnalysisError('Scanner.fetch_more_tokens has vanished')
    hcfg = CFG(h.node)
    hn, he = _expiry_sites(hcfg)
    fetchers = [n for n in hcfg.nodes if n.ast is not None and any(
        isinstance(x, ast.Call) and isinstance(x.func, ast.Attribute) and x.func.attr.startswith('fetch_')
        and isinstance(x.func.value, ast.Name) and x.func.value.id == 'self' for x in own_exprs(n))]
    if (hn or he) and fetchers and all(hcfg.guarded(x, nodes=hn, edges=he) for x in fetchers):
        rule.ok(h.loc(), 'fetch_more_tokens expires stale candidates')
    else:
        rule.fail('scanner.Scanner.fetch_more_tokens|stale', S.module.rel, h.node.lineno,
                  'scanner.Scanner.fetch_more_tokens', 'stale_possible_simple_keys()',
                  'fetch_more_tokens no longer expires stale simple-key candidates')
    return rule


def r_event_demand(ctx, repo):
    rule = ctx.rule('R-EVENT-DEMAND', 'check_event/peek_event/get_event run the parser state at most once and only when no event is '
                                      'pending; parse_document_end looks at no token after consuming the document end marker')
    P = repo.cls('parser.Parser')
    for name in ('check_event', 'peek_event', 'get_event'):
        f = P.methods.get(name)
        if f is None:
            raise AnalysisError('Parser.%s has vanished' % name)
        cfg = CFG(f.node)
        steps = _nodes_with(cfg, lambda x: isinstance(x, ast.Call) and pmatch('self.state', x.func) is not None)
        none_edges = none_test_edges(cfg, [ast.parse('self.current_event', mode='eval').body])
        ok = bool(steps) and bool(none_edges)
        for sn in steps:
            # only when no event is pending, and at most one step per call (no path from one step to a step)
            if not cfg.guarded(sn, edges=none_edges):
                ok = False
            r = cfg.reach([m for (m, lab) in cfg.succ[sn]])
            if any(x in r for x in steps):
                ok = False
        if ok:
            rule.ok(f.loc(), '%s: one parser step, only when no event is pending' % name)
        else:
            rule.fail('%s|step' % f.qualname, f.module.rel, f.node.lineno, f.qualname, 'self.state()',
                      '%s advances the parser more than once per call or while an event is pending: events are produced '
                      'ahead of the consumer' % name)
    f = P.methods.get('parse_document_end')
    if f is None:
        raise AnalysisError('Parser.parse_document_end has vanished')
    cfg = CFG(f.node)
    gets = _nodes_with(cfg, _self_call('get_token'))
    looks = _nodes_with(cfg, lambda x: _self_call('check_token')(x) or _self_call('peek_token')(x) or _self_call('get_token')(x))
    bad = None
    for g in gets:
        after = cfg.reach([m for (m, lab) in cfg.succ[g]])
        for l in looks:
            if l in after:
                bad = l
    if bad is None:
        rule.ok(f.loc(), 'parse_document_end consumes at most the one document end marker and looks no further')
    else:
        rule.fail('%s|lookahead' % f.qualname, f.module.rel, bad.lineno, f.qualname, norm(bad.ast).split('\n')[0][:80],
                  'after consuming a document end marker parse_document_end inspects the following token before the DocumentEnd '
                  'event is delivered: the document is held back until input beyond its end has been scanned (an error there '
                  'is raised before the complete document is yielded)')
    # compose_document consumes exactly one DocumentStart .. DocumentEnd bracket
    C = repo.cls('composer.Composer')
    f = C.methods.get('compose_document')
    if f is None:
        raise AnalysisError('Composer.compose_document has vanished')
    cfg = CFG(f.node)
    gets = _nodes_with(cfg, _self_call('get_event'))
    comps = _nodes_with(cfg, _self_call('compose_node'))
    # on every normal path: one event consumed, then the root node composed, then one event consumed; nothing repeats
    ok = len(comps) == 1 and not any(on_cycle(cfg, n) for n in gets + comps)
    if ok:
        c = comps[0]
        before = [g for g in gets if cfg.dominates(g, c)]
        after = [g for g in gets if g in cfg.reach([m for (m, l) in cfg.succ[c] if l != 'exc'], follow_exc=False)]
        ok = len(before) == 1 and bool(after) and len(before) + len(after) == len(gets)
        if ok:
            # exactly one consumed event on each normal path after the root node
            r = cfg.reach([m for (m, l) in cfg.succ[c] if l != 'exc'], blocked=after, follow_exc=False)
            if any(x in r for x in cfg.normal_exits()):
                ok = False
            for a in after:
                r = cfg.reach([m for (m, l) in cfg.succ[a] if l != 'exc'], follow_exc=False)
                if any(x in r for x in after):
                    ok = False
    if ok:
        rule.ok(f.loc(), 'compose_document: DocumentStart, one root node, DocumentEnd')
    else:
        rule.fail('%s|bracket' % f.qualname, f.module.rel, f.node.lineno, f.qualname, 'def compose_document',
                  'compose_document no longer consumes exactly one DocumentStart / root node / DocumentEnd bracket')
    return rule
