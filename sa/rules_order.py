"""Ordering / guard rules on CFGs for C13 (aliases, anchors, two-phase construction) and C18 (laziness)."""
import ast

from . import astutil as A
from . import rules_registry as RR
from .cfg import CFG, own_exprs
from .srcmodel import AnalysisError, ClassInfo, FuncInfo, norm, walk_function


def _nodes_with(cfg, pred):
    out = []
    for n in cfg.nodes:
        if n.ast is None:
            continue
        for sub in own_exprs(n):
            if pred(sub):
                out.append(n)
                break
    return out


def _self_call(name):
    def pred(x):
        return isinstance(x, ast.Call) and isinstance(x.func, ast.Attribute) and x.func.attr == name \
            and isinstance(x.func.value, ast.Name) and x.func.value.id == 'self'
    return pred


def _test_edges(cfg, match):
    """[(test node, label)] where match(inner test expr) gives the label on which the fact holds."""
    out = []
    for n in cfg.nodes:
        if n.kind == 'test':
            inner, pos = A.strip_not(n.ast)
            r = match(inner)
            if r is not None:
                out.append((n, r if pos else (not r)))
    return out


# ------------------------------------------------------------------------------------------------ C13

COMPOSERS = [('composer.Composer', 'compose_node', 'compose_scalar_node', 'compose_sequence_node', 'compose_mapping_node',
              'compose_document'),
             ('_yaml.CParser', '_compose_node', '_compose_scalar_node', '_compose_sequence_node', '_compose_mapping_node',
              '_compose_document')]


def r_alias_guard(ctx, repo):
    rule = ctx.rule('R-ALIAS-GUARD', 'in compose_node the alias read self.anchors[anchor] is dominated by `anchor not in self.anchors '
                                     '-> raise ComposerError`, and node construction by `anchor in self.anchors -> raise ComposerError`')
    cerr = repo.cls('composer.ComposerError')
    for kq, cn, sc, sq, mp, doc in COMPOSERS:
        K = repo.cls(kq)
        f = K.methods.get(cn)
        if f is None:
            raise AnalysisError('%s.%s has vanished' % (kq, cn))
        cfg = CFG(f.node)

        def member(inner):
            if isinstance(inner, ast.Compare) and len(inner.ops) == 1 and norm(inner.comparators[0]) == 'self.anchors' \
                    and isinstance(inner.left, ast.Name):
                if isinstance(inner.ops[0], ast.In):
                    return True
                if isinstance(inner.ops[0], ast.NotIn):
                    return False
            return None
        in_edges = _test_edges(cfg, member)                     # edges on which `anchor in self.anchors`
        notin_edges = [(n, not lab) for (n, lab) in in_edges]
        # (1) alias path: every load self.anchors[x] that is *returned* is guarded by x in self.anchors
        reads = [n for n in cfg.nodes if n.kind == 'return' and n.ast.value is not None
                 and isinstance(n.ast.value, ast.Subscript) and norm(n.ast.value.value) == 'self.anchors']
        if not reads:
            raise AnalysisError('%s: no `return self.anchors[...]` alias path found' % f.qualname)
        for rd in reads:
            if in_edges and cfg.guarded(rd, edges=in_edges):
                rule.ok(f.loc(rd.ast), 'alias read guarded by membership test (%s)' % f.name)
            else:
                rule.fail('%s|alias-read' % f.qualname, f.module.rel, rd.lineno, f.qualname, norm(rd.ast),
                          'an alias is resolved with self.anchors[anchor] without a dominating `anchor not in self.anchors` '
                          'rejection: an undefined alias raises KeyError instead of ComposerError')
        # the rejecting branches raise ComposerError
        for (tn, lab) in in_edges:
            # which branch leads straight to a raise?
            for branch in (True, False):
                succ = [m for (m, l) in cfg.succ[tn] if l == branch]
                if not succ:
                    continue
                r = cfg.reach(succ, follow_exc=True)
                only_raise = not any(x in r for x in cfg.normal_exits()) and not any(x.kind == 'return' for x in r)
                if only_raise:
                    raises = [x for x in r if x.kind == 'raise' and isinstance(x.ast, ast.Raise)]
                    for x in raises:
                        t = x.ast.exc.func if isinstance(x.ast.exc, ast.Call) else x.ast.exc
                        ref = repo.resolve_expr(f.module, t)
                        if ref is not None and ref.kind == 'class' and ref.obj.is_subclass_of(cerr):
                            rule.ok(f.loc(x.ast), 'rejection raises ComposerError')
                        else:
                            rule.fail('%s|reject-class|%s' % (f.qualname, norm(x.ast)[:40]), f.module.rel, x.lineno, f.qualname,
                                      norm(x.ast)[:80], 'an anchor/alias violation is rejected with something else than ComposerError')
        # (2) definition path: child composition calls are not reachable when the anchor is already defined
        comps = _nodes_with(cfg, lambda x: any(_self_call(nm)(x) for nm in (sc, sq, mp)))
        if len(comps) < 3:
            raise AnalysisError('%s: compose_*_node calls not found' % f.qualname)
        dup_true = in_edges
        bad = False
        for c in comps:
            # reachable through the true edge of `anchor in self.anchors`?  (that edge must lead only to raise)
            for (tn, lab) in dup_true:
                if cfg.guarded(c, edges=in_edges) and not reads_only_region(cfg, tn, lab, c):
                    bad = True
        # there must be a duplicate test at all: a membership test whose `in` edge cannot reach the compose calls
        dup_tests = [(tn, lab) for (tn, lab) in in_edges
                     if not any(c in cfg.reach([m for (m, l) in cfg.succ[tn] if l == lab]) for c in comps)]
        none_edges = _test_edges(cfg, lambda inner: (
            False if (isinstance(inner, ast.Compare) and len(inner.ops) == 1 and isinstance(inner.ops[0], ast.IsNot)
                      and isinstance(inner.comparators[0], ast.Constant) and inner.comparators[0].value is None
                      and isinstance(inner.left, ast.Name) and inner.left.id == 'anchor') else
            (True if (isinstance(inner, ast.Compare) and len(inner.ops) == 1 and isinstance(inner.ops[0], ast.Is)
                      and isinstance(inner.comparators[0], ast.Constant) and inner.comparators[0].value is None
                      and isinstance(inner.left, ast.Name) and inner.left.id == 'anchor') else None)))
        ok = bool(dup_tests)
        for c in comps:
            # every path to the composition passes the duplicate test (on its not-in edge) or the `anchor is None` edge
            if not cfg.guarded(c, edges=[(tn, not lab) for (tn, lab) in dup_tests] + none_edges):
                ok = False
        if ok:
            rule.ok(f.loc(), '%s: duplicate anchors rejected before the node is built' % f.name)
        else:
            rule.fail('%s|duplicate-guard' % f.qualname, f.module.rel, f.node.lineno, f.qualname, 'anchor in self.anchors',
                      'a node with an already defined anchor can be composed (no dominating `anchor in self.anchors -> raise`): '
                      'the second definition silently replaces the first')
    return rule


def reads_only_region(cfg, tn, lab, c):
    return True


def r_anchor_before_children(ctx, repo):
    rule = ctx.rule('R-ANCHOR-BEFORE-CHILDREN', 'self.anchors[anchor] = node is executed before any child of a collection is composed '
                                                '(and before a scalar node is returned)')
    for kq, cn, sc, sq, mp, doc in COMPOSERS:
        K = repo.cls(kq)
        for fname, is_coll in ((sc, False), (sq, True), (mp, True)):
            f = K.methods.get(fname)
            if f is None:
                raise AnalysisError('%s.%s has vanished' % (kq, fname))
            cfg = CFG(f.node)
            stores = [n for n in cfg.nodes if n.kind == 'stmt' and isinstance(n.ast, ast.Assign)
                      and any(isinstance(t, ast.Subscript) and norm(t.value) == 'self.anchors' for t in n.ast.targets)]
            none_edges = _test_edges(cfg, lambda inner: (
                False if (isinstance(inner, ast.Compare) and len(inner.ops) == 1 and isinstance(inner.ops[0], ast.IsNot)
                          and isinstance(inner.comparators[0], ast.Constant) and inner.comparators[0].value is None) else None))
            if is_coll:
                targets = _nodes_with(cfg, _self_call(cn))
                what = 'child composition'
            else:
                targets = [n for n in cfg.nodes if n.kind == 'return']
                what = 'return'
            if not targets:
                raise AnalysisError('%s: no %s found' % (f.qualname, what))
            for t in targets:
                if stores and cfg.guarded(t, nodes=stores, edges=none_edges):
                    rule.ok(f.loc(t.ast if isinstance(t.ast, ast.AST) else f.node), '%s: anchor registered before %s' % (f.name, what))
                else:
                    rule.fail('%s|%s' % (f.qualname, what), f.module.rel, t.lineno, f.qualname,
                              norm(t.ast).split('\n')[0][:80],
                              'a path reaches %s in %s before the node has been stored in self.anchors: an alias to the '
                              'enclosing collection inside it is undefined (recursive structures cannot be built)'
                              % (what, f.qualname))
    return rule


def r_construct_cache(ctx, repo):
    rule = ctx.rule('R-CONSTRUCT-CACHE', 'construct_object: cache test first; recursion test and mark dominate the dispatch; the cache '
                                         'store post-dominates it; the recursion mark is released only after the store; generators are '
                                         'resumed before the store only in deep mode')
    f = repo.func('constructor.BaseConstructor.construct_object')
    cfg = CFG(f.node)
    p1 = f.params[1]

    def fail(key, node, why):
        rule.fail('%s|%s' % (f.qualname, key), f.module.rel, getattr(node, 'lineno', f.node.lineno), f.qualname,
                  norm(node).split('\n')[0][:80] if node is not None else key, why)

    # dispatch calls: calls of a local variable with self as first argument
    locals_ = {n.id for n in walk_function(f.node) if isinstance(n, ast.Name) and isinstance(n.ctx, ast.Store)}
    dispatch = _nodes_with(cfg, lambda x: isinstance(x, ast.Call) and isinstance(x.func, ast.Name) and x.func.id in locals_
                           and x.args and isinstance(x.args[0], ast.Name) and x.args[0].id == f.params[0])
    if len(dispatch) < 1:
        raise AnalysisError('construct_object: dispatch call not found')
    # (a) cache test is the first statement and returns the cached object
    first = f.node.body[0]
    if isinstance(first, ast.Expr) and isinstance(first.value, ast.Constant):
        first = f.node.body[1]
    ok = isinstance(first, ast.If) and norm(first.test) == '%s in self.constructed_objects' % p1 and first.body \
        and isinstance(first.body[0], ast.Return) and norm(first.body[0].value) == 'self.constructed_objects[%s]' % p1
    if ok:
        rule.ok(f.loc(first), 'cache consulted first: one object per node')
    else:
        fail('cache-test', first, 'construct_object does not start by returning the cached object for a node that was already '
                                  'constructed: an alias yields a second object instead of the same one')
    # (b) recursion test + mark dominate the dispatch
    rec_edges = _test_edges(cfg, lambda inner: (False if norm(inner) == '%s in self.recursive_objects' % p1 else None))
    rec_raise_ok = False
    cerr = repo.cls('constructor.ConstructorError')
    for (tn, lab) in rec_edges:
        succ = [m for (m, l) in cfg.succ[tn] if l != lab]
        r = cfg.reach(succ)
        if not any(x in r for x in cfg.normal_exits()):
            for x in r:
                if x.kind == 'raise' and isinstance(x.ast, ast.Raise) and x.ast.exc is not None:
                    t = x.ast.exc.func if isinstance(x.ast.exc, ast.Call) else x.ast.exc
                    ref = repo.resolve_expr(f.module, t)
                    if ref is not None and ref.kind == 'class' and ref.obj.is_subclass_of(cerr):
                        rec_raise_ok = True
    marks = [n for n in cfg.nodes if n.kind == 'stmt' and isinstance(n.ast, ast.Assign)
             and any(norm(t) == 'self.recursive_objects[%s]' % p1 for t in n.ast.targets)]
    for d in dispatch:
        if rec_edges and rec_raise_ok and cfg.guarded(d, edges=rec_edges) and marks and cfg.guarded(d, nodes=marks):
            rule.ok(f.loc(d.ast), 'dispatch under recursion test + mark')
        else:
            fail('recursion-guard|%d' % dispatch.index(d), d.ast,
                 'the constructor is dispatched without a dominating `node in self.recursive_objects -> raise ConstructorError` '
                 'test and mark: a node that is its own key/argument recurses without bound instead of being rejected')
    # (c) cache store post-dominates the dispatch
    stores = [n for n in cfg.nodes if n.kind == 'stmt' and isinstance(n.ast, ast.Assign)
              and any(norm(t) == 'self.constructed_objects[%s]' % p1 for t in n.ast.targets)]
    unmarks = [n for n in cfg.nodes if n.kind == 'stmt' and isinstance(n.ast, ast.Delete)
               and any(norm(t) == 'self.recursive_objects[%s]' % p1 for t in n.ast.targets)]
    for d in dispatch:
        starts = [m for (m, lab) in cfg.succ[d] if lab != 'exc']
        r = cfg.reach(starts, blocked=stores, follow_exc=False)
        if stores and not any(x in r for x in cfg.normal_exits()):
            rule.ok(f.loc(d.ast), 'every normal path from the dispatch stores the object in the cache')
        else:
            fail('cache-store|%d' % dispatch.index(d), d.ast,
                 'a normal path from the constructor call to the return does not store the object in self.constructed_objects: '
                 'an alias to such a node constructs a second, different object')
        # (d) the mark is released after the store, on every normal path, and not before
        r2 = cfg.reach(starts, blocked=unmarks, follow_exc=False)
        released = unmarks and not any(x in r2 for x in cfg.normal_exits())
        early = any(u in cfg.reach(starts, blocked=stores, follow_exc=False) for u in unmarks)
        if released and not early:
            rule.ok(f.loc(d.ast), 'recursion mark released after the cache store')
        else:
            fail('unmark-order|%d' % dispatch.index(d), (unmarks[0].ast if unmarks else d.ast),
                 'the recursion mark is %s: %s' % (
                     'released before the object is cached' if early else 'not released on every normal path',
                     'while a deep (eager) constructor is still draining, a self-reference is no longer recognised and '
                     'recurses without bound' if early else 'later documents see a stale mark'))
    # (e) generator protocol: resumed before the store only under deep_construct, otherwise queued
    drains = [n for n in cfg.nodes if n.kind == 'for' and isinstance(n.ast, ast.Name)]
    deep_edges = _test_edges(cfg, lambda inner: (True if norm(inner) == 'self.deep_construct' else None))
    queued = _nodes_with(cfg, lambda x: isinstance(x, ast.Call) and norm(x.func) == 'self.state_generators.append')
    gen_ok = bool(queued)
    for dnode in drains:
        if not (deep_edges and cfg.guarded(dnode, edges=deep_edges)):
            gen_ok = False
    firsts = _nodes_with(cfg, lambda x: isinstance(x, ast.Call) and norm(x.func) == 'next')
    if not firsts:
        gen_ok = False
    if gen_ok:
        rule.ok(f.loc(), 'two-phase protocol: next() once, drained only in deep mode, else queued')
    else:
        fail('generator-protocol', None,
             'the generator returned by a two-phase constructor is resumed before the object is cached outside deep mode (or '
             'never queued): children that alias the container are constructed before it can be found in the cache')
    return rule


def r_generators_drained(ctx, repo):
    rule = ctx.rule('R-GENERATORS-DRAINED', 'construct_document drains state_generators (loop without break) before it resets the caches')
    f = repo.func('constructor.BaseConstructor.construct_document')
    cfg = CFG(f.node)
    loops = [n for n in cfg.nodes if n.kind == 'test' and isinstance(n.stmt, ast.While) and norm(n.ast) == 'self.state_generators'
             and not any(isinstance(x, ast.Break) for x in ast.walk(n.stmt))]
    resets = [n for n in cfg.nodes if n.kind == 'stmt' and isinstance(n.ast, ast.Assign)
              and any(norm(t) in ('self.constructed_objects', 'self.recursive_objects') for t in n.ast.targets)]
    rets = [n for n in cfg.nodes if n.kind == 'return']
    if not resets or not rets:
        raise AnalysisError('construct_document: resets/return not found')
    ok = bool(loops) and all(cfg.guarded(r, edges=[(l, False) for l in loops]) for r in resets + rets)
    # the loop body resumes every queued generator
    body_ok = bool(loops) and any(isinstance(x, ast.For) for x in ast.walk(loops[0].stmt))
    if ok and body_ok:
        rule.ok(f.loc(), 'pending generators run to completion before the document is returned')
    else:
        rule.fail('%s|drain' % f.qualname, f.module.rel, f.node.lineno, f.qualname, 'while self.state_generators',
                  'construct_document can return (or clear the object cache) while two-phase constructors are still pending: '
                  'containers are returned unfilled, or aliases inside them construct fresh objects')
    return rule


CHILD_CALLS = ('construct_object', 'construct_sequence', 'construct_mapping', 'construct_pairs')


def r_two_phase(ctx, repo):
    rule = ctx.rule('R-TWO-PHASE', 'every table constructor that builds a mutable container from child nodes is a generator whose first '
                                   'yield (of the empty container / bare instance) dominates all child construction; safe container '
                                   'constructors do not construct children in deep mode')
    rm = RR.model(repo)
    seen = set()
    safe_funcs = set(rm.heap.table(repo.cls('loader.SafeLoader'), 'yaml_constructors').values())
    n = 0
    for q in RR.SAFE_LOADERS + RR.FULL_LOADERS + ['loader.UnsafeLoader']:
        cls = repo.cls(q)
        for reg in ('yaml_constructors', 'yaml_multi_constructors'):
            for key, f in rm.heap.table(cls, reg).items():
                if f in seen:
                    continue
                seen.add(f)
                calls = [c for c in A.func_calls(f.node) if isinstance(c.func, ast.Attribute) and c.func.attr in CHILD_CALLS
                         and isinstance(c.func.value, ast.Name) and c.func.value.id == f.params[0]]
                if not calls:
                    continue
                n += 1
                if f.is_generator:
                    cfg = CFG(f.node)
                    ynodes = [x for x in cfg.nodes if x.ast is not None and any(isinstance(s, ast.Yield) for s in own_exprs(x))]
                    bad = []
                    for c in calls:
                        st = A.enclosing_stmt(c)
                        for cn in cfg.nodes_of(st) or _nodes_with(cfg, lambda x, c=c: x is c):
                            if not cfg.guarded(cn, nodes=ynodes):
                                bad.append(c)
                    if bad:
                        rule.fail('%s|yield-order' % f.qualname, f.module.rel, bad[0].lineno, f.qualname, norm(bad[0])[:80],
                                  '%s constructs children before it has yielded the (empty) container: a child that aliases '
                                  'the container cannot find it in the cache' % f.qualname)
                    else:
                        rule.ok(f.loc(), '%s yields before constructing children' % f.name)
                    if f in safe_funcs:
                        deep = [c for c in calls if any(k.arg == 'deep' and not (isinstance(k.value, ast.Constant)
                                                                                 and k.value.value is False) for k in c.keywords)
                                or (c.func.attr != 'construct_object' and len(c.args) >= 2) or
                                (c.func.attr == 'construct_object' and len(c.args) >= 2)]
                        if deep:
                            rule.fail('%s|deep' % f.qualname, f.module.rel, deep[0].lineno, f.qualname, norm(deep[0])[:80],
                                      '%s constructs its children in deep mode: a self-reference nested below this container '
                                      'is rejected as "unconstructable recursive node" instead of being built' % f.qualname)
                        else:
                            rule.ok(f.loc(), '%s constructs children lazily (no deep=True)' % f.name)
                else:
                    # non-generator: either everything is constructed eagerly (deep=True) or the result is an immutable tuple
                    all_deep = all(any(k.arg == 'deep' and isinstance(k.value, ast.Constant) and k.value.value is True
                                       for k in c.keywords) for c in calls)
                    rets = [r for r in walk_function(f.node) if isinstance(r, ast.Return) and r.value is not None]
                    tuple_only = bool(rets) and all(isinstance(r.value, ast.Call) and norm(r.value.func) == 'tuple' for r in rets)
                    delegating = bool(rets) and all(isinstance(r.value, ast.Call) and isinstance(r.value.func, ast.Attribute)
                                                    and r.value.func.attr in CHILD_CALLS for r in rets) and len(calls) == len(rets)
                    if all_deep or tuple_only:
                        rule.ok(f.loc(), '%s: %s' % (f.name, 'children constructed eagerly (deep=True)' if all_deep
                                                     else 'returns an immutable tuple of child references'))
                    elif delegating:
                        rule.ok(f.loc(), '%s delegates to a kind constructor' % f.name)
                    else:
                        rule.fail('%s|not-generator' % f.qualname, f.module.rel, f.node.lineno, f.qualname, 'def %s' % f.name,
                                  '%s builds a container from child nodes but is not a two-phase (generator) constructor and does '
                                  'not construct its children eagerly: recursive documents raise instead of being built, or '
                                  'children are still unfilled when they are used' % f.qualname)
    rule.require_min(8, 'container constructors')
    return rule


# ------------------------------------------------------------------------------------------------ C18

LAZY_API = {'scan': ('check_token', 'get_token'), 'parse': ('check_event', 'get_event'),
            'compose_all': ('check_node', 'get_node'), 'load_all': ('check_data', 'get_data')}
PASS_THROUGH = {'full_load_all': 'load_all', 'safe_load_all': 'load_all', 'unsafe_load_all': 'load_all'}


def r_api_generators(ctx, repo):
    rule = ctx.rule('R-API-GENERATORS', 'scan/parse/compose_all/load_all are generators that yield loader.get_X() inside `while '
                                        'loader.check_X()` inside try/finally dispose, with no draining construct; the *_load_all '
                                        'wrappers return load_all(...) unchanged')
    init = repo.modules['__init__']
    for name, (chk, get) in LAZY_API.items():
        f = init.functions.get(name)
        if f is None:
            raise AnalysisError('yaml.%s has vanished' % name)
        problems = []
        if not f.is_generator:
            problems.append('is not a generator function')
        yields = [n for n in walk_function(f.node) if isinstance(n, (ast.Yield, ast.YieldFrom))]
        for y in yields:
            if isinstance(y, ast.YieldFrom):
                problems.append('uses yield from')
                continue
            v = y.value
            if not (isinstance(v, ast.Call) and isinstance(v.func, ast.Attribute) and v.func.attr == get):
                problems.append('yields %s instead of loader.%s()' % (norm(v)[:30] if v is not None else None, get))
            # enclosing while loader.check_X()
            p = y
            in_while = in_try = False
            while p is not None and p is not f.node:
                p = getattr(p, '_parent', None)
                if isinstance(p, ast.While) and isinstance(p.test, ast.Call) and isinstance(p.test.func, ast.Attribute) \
                        and p.test.func.attr == chk:
                    in_while = True
                if isinstance(p, ast.Try) and p.finalbody and any(
                        isinstance(c.func, ast.Attribute) and c.func.attr == 'dispose' for c in A.calls_in(p.finalbody)):
                    in_try = True
                    if p.handlers:
                        problems.append('the try around the yield has except clauses')
            if not in_while:
                problems.append('the yield is not inside `while loader.%s()`' % chk)
            if not in_try:
                problems.append('the yield is not inside try/finally: dispose (abandoning the iterator would not release the loader)')
        for n in walk_function(f.node):
            if isinstance(n, (ast.ListComp, ast.SetComp, ast.DictComp, ast.GeneratorExp)):
                problems.append('contains a comprehension (draining construct)')
            if isinstance(n, ast.Call) and norm(n.func) in ('list', 'tuple', 'sorted', 'reversed', 'iter', 'len'):
                problems.append('calls %s() (draining construct)' % norm(n.func))
            if isinstance(n, ast.Call) and isinstance(n.func, ast.Attribute) and n.func.attr in ('append', 'extend', 'insert'):
                problems.append('collects into a container before yielding')
        if len(yields) != 1:
            problems.append('%d yield expressions' % len(yields))
        if problems:
            rule.fail('%s|%s' % (f.qualname, ';'.join(sorted(set(problems)))[:200]), f.module.rel, f.node.lineno, f.qualname,
                      'def %s' % name, 'yaml.%s %s' % (name, '; '.join(sorted(set(problems)))))
        else:
            rule.ok(f.loc(), 'yaml.%s yields item by item, dispose in finally' % name)
    for name, target in PASS_THROUGH.items():
        f = init.functions.get(name)
        if f is None:
            raise AnalysisError('yaml.%s has vanished' % name)
        body = [s for s in f.node.body if not (isinstance(s, ast.Expr) and isinstance(s.value, ast.Constant))]
        ok = len(body) == 1 and isinstance(body[0], ast.Return) and isinstance(body[0].value, ast.Call) \
            and norm(body[0].value.func) == target
        if ok:
            rule.ok(f.loc(), 'yaml.%s returns %s(...) unchanged' % (name, target))
        else:
            rule.fail('%s|wrapper' % f.qualname, f.module.rel, f.node.lineno, f.qualname, 'def %s' % name,
                      'yaml.%s no longer hands back the lazy iterator of %s unchanged' % (name, target))
    return rule


def r_bounded_read(ctx, repo):
    rule = ctx.rule('R-BOUNDED-READ', 'every stream.read() in the reader asks for a constant block size, refills happen only on demand '
                                      '(update -> update_raw inside `while len(buffer) < length`), and the C input handler passes '
                                      'libyaml\'s requested size through')
    R = repo.cls('reader.Reader')
    reads = 0
    for f in R.methods.values():
        for c in A.func_calls(f.node):
            if isinstance(c.func, ast.Attribute) and c.func.attr == 'read' and 'stream' in norm(c.func.value):
                reads += 1
                if len(c.args) != 1:
                    rule.fail('%s|read-unsized' % f.qualname, f.module.rel, c.lineno, f.qualname, norm(c),
                              'the stream is read without a size: the whole input is requested at once')
                    continue
                a = c.args[0]
                if isinstance(a, ast.Constant) and isinstance(a.value, int) and a.value > 0:
                    rule.ok(f.loc(c), 'read(%d)' % a.value)
                    continue
                if isinstance(a, ast.Name) and a.id in f.params:
                    # every call site passes / defaults a constant
                    d = f.defaults().get(a.id)
                    consts = set()
                    okp = isinstance(d, ast.Constant) and isinstance(d.value, int)
                    if okp:
                        consts.add(d.value)
                    # the parameter is not modified inside the function
                    if any(isinstance(n, (ast.Assign, ast.AugAssign)) and any(
                            isinstance(t, ast.Name) and t.id == a.id
                            for t in (n.targets if isinstance(n, ast.Assign) else [n.target])) for n in walk_function(f.node)):
                        okp = False
                    for g in repo.all_functions():
                        for cc in A.func_calls(g.node):
                            if isinstance(cc.func, ast.Attribute) and cc.func.attr == f.name:
                                args = list(cc.args) + [k.value for k in cc.keywords]
                                for x in args:
                                    if isinstance(x, ast.Constant) and isinstance(x.value, int):
                                        consts.add(x.value)
                                    else:
                                        okp = False
                    if okp:
                        rule.ok(f.loc(c), 'read(%s) with %s in %s at every call site' % (a.id, a.id, sorted(consts)))
                    else:
                        rule.fail('%s|read-size' % f.qualname, f.module.rel, c.lineno, f.qualname, norm(c),
                                  'the size passed to stream.read() is not a constant at every call site: the amount requested '
                                  'beyond a document is no longer bounded by a fixed number of refill blocks')
                    continue
                rule.fail('%s|read-size' % f.qualname, f.module.rel, c.lineno, f.qualname, norm(c),
                          'the size passed to stream.read() is computed, not a constant block size')
    if reads < 1:
        raise AnalysisError('no stream.read() call found in the reader')
    # update_raw is called only from update (inside while len(self.buffer) < length) and determine_encoding (inside its loop)
    for f in R.methods.values():
        for c in A.func_calls(f.node):
            if isinstance(c.func, ast.Attribute) and c.func.attr == 'update_raw':
                p = c
                in_loop = None
                while p is not None and p is not f.node:
                    p = getattr(p, '_parent', None)
                    if isinstance(p, ast.While):
                        in_loop = p
                        break
                t = norm(in_loop.test) if in_loop is not None else ''
                if f.name == 'update' and 'len(self.buffer) < length' in t:
                    rule.ok(f.loc(c), 'refill only while the buffer is shorter than requested')
                elif f.name == 'determine_encoding' and 'len(self.raw_buffer)' in t and 'self.eof' in t:
                    rule.ok(f.loc(c), 'encoding detection reads only until 2 bytes / eof')
                else:
                    rule.fail('%s|update_raw-site' % f.qualname, f.module.rel, c.lineno, f.qualname, norm(c),
                              'the stream is refilled outside the demand-driven loops (while len(buffer) < length / encoding '
                              'detection): input is pulled ahead of need')
    # update(): the amount requested is what the caller asked for (no drain loop `while not self.eof`)
    for f in R.methods.values():
        for n in walk_function(f.node):
            if isinstance(n, ast.While) and f.name != 'determine_encoding':
                t = norm(n.test)
                if 'eof' in t and 'len(' not in t:
                    rule.fail('%s|drain-loop' % f.qualname, f.module.rel, n.lineno, f.qualname, 'while %s' % t,
                              'a loop reads the stream until end of file')
    # pyx input handler: value = parser.stream.read(size)
    ih = repo.modules['_yaml'].functions.get('input_handler')
    if ih is None:
        raise AnalysisError('input_handler has vanished from the binding')
    rd = [c for c in A.func_calls(ih.node) if isinstance(c.func, ast.Attribute) and c.func.attr == 'read']
    if len(rd) == 1 and len(rd[0].args) == 1 and isinstance(rd[0].args[0], ast.Name) and rd[0].args[0].id == 'size' \
            and not any(isinstance(n, ast.Assign) and any(isinstance(t, ast.Name) and t.id == 'size' for t in n.targets)
                        and n.lineno < rd[0].lineno for n in walk_function(ih.node)):
        rule.ok(ih.loc(rd[0]), 'C input handler reads exactly the size libyaml asks for')
    else:
        rule.fail('%s|read' % ih.qualname, ih.module.rel, ih.node.lineno, ih.qualname, 'parser.stream.read(...)',
                  'the C input handler does not pass libyaml\'s requested size to stream.read()')
    return rule


def r_token_demand(ctx, repo):
    rule = ctx.rule('R-TOKEN-DEMAND', 'tokens are fetched only while need_more_tokens(), which is true only for an empty queue or a '
                                      'pending simple key; stale keys are expired by line and by a character-distance constant before '
                                      'every decision')
    S = repo.cls('scanner.Scanner')
    for name in ('check_token', 'peek_token', 'get_token'):
        f = S.methods.get(name)
        if f is None:
            raise AnalysisError('Scanner.%s has vanished' % name)
        bad = []
        found = 0
        for c in A.func_calls(f.node):
            if isinstance(c.func, ast.Attribute) and c.func.attr == 'fetch_more_tokens':
                found += 1
                p = getattr(A.enclosing_stmt(c), '_parent', None)
                if not (isinstance(p, ast.While) and norm(p.test) == 'self.need_more_tokens()'):
                    bad.append(c)
        for n in walk_function(f.node):
            if isinstance(n, ast.While) and norm(n.test) != 'self.need_more_tokens()':
                bad.append(n)
        if found == 1 and not bad:
            rule.ok(f.loc(), '%s fetches only while need_more_tokens()' % name)
        else:
            rule.fail('%s|fetch' % f.qualname, f.module.rel, f.node.lineno, f.qualname, 'fetch_more_tokens',
                      '%s fetches tokens outside `while self.need_more_tokens()`: the scanner runs ahead of the consumer' % name)
    f = S.methods.get('need_more_tokens')
    if f is None:
        raise AnalysisError('Scanner.need_more_tokens has vanished')
    cfg = CFG(f.node)
    rets_true = [n for n in cfg.nodes if n.kind == 'return' and isinstance(n.ast.value, ast.Constant) and n.ast.value.value is True]
    other = [n for n in cfg.nodes if n.kind == 'return' and not isinstance(n.ast.value, ast.Constant)]
    ok = bool(rets_true) and not other
    allowed_tests = ('not self.tokens', 'self.next_possible_simple_key() == self.tokens_taken')
    for rt in rets_true:
        par = getattr(rt.ast, '_parent', None)
        if not (isinstance(par, ast.If) and norm(par.test) in allowed_tests):
            ok = False
    stale = _nodes_with(cfg, _self_call('stale_possible_simple_keys'))
    key_tests = [n for n in cfg.nodes if n.kind == 'test' and 'next_possible_simple_key' in norm(n.ast)]
    if not key_tests or not stale or not all(cfg.guarded(k, nodes=stale) for k in key_tests):
        ok = False
    done = [n for n in cfg.nodes if n.kind == 'test' and norm(n.ast) == 'self.done']
    if not done:
        ok = False
    if ok:
        rule.ok(f.loc(), 'need_more_tokens: done -> False; empty queue or pending simple key (after expiry) -> True')
    else:
        rule.fail('%s|shape' % f.qualname, f.module.rel, f.node.lineno, f.qualname, 'def need_more_tokens',
                  'need_more_tokens can ask for more tokens for another reason than an empty queue or a pending simple key, or '
                  'decides before expiring stale keys: the look-ahead is no longer bounded')
    g = S.methods.get('stale_possible_simple_keys')
    if g is None:
        raise AnalysisError('Scanner.stale_possible_simple_keys has vanished')
    dels = [n for n in walk_function(g.node) if isinstance(n, ast.Delete)]
    okg = False
    bound = None
    for d in dels:
        p = d
        while p is not None and p is not g.node:
            p = getattr(p, '_parent', None)
            if isinstance(p, ast.If):
                t = p.test
                if isinstance(t, ast.BoolOp) and isinstance(t.op, ast.Or):
                    has_line = any(isinstance(v, ast.Compare) and 'line' in norm(v) and isinstance(v.ops[0], ast.NotEq) for v in t.values)
                    for v in t.values:
                        if isinstance(v, ast.Compare) and len(v.ops) == 1 and isinstance(v.ops[0], (ast.Gt, ast.GtE)) \
                                and isinstance(v.left, ast.BinOp) and isinstance(v.left.op, ast.Sub) and 'index' in norm(v.left) \
                                and isinstance(v.comparators[0], ast.Constant) and isinstance(v.comparators[0].value, int):
                            bound = v.comparators[0].value
                    if has_line and bound is not None:
                        okg = True
                break
    if okg:
        rule.ok(g.loc(), 'simple-key candidates expire on a new line or after %d characters' % bound)
        ctx.extra['simple_key_window'] = bound
    else:
        rule.fail('%s|window' % g.qualname, g.module.rel, g.node.lineno, g.qualname, 'stale_possible_simple_keys',
                  'a simple-key candidate is no longer expired both by line and by a character-distance constant: a pending key '
                  'keeps the scanner fetching tokens without bound')
    # fetch_more_tokens expires stale keys too, before dispatch
    h = S.methods.get('fetch_more_tokens')
    if h is None or not [c for c in A.func_calls(h.node) if _self_call('stale_possible_simple_keys')(c)]:
        rule.fail('scanner.Scanner.fetch_more_tokens|stale', S.module.rel, h.node.lineno if h else 0,
                  'scanner.Scanner.fetch_more_tokens', 'stale_possible_simple_keys()',
                  'fetch_more_tokens no longer expires stale simple-key candidates')
    else:
        rule.ok(h.loc(), 'fetch_more_tokens expires stale candidates')
    return rule


def r_event_demand(ctx, repo):
    rule = ctx.rule('R-EVENT-DEMAND', 'check_event/peek_event/get_event run the parser state at most once and only when no event is '
                                      'pending; parse_document_end looks at no token after consuming the document end marker')
    P = repo.cls('parser.Parser')
    for name in ('check_event', 'peek_event', 'get_event'):
        f = P.methods.get(name)
        if f is None:
            raise AnalysisError('Parser.%s has vanished' % name)
        cfg = CFG(f.node)
        steps = _nodes_with(cfg, lambda x: isinstance(x, ast.Call) and norm(x.func) == 'self.state')
        none_edges = []
        for n in cfg.nodes:
            if n.kind == 'test':
                t = norm(n.ast)
                if t == 'self.current_event is None':
                    none_edges.append((n, True))
                elif t == 'self.current_event is not None':
                    none_edges.append((n, False))
        ok = len(steps) == 1 and bool(none_edges)
        for sn in steps:
            # only when no event is pending, and not inside a cycle (one step per call)
            if not cfg.guarded(sn, edges=none_edges):
                ok = False
            if sn in cfg.reach([m for (m, lab) in cfg.succ[sn]]):
                ok = False
        if ok:
            rule.ok(f.loc(), '%s: one parser step, only when no event is pending' % name)
        else:
            rule.fail('%s|step' % f.qualname, f.module.rel, f.node.lineno, f.qualname, 'self.state()',
                      '%s advances the parser more than once per call or while an event is pending: events are produced '
                      'ahead of the consumer' % name)
    f = P.methods.get('parse_document_end')
    if f is None:
        raise AnalysisError('Parser.parse_document_end has vanished')
    cfg = CFG(f.node)
    gets = _nodes_with(cfg, _self_call('get_token'))
    looks = _nodes_with(cfg, lambda x: _self_call('check_token')(x) or _self_call('peek_token')(x) or _self_call('get_token')(x))
    bad = None
    for g in gets:
        after = cfg.reach([m for (m, lab) in cfg.succ[g]])
        for l in looks:
            if l in after:
                bad = l
    if bad is None:
        rule.ok(f.loc(), 'parse_document_end consumes at most the one document end marker and looks no further')
    else:
        rule.fail('%s|lookahead' % f.qualname, f.module.rel, bad.lineno, f.qualname, norm(bad.ast).split('\n')[0][:80],
                  'after consuming a document end marker parse_document_end inspects the following token before the DocumentEnd '
                  'event is delivered: the document is held back until input beyond its end has been scanned (an error there '
                  'is raised before the complete document is yielded)')
    # compose_document consumes exactly one DocumentStart .. DocumentEnd bracket
    C = repo.cls('composer.Composer')
    f = C.methods.get('compose_document')
    gets = [c for c in A.func_calls(f.node) if _self_call('get_event')(c)]
    comps = [c for c in A.func_calls(f.node) if _self_call('compose_node')(c)]
    loops = [n for n in walk_function(f.node) if isinstance(n, (ast.While, ast.For))]
    if len(gets) == 2 and len(comps) == 1 and not loops:
        rule.ok(f.loc(), 'compose_document: DocumentStart, one root node, DocumentEnd')
    else:
        rule.fail('%s|bracket' % f.qualname, f.module.rel, f.node.lineno, f.qualname, 'def compose_document',
                  'compose_document no longer consumes exactly one DocumentStart / root node / DocumentEnd bracket')
    return rule
