"""C19: failures of the caller's stream or callbacks pass through (handler inventory, stream API whitelist)."""
import ast

from . import astutil as A
from .srcmodel import AnalysisError, ClassInfo, FuncInfo, norm, walk_function
from .cfg import CFG, reaching_defs

SUPPLIED_METHODS = {'__reduce_ex__', '__reduce__', '__getstate__', '__setstate__', '__getnewargs__', '__getnewargs_ex__'}
STREAM_ATTRS_IN = {'read', 'name'}
STREAM_ATTRS_OUT = {'write', 'flush', 'encoding'}

# (function qualname, caught class) -> reason: the two enumerated exceptions of DESIGN C19
ENUMERATED = {
    ('representer.BaseRepresenter.represent_mapping', 'TypeError'):
        'documented fall-back to insertion order when keys are not comparable (C16); a TypeError from a user __lt__ is '
        'indistinguishable by design',
    ('constructor.FullConstructor.find_python_module', 'ImportError'):
        'unsafe=True branch only (Unsafe universes): a failed import of a document-named module is a ConstructorError by design',
    ('constructor.FullConstructor.find_python_name', 'ImportError'):
        'unsafe=True branch only (Unsafe universes): a failed import of a document-named module is a ConstructorError by design',
}


class NameGraph:
    """name-based may-call graph: self.m() may call every method named m in the package (sound over-approximation)."""

    def __init__(self, repo):
        self.repo = repo
        self.by_name = {}
        for f in repo.all_functions():
            self.by_name.setdefault(f.name, []).append(f)
        self.attr_values = {}      # attribute name -> list of assigned value expr (self.X = expr)
        for f in repo.all_functions():
            for n in walk_function(f.node):
                if isinstance(n, ast.Assign):
                    for t in n.targets:
                        if isinstance(t, ast.Attribute) and isinstance(t.value, ast.Name) and f.params \
                                and t.value.id == f.params[0]:
                            for v in A.local_values(f.node, n.value, f.params):
                                self.attr_values.setdefault(t.attr, []).append((f, v))
        self._supplied_cache = {}

    def direct_supplied(self, f, nodes=None):
        """caller-supplied call sites inside f (or inside the given statements)."""
        out = []
        body = nodes if nodes is not None else list(walk_function(f.node))
        if nodes is not None:
            body = [x for st in nodes for x in ast.walk(st)]
        locals_from_tables = set()
        for n in walk_function(f.node):
            if isinstance(n, ast.Assign) and isinstance(n.value, ast.Subscript) and 'yaml_' in norm(n.value.value):
                for t in n.targets:
                    if isinstance(t, ast.Name):
                        locals_from_tables.add(t.id)
            if isinstance(n, ast.Assign) and isinstance(n.value, ast.Attribute) and n.value.attr.startswith('construct_') \
                    and '__class__' in norm(n.value):
                for t in n.targets:
                    if isinstance(t, ast.Name):
                        locals_from_tables.add(t.id)
        api_params = set(f.params) if f.module.name == '__init__' and f.cls is None else set()
        for n in body:
            if isinstance(n, ast.Call):
                fn = n.func
                if isinstance(fn, ast.Attribute):
                    recv = norm(fn.value)
                    if recv.endswith('.stream') or recv == 'stream':
                        out.append((n, 'call of the caller\'s stream: %s' % norm(n)[:50]))
                    elif fn.attr in SUPPLIED_METHODS:
                        out.append((n, 'call of %s on caller data' % fn.attr))
                    elif isinstance(fn.value, ast.Subscript) and 'yaml_' in norm(fn.value.value):
                        out.append((n, 'dispatch to a registered constructor/representer'))
                elif isinstance(fn, ast.Name):
                    if fn.id in locals_from_tables:
                        out.append((n, 'dispatch to a registered constructor/representer'))
                    elif fn.id in ('sorted', 'min', 'max') and n.args:
                        out.append((n, '%s() over caller data (user __lt__)' % fn.id))
                    elif fn.id in ('cls',) or (fn.id in f.params[1:] and fn.id not in ('len', 'str')):
                        out.append((n, 'call of a caller-supplied object %s' % fn.id))
                    elif fn.id in ('__import__',):
                        out.append((n, 'import of a document-named module (runs module code)'))
                elif isinstance(fn, ast.Subscript) and 'yaml_' in norm(fn.value):
                    out.append((n, 'dispatch to a registered constructor/representer'))
                elif isinstance(fn, ast.Subscript) and 'dispatch_table' in norm(fn.value):
                    out.append((n, 'copyreg reducer'))
            elif isinstance(n, (ast.For, ast.comprehension)) and isinstance(n.iter, ast.Name) and n.iter.id in api_params:
                out.append((n, 'iteration over the caller\'s %s' % n.iter.id))
        return out

    def callees(self, f, nodes=None):
        out = set()
        body = [x for st in nodes for x in ast.walk(st)] if nodes is not None else list(walk_function(f.node))
        for n in body:
            if isinstance(n, ast.Call):
                fn = n.func
                if isinstance(fn, ast.Attribute):
                    if fn.attr in self.by_name:
                        out.update(self.by_name[fn.attr])
                    elif isinstance(fn.value, ast.Name) and f.params and fn.value.id == f.params[0]:
                        # self.attr(...) where attr holds a callable: follow bound-method assignments
                        for (g, v) in self.attr_values.get(fn.attr, []):
                            if isinstance(v, ast.Attribute) and v.attr in self.by_name:
                                out.update(self.by_name[v.attr])
                elif isinstance(fn, ast.Name):
                    r = self.repo.resolve_name(f.module, fn.id)
                    if r is not None and r.kind == 'func':
                        out.add(r.obj)
                    elif r is not None and r.kind == 'class':
                        found = self.repo.lookup(r.obj, '__init__')
                        if found and isinstance(found[1], FuncInfo):
                            out.add(found[1])
        return out

    def unknown_attr_calls(self, f, nodes=None):
        """self.X(...) where X is an instance attribute holding something that is not a package method/known stdlib."""
        out = []
        body = [x for st in nodes for x in ast.walk(st)] if nodes is not None else list(walk_function(f.node))
        for n in body:
            if isinstance(n, ast.Call) and isinstance(n.func, ast.Attribute) and isinstance(n.func.value, ast.Name) \
                    and f.params and n.func.value.id == f.params[0] and n.func.attr not in self.by_name:
                vals = self.attr_values.get(n.func.attr, [])
                for (g, v) in vals:
                    if isinstance(v, ast.Constant) and v.value is None:
                        continue
                    r = self.repo.resolve_expr(g.module, v)
                    if r is not None and r.kind == 'ext' and r.obj.split('.')[0] in ('codecs', 're', 'base64', 'binascii'):
                        continue
                    if isinstance(v, ast.Attribute) and v.attr in self.by_name:
                        continue
                    out.append((n, 'call of self.%s, which may hold a caller-supplied callable' % n.func.attr))
        return out

    def may_reach_supplied(self, f, nodes=None, _seen=None):
        """(reason, chain) if a caller-supplied call is reachable from f (or from the given statements of f)."""
        d = self.direct_supplied(f, nodes) + self.unknown_attr_calls(f, nodes)
        if d:
            return d[0][1], [f.qualname]
        seen = _seen if _seen is not None else set()
        for g in self.callees(f, nodes):
            if g in seen:
                continue
            seen.add(g)
            if g in self._supplied_cache and self._supplied_cache[g] is None:
                continue
            r = self.may_reach_supplied(g, None, seen)
            if nodes is None and _seen is None:
                pass
            if r is not None:
                return r[0], [f.qualname] + r[1]
        return None


def _enumerated_idiom(repo, f, t, h, short):
    """the two documented exceptions of C19, recognised by their shape wherever the code lives:
       (1) `try: X = sorted(...)  except TypeError: pass`  - fall-back to insertion order for incomparable keys (C16);
       (2) `try: __import__(name)  except ImportError: raise ConstructorError(...)` - the unsafe import branch."""
    body_calls = [x for s in t.body for x in ast.walk(s) if isinstance(x, ast.Call)]
    if short == ['TypeError'] and len(t.body) == 1 and len(body_calls) == 1 and norm(body_calls[0].func) == 'sorted' \
            and all(isinstance(s, ast.Pass) for s in h.body):
        return 'documented fall-back to insertion order when keys are not comparable (C16); a TypeError from a user ' \
               '__lt__ is indistinguishable by design'
    if short == ['ImportError'] and len(t.body) == 1 and len(body_calls) == 1 and norm(body_calls[0].func) == '__import__' \
            and h.body and isinstance(h.body[-1], ast.Raise) and h.body[-1].exc is not None:
        exc = h.body[-1].exc
        target = exc.func if isinstance(exc, ast.Call) else exc
        r = repo.resolve_expr(f.module, target)
        if r is not None and r.kind == 'class' and repo.is_yaml_error(r.obj):
            return 'unsafe=True branch only: a failing import of a document-named module is reported as ConstructorError by design'
    return None


def r_no_foreign_catch(ctx, repo):
    rule = ctx.rule('R-NO-FOREIGN-CATCH', 'no except clause in the package can intercept an exception that originates in caller-supplied '
                                          'code (stream methods, registered constructors/representers, reduction protocol, iteration '
                                          'over caller iterables) unless it re-raises it unchanged; no bare/Exception/BaseException handlers')
    g = NameGraph(repo)
    handlers = 0
    finals = 0
    for f in repo.all_functions():
        for t in walk_function(f.node):
            if not isinstance(t, ast.Try):
                continue
            if t.finalbody and not t.handlers:
                finals += 1
            for h in t.handlers:
                handlers += 1
                names = []
                if h.type is None:
                    names = ['<bare>']
                elif isinstance(h.type, ast.Tuple):
                    names = [norm(e) for e in h.type.elts]
                else:
                    names = [norm(h.type)]
                short = [n.split('.')[-1] for n in names]
                where = f.loc(h)
                if any(n in ('<bare>', 'Exception', 'BaseException') for n in short):
                    rule.fail('%s|broad|%s' % (f.qualname, ','.join(short)), f.module.rel, h.lineno, f.qualname,
                              'except %s' % ','.join(names),
                              'a handler that catches %s also catches whatever the caller\'s stream or callbacks raise'
                              % ','.join(short))
                    continue
                reraises = bool(h.body) and isinstance(h.body[-1], ast.Raise) and h.body[-1].exc is None \
                    and not any(isinstance(x, ast.Call) for s in h.body[:-1] for x in ast.walk(s))
                reach = g.may_reach_supplied(f, nodes=t.body)
                if reach is None:
                    rule.ok(where, 'except %s in %s: the try body reaches no caller-supplied code' % (','.join(short), f.name))
                    continue
                if reraises:
                    rule.ok(where, 'except %s in %s re-raises unchanged' % (','.join(short), f.name))
                    continue
                idiom = _enumerated_idiom(repo, f, t, h, short)
                if idiom is not None:
                    rule.ok(where, 'except %s in %s: enumerated exception (%s)' % (','.join(short), f.name, idiom[:60]))
                    ctx.assume('C19 exception: %s catches %s - %s' % (f.qualname, short[0], idiom))
                    continue
                rule.fail('%s|%s|%s' % (f.qualname, ','.join(short), reach[0][:60]), f.module.rel, h.lineno, f.qualname,
                          'except %s' % ','.join(names),
                          'the try body can run caller-supplied code (%s, via %s) and this handler does not re-raise unchanged: '
                          'a %s raised by the caller\'s stream/callback is swallowed or rewrapped'
                          % (reach[0], ' -> '.join(reach[1][:4]), '/'.join(short)))
    # module level: only the optional-extension import may be guarded
    for m in repo.modules.values():
        for n in ast.walk(m.tree):
            if isinstance(n, ast.Try) and isinstance(getattr(n, '_parent', None), ast.Module):
                for h in n.handlers:
                    handlers += 1
                    if norm(h.type) == 'ImportError' and all(isinstance(s, (ast.ImportFrom, ast.Import, ast.Assign)) for s in n.body):
                        rule.ok('%s:%d' % (m.rel, h.lineno), 'module-level except ImportError around the optional C extension import')
                    else:
                        rule.fail('%s|module-level|%s' % (m.name, norm(h.type)), m.rel, h.lineno, m.name, 'except %s' % norm(h.type),
                                  'module-level handler other than the optional-extension ImportError guard')
    rule.require_min(7, 'handlers')
    ctx.extra['handlers'] = handlers
    ctx.extra['finally_only_blocks'] = finals
    return rule


def r_append_only_stream(ctx, repo):
    rule = ctx.rule('R-APPEND-ONLY-STREAM', 'the only things the package touches on a caller-supplied stream are read/name (input) and '
                                            'write/flush/encoding (output); getvalue only on a stream the API function created itself')
    n = 0
    for f in repo.all_functions():
        for a in walk_function(f.node):
            if isinstance(a, ast.Attribute):
                base = norm(a.value)
                if base.endswith('.stream') or (base == 'stream' and 'stream' in f.params):
                    n += 1
                    allowed = STREAM_ATTRS_IN | STREAM_ATTRS_OUT
                    if a.attr in allowed:
                        rule.ok(f.loc(a), '%s.%s in %s' % (base, a.attr, f.name))
                    elif a.attr == 'getvalue' and f.module.name == '__init__':
                        # every definition of the name that reaches this use is `<name> = io.StringIO()/BytesIO()`: the
                        # value the parameter arrived with does not
                        ok = False
                        if isinstance(a.value, ast.Name):
                            cfg = CFG(f.node)
                            st = A.enclosing_stmt(a)
                            sites = cfg.nodes_of(st) or [x for x in cfg.nodes if x.stmt is st]
                            rd = reaching_defs(cfg, a.value.id, entry_def=True)
                            ds = set()
                            for x in sites:
                                ds |= rd.get(x, set())
                            ok = bool(sites) and bool(ds) and all(
                                d is not cfg.entry and isinstance(d.ast, ast.Assign) and isinstance(d.ast.value, ast.Call)
                                and norm(d.ast.value.func) in ('io.StringIO', 'io.BytesIO', 'StringIO', 'BytesIO') for d in ds)
                        if ok:
                            rule.ok(f.loc(a), 'getvalue of the stream created by %s itself' % f.name)
                        else:
                            rule.fail('%s|getvalue' % f.qualname, f.module.rel, a.lineno, f.qualname, norm(a),
                                      'getvalue() is taken from a stream that may be the caller\'s')
                    else:
                        rule.fail('%s|%s' % (f.qualname, a.attr), f.module.rel, a.lineno, f.qualname, norm(a),
                                  'the package uses %s of the caller\'s stream: output is no longer append-only / input is '
                                  'touched beyond read()' % a.attr)
            if isinstance(a, ast.Call) and norm(a.func) in ('getattr', 'hasattr') and a.args and norm(a.args[0]).endswith('stream'):
                if len(a.args) >= 2 and isinstance(a.args[1], ast.Constant) and a.args[1].value in (
                        STREAM_ATTRS_IN | STREAM_ATTRS_OUT):
                    n += 1
                    rule.ok(f.loc(a), '%s in %s' % (norm(a)[:40], f.name))
                else:
                    rule.fail('%s|%s' % (f.qualname, norm(a)[:40]), f.module.rel, a.lineno, f.qualname, norm(a)[:60],
                              'dynamic attribute access on the caller\'s stream')
    rule.require_min(25, 'stream attribute uses')
    return rule
