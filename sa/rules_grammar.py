"""R-PARSER-GRAMMAR: the parser's state machine accepts exactly the documented token grammar (bounded comparison).

The state methods of `Parser` are turned into a finite-control pushdown model by abstract interpretation of their ASTs
over *token kinds*: `check_token(K...)` branches on the kind of the next token (chosen lazily among the 20 kinds),
`get_token()` consumes it, `states.append` / `states.pop()` / `self.state = ...` drive the continuation stack; every
condition that depends on token *values* (tags, anchors, directives' contents) is treated as undetermined (both branches).
The set of complete token sequences of length <= N the model accepts is compared, in both directions, with the set of
sentences of length <= N of the grammar documented at the top of parser.py (transcribed in rules_sibling.GRAMMAR).

  model accepts, grammar does not  -> the parser emits events for an ungrammatical token sequence (C09)
  grammar derives, model rejects   -> the parser rejects a grammatical stream that LibYAML accepts (C06)

This is an analysis of the extracted model, not an execution of PyYAML: nothing is imported or run.
"""
import ast

from .srcmodel import AnalysisError, FuncInfo, norm

KINDS = ['StreamStartToken', 'StreamEndToken', 'DirectiveToken', 'DocumentStartToken', 'DocumentEndToken',
         'BlockSequenceStartToken', 'BlockMappingStartToken', 'BlockEndToken', 'FlowSequenceStartToken',
         'FlowMappingStartToken', 'FlowSequenceEndToken', 'FlowMappingEndToken', 'KeyToken', 'ValueToken',
         'BlockEntryToken', 'FlowEntryToken', 'AliasToken', 'AnchorToken', 'TagToken', 'ScalarToken']

UNKNOWN = object()


class Budget(Exception):
    pass


class St:
    """seq: tokens consumed; look: kind of the next token if already decided; state: next state method (or ('BASE', k): the
    k-th entry from the top of the stack as it was when the step began); stack: entries pushed during the step; pops: how
    many entries of the pre-existing stack were popped."""
    __slots__ = ('seq', 'look', 'state', 'stack', 'pops')

    def __init__(self, seq, look, state, stack, pops=0):
        self.seq, self.look, self.state, self.stack, self.pops = seq, look, state, stack, pops

    def key(self):
        return (self.seq, self.look, self.state, self.stack, self.pops)

    def with_(self, **kw):
        d = {'seq': self.seq, 'look': self.look, 'state': self.state, 'stack': self.stack, 'pops': self.pops}
        d.update(kw)
        return St(**d)


class ParserModel:
    def __init__(self, repo, cls, max_len, budget=3000000):
        self.repo = repo
        self.cls = cls
        self.max_len = max_len
        self.budget = budget
        self.methods = {}
        for k in cls.mro_classes():
            for name, f in k.methods.items():
                self.methods.setdefault(name, f)
        self.truncated = 0

    # ---- helpers ---------------------------------------------------------------------------------
    def tick(self):
        self.budget -= 1
        if self.budget < 0:
            raise Budget()

    def is_self_call(self, e, name=None):
        return isinstance(e, ast.Call) and isinstance(e.func, ast.Attribute) and isinstance(e.func.value, ast.Name) \
            and e.func.value.id == 'self' and (name is None or e.func.attr == name)

    def need_look(self, st):
        """alternatives with the kind of the next token decided."""
        if st.look is not None:
            return [st]
        return [st.with_(look=k) for k in KINDS]

    # ---- expressions: list of (value, st) --------------------------------------------------------
    def ev(self, e, st, env):
        out = self.ev_1(e, st, env)
        if len(out) > 1:
            seen = set()
            res = []
            for v, s in out:
                k = (self._vkey(v), s.key())
                if k not in seen:
                    seen.add(k)
                    res.append((v, s))
            return res
        return out

    def ev_1(self, e, st, env):
        self.tick()
        if isinstance(e, ast.Constant):
            return [(e.value, st)]
        if isinstance(e, ast.Name):
            return [(env.get(e.id, UNKNOWN), st)]
        if isinstance(e, ast.UnaryOp) and isinstance(e.op, ast.Not):
            return [((UNKNOWN if v is UNKNOWN else (not v)), s) for v, s in self.ev(e.operand, st, env)]
        if isinstance(e, ast.BoolOp):
            outs = [(None, st)]
            is_and = isinstance(e.op, ast.And)
            res = []
            work = [(0, st, False)]    # (index, state, saw_unknown)
            while work:
                i, s, unk = work.pop()
                if i == len(e.values):
                    res.append(((UNKNOWN if unk else is_and), s))
                    continue
                for v, s2 in self.ev(e.values[i], s, env):
                    if v is UNKNOWN:
                        # undetermined operand: may short-circuit or not
                        res.append((UNKNOWN, s2))
                        work.append((i + 1, s2, True))
                    elif bool(v) == is_and:
                        work.append((i + 1, s2, unk))
                    else:
                        res.append(((UNKNOWN if unk else (not is_and)), s2))
            return res
        if isinstance(e, ast.Compare) and len(e.ops) == 1 and isinstance(e.ops[0], (ast.Is, ast.IsNot, ast.Eq, ast.NotEq)):
            out = []
            for l, s1 in self.ev(e.left, st, env):
                for r, s2 in self.ev(e.comparators[0], s1, env):
                    if l is UNKNOWN or r is UNKNOWN or isinstance(l, tuple) or isinstance(r, tuple):
                        out.append((UNKNOWN, s2))
                    else:
                        eq = (l is r) if isinstance(e.ops[0], (ast.Is, ast.IsNot)) else (l == r)
                        out.append((eq if isinstance(e.ops[0], (ast.Is, ast.Eq)) else (not eq), s2))
            return out
        if self.is_self_call(e, 'check_token'):
            out = []
            kinds = []
            star = False
            for a in e.args:
                if isinstance(a, ast.Starred):
                    v = env.get(a.value.id, UNKNOWN) if isinstance(a.value, ast.Name) else UNKNOWN
                    if v is UNKNOWN or not isinstance(v, tuple):
                        star = True
                    else:
                        kinds += list(v)
                elif isinstance(a, ast.Name):
                    v = env.get(a.id)
                    kinds.append(v if isinstance(v, str) and v.endswith('Token') else a.id)
                else:
                    star = True
            for s in self.need_look(st):
                if star:
                    out.append((UNKNOWN, s))
                elif not e.args:
                    out.append((True, s))
                else:
                    out.append((s.look in kinds, s))
            return out
        if self.is_self_call(e, 'get_token'):
            out = []
            for s in self.need_look(st):
                if len(s.seq) >= self.max_len:
                    self.truncated += 1
                    continue
                out.append((UNKNOWN, s.with_(seq=s.seq + (s.look,), look=None)))
            return out
        if self.is_self_call(e, 'peek_token'):
            return [(UNKNOWN, s) for s in self.need_look(st)]
        if self.is_self_call(e) and e.func.attr in self.methods and isinstance(self.methods[e.func.attr], FuncInfo):
            return self.call(e.func.attr, e, st, env)
        if isinstance(e, ast.Call) and norm(e.func) == 'self.states.pop':
            if not st.stack:
                return [(('state', ('BASE', st.pops + 1)), st.with_(pops=st.pops + 1))]
            return [(('state', st.stack[-1]), st.with_(stack=st.stack[:-1]))]
        if isinstance(e, ast.Call) and norm(e.func) == 'self.states.append' and e.args:
            v = self.state_ref(e.args[0], env)
            if v is None:
                raise AnalysisError('parser model: states.append(%s) not understood' % norm(e.args[0]))
            return [(None, st.with_(stack=st.stack + (v,)))]
        if isinstance(e, ast.Attribute) and isinstance(e.value, ast.Name) and e.value.id == 'self' and e.attr in self.methods:
            return [(('state', e.attr), st)]
        if isinstance(e, ast.Tuple):
            # evaluate for effects, value: tuple of kinds if all are token class names
            states = [([], st)]
            for x in e.elts:
                nxt = []
                for vals, s in states:
                    for v, s2 in self.ev(x, s, env):
                        nxt.append((vals + [v], s2))
                states = nxt
            out = []
            for vals, s in states:
                if all(isinstance(x, ast.Name) and x.id.endswith('Token') for x in e.elts):
                    out.append((tuple(x.id for x in e.elts), s))
                else:
                    out.append((UNKNOWN, s))
            return out
        # any other expression: evaluate nested self-calls for their effects, value unknown
        states = [st]
        for sub in ast.iter_child_nodes(e):
            if isinstance(sub, ast.expr):
                nxt = []
                for s in states:
                    for v, s2 in self.ev(sub, s, env):
                        nxt.append(s2)
                states = nxt
            elif isinstance(sub, ast.keyword):
                nxt = []
                for s in states:
                    for v, s2 in self.ev(sub.value, s, env):
                        nxt.append(s2)
                states = nxt
        if isinstance(e, ast.Name) and e.id.endswith('Token'):
            return [(e.id, st)]
        return [(UNKNOWN, s) for s in states]

    def state_ref(self, e, env):
        if isinstance(e, ast.Attribute) and isinstance(e.value, ast.Name) and e.value.id == 'self' and e.attr in self.methods:
            return e.attr
        if isinstance(e, ast.Name):
            v = env.get(e.id)
            if isinstance(v, tuple) and len(v) == 2 and v[0] == 'state':
                return v[1]
        return None

    # ---- calls -------------------------------------------------------------------------------------
    def call(self, name, call, st, env, _depth=[0]):
        f = self.methods[name]
        params = f.params[1:]
        new = {}
        defaults = f.defaults()
        for p in params:
            d = defaults.get(p)
            if isinstance(d, ast.Constant):
                new[p] = d.value
            else:
                new[p] = UNKNOWN
        states = [(new, st)]
        if call is not None:
            for i, a in enumerate(call.args):
                nxt = []
                for ne, s in states:
                    for v, s2 in self.ev(a, s, env):
                        e2 = dict(ne)
                        if i < len(params):
                            e2[params[i]] = v
                        nxt.append((e2, s2))
                states = nxt
            for kw in call.keywords:
                nxt = []
                for ne, s in states:
                    for v, s2 in self.ev(kw.value, s, env):
                        e2 = dict(ne)
                        e2[kw.arg] = v
                        nxt.append((e2, s2))
                states = nxt
        out = []
        _depth[0] += 1
        if _depth[0] > 12:
            _depth[0] -= 1
            raise AnalysisError('parser model: call depth exceeded in %s' % name)
        try:
            for ne, s in states:
                for status, s2, _e, val in self.block(f.node.body, s, ne):
                    if status in ('next', 'return'):
                        out.append((val if status == 'return' else None, s2))
                    # 'raise': the path dies
        finally:
            _depth[0] -= 1
        seen = set()
        res = []
        for v, s2 in out:
            k = (self._vkey(v), s2.key())
            if k not in seen:
                seen.add(k)
                res.append((v, s2))
        return res

    # ---- statements: list of (status, st, value) -----------------------------------------------------
    def block(self, stmts, st, env):
        states = [(st, env)]
        results = []
        for stn in stmts:
            nxt = []
            for s, e in states:
                for status, s2, e2, val in self.stmt(stn, s, e):
                    if status == 'next':
                        nxt.append((s2, e2))
                    else:
                        results.append((status, s2, e2, val))
            states = self.dedupe(nxt)
            if not states:
                break
        for s, e in states:
            results.append(('next', s, e, None))
        return self.dedupe_results(results)

    @staticmethod
    def _vkey(v):
        if v is UNKNOWN:
            return 'U'
        try:
            hash(v)
            return v
        except TypeError:
            return id(v)

    def envkey(self, e):
        return tuple(sorted((k2, self._vkey(v)) for k2, v in e.items() if v is not UNKNOWN))

    def dedupe_results(self, results):
        """results: (status, st, env, val) or (status, st, val)"""
        seen = set()
        out = []
        for r in results:
            if len(r) == 4:
                k = (r[0], r[1].key(), self.envkey(r[2]), self._vkey(r[3]))
            else:
                k = (r[0], r[1].key(), self._vkey(r[2]))
            if k not in seen:
                seen.add(k)
                out.append(r)
        return out

    def dedupe(self, states):
        seen = set()
        out = []
        for s, e in states:
            k = (s.key(), tuple(sorted((k2, v if not isinstance(v, (list, dict)) else id(v)) for k2, v in e.items()
                                       if v is not UNKNOWN)))
            try:
                hash(k)
            except TypeError:
                out.append((s, e))
                continue
            if k not in seen:
                seen.add(k)
                out.append((s, e))
        return out

    def stmt(self, n, st, env):
        return self.dedupe_results(self.stmt_1(n, st, env))

    def stmt_1(self, n, st, env):
        self.tick()
        if isinstance(n, ast.If):
            out = []
            for v, s in self.ev(n.test, st, env):
                branches = [True, False] if v is UNKNOWN else [bool(v)]
                for b in branches:
                    for status, s2, e2, val in self.block(n.body if b else n.orelse, s, env):
                        out.append((status, s2, e2, val))
            return out
        if isinstance(n, ast.While):
            out = []
            work = [(st, 0)]
            seen = set()
            while work:
                s, it = work.pop()
                if (s.key(), it > 0) in seen:
                    continue
                seen.add((s.key(), it > 0))
                for v, s1 in self.ev(n.test, s, env):
                    branches = [True, False] if v is UNKNOWN else [bool(v)]
                    for b in branches:
                        if not b:
                            out.append(('next', s1, env, None))
                            continue
                        for status, s2, e2, val in self.block(n.body, s1, env):
                            if status in ('next', 'continue'):
                                if s2.key() != s.key():
                                    work.append((s2, it + 1))
                            elif status == 'break':
                                out.append(('next', s2, e2, None))
                            else:
                                out.append((status, s2, e2, val))
            return out
        if isinstance(n, ast.For):
            # loops over values (directive lists, choices): the body may run zero or one more time; token effects inside such
            # loops do not occur in the parser (checked: a get_token inside a for loop is refused)
            if any(self.is_self_call(x, 'get_token') for x in ast.walk(n)):
                raise AnalysisError('parser model: get_token inside a for loop')
            return [('next', st, env, None)]
        if isinstance(n, ast.Return):
            if n.value is None:
                return [('return', st, env, None)]
            return [('return', s, env, v) for v, s in self.ev(n.value, st, env)]
        if isinstance(n, ast.Raise):
            # evaluate nothing: the path ends in a ParserError
            return [('raise', st, env, None)]
        if isinstance(n, ast.Assert):
            return [('next', st, env, None)]
        if isinstance(n, (ast.Break, ast.Continue)):
            return [('break' if isinstance(n, ast.Break) else 'continue', st, env, None)]
        if isinstance(n, ast.Assign):
            out = []
            for v, s in self.ev(n.value, st, env):
                e2 = env
                s2 = s
                for t in n.targets:
                    if isinstance(t, ast.Name):
                        e2 = dict(e2)
                        e2[t.id] = v
                    elif isinstance(t, ast.Tuple):
                        e2 = dict(e2)
                        for x in t.elts:
                            if isinstance(x, ast.Name):
                                e2[x.id] = UNKNOWN
                    elif isinstance(t, ast.Attribute) and norm(t) == 'self.state':
                        if isinstance(v, tuple) and len(v) == 2 and v[0] == 'state':
                            s2 = s2.with_(state=v[1])
                        elif v is None:
                            s2 = s2.with_(state=None)
                        else:
                            raise AnalysisError('parser model: self.state = %s not understood' % norm(n.value))
                out.append(('next', s2, e2, None))
            return out
        if isinstance(n, ast.AugAssign):
            return [('next', s, env, None) for v, s in self.ev(n.value, st, env)]
        if isinstance(n, ast.Expr):
            return [('next', s, env, None) for v, s in self.ev(n.value, st, env)]
        if isinstance(n, ast.Pass):
            return [('next', st, env, None)]
        if isinstance(n, (ast.Delete, ast.Global)):
            return [('next', st, env, None)]
        raise AnalysisError('parser model: statement %s not supported (line %d)' % (type(n).__name__, n.lineno))

    # ---- exploration ----------------------------------------------------------------------------------
    def step(self, method, look):
        """summary of one parser step (one call of a state method) when the next token is of kind `look`:
        set of (consumed tokens, decided-but-unconsumed look, next state, pops of the old stack, pushed entries)."""
        key = (method, look)
        memo = self.__dict__.setdefault('_memo', {})
        if key in memo:
            return memo[key]
        if method not in self.methods:
            raise AnalysisError('parser model: state %s is not a method' % method)
        out = set()
        st0 = St((), look, method, (), 0)
        for v, s2 in self.call(method, None, st0, {}):
            out.add((s2.seq, s2.look, s2.state, s2.pops, s2.stack))
        memo[key] = out
        return out

    def accepted(self, start_state):
        """complete token sequences (the parser ends in state None) of length <= max_len."""
        init = ((), None, start_state, ())
        seen = {init}
        work = [init]
        accepted = set()
        while work:
            seq, look, state, stack = work.pop()
            if state is None:
                if look is None:
                    accepted.add(seq)
                continue
            if look is not None:
                looks = [look]
            elif not seq:
                looks = ['StreamStartToken']        # the scanner's first token
            elif seq[-1] == 'StreamEndToken':
                looks = []                          # nothing follows the end of the stream
            else:
                looks = [k for k in KINDS if k != 'StreamStartToken']
            for lk in looks:
                for (cons, look2, nstate, pops, pushed) in self.step(state, lk):
                    if len(seq) + len(cons) > self.max_len:
                        self.truncated += 1
                        continue
                    if pops > len(stack):
                        continue        # stack underflow: not a run of the parser (R-PARSER-STACK-DISCIPLINE reports imbalance)
                    base = stack[:len(stack) - pops]
                    popped = stack[len(stack) - pops:]
                    if isinstance(nstate, tuple) and nstate and nstate[0] == 'BASE':
                        nstate = popped[len(popped) - nstate[1]]
                    pushed2 = tuple(popped[len(popped) - x[1]] if isinstance(x, tuple) and x and x[0] == 'BASE' else x for x in pushed)
                    if cons == () and look2 is None and lk is not None:
                        look2 = lk
                    cfgk = (seq + cons, look2 if cons or look2 else lk, nstate, base + pushed2)
                    # the look-ahead decided at the beginning of the step stays decided if it was not consumed
                    if not cons:
                        cfgk = (seq, lk, nstate, base + pushed2)
                    if len(cfgk[3]) > self.max_len + 2:
                        continue
                    # a decided look-ahead for which the next state has no surviving path is a dead end
                    if cfgk[1] is not None and cfgk[2] is not None and not self.step(cfgk[2], cfgk[1]):
                        continue
                    if cfgk not in seen:
                        seen.add(cfgk)
                        work.append(cfgk)
        return accepted, len(seen)


# --------------------------------------------------------------------------------------------------
def grammar_language(grammar, token_class, start, max_len):
    """all sentences of length <= max_len (tuples of token class names): memoised top-down expansion.  The documented
    grammar is LL(1) without left recursion, so the recursion is well-founded once the length budget is threaded through."""
    memo = {}
    active = set()

    def lang(sym, n):
        if n < 0:
            return frozenset()
        if sym not in grammar:
            return frozenset({(token_class[sym],)}) if n >= 1 else frozenset()
        k = (sym, n)
        if k in memo:
            return memo[k]
        if k in active:
            raise AnalysisError('grammar transcription is left-recursive at %s' % sym)
        active.add(k)
        out = set()
        for alt in grammar[sym]:
            cur = {()}
            for s2, kind in alt:
                nxt = set()
                for a in cur:
                    room = n - len(a)
                    if kind in ('1', '?'):
                        if kind == '?':
                            nxt.add(a)
                        for b in lang(s2, room):
                            nxt.add(a + b)
                    else:
                        # * / + : repeat non-empty expansions while room is left
                        reps = {()} if kind == '*' else set()
                        frontier = {()}
                        first = True
                        while frontier:
                            new = set()
                            for r in frontier:
                                for b in lang(s2, room - len(r)):
                                    if b:
                                        c = r + b
                                        if c not in reps:
                                            new.add(c)
                            reps |= new
                            frontier = new
                        for r in reps:
                            nxt.add(a + r)
                cur = nxt
                if not cur:
                    break
            out |= cur
        active.discard(k)
        memo[k] = frozenset(out)
        return memo[k]
    return set(lang(start, max_len))


def r_parser_grammar(ctx, repo, max_len=7):
    from . import rules_sibling as RSB
    rule = ctx.rule('R-PARSER-GRAMMAR', 'the pushdown model extracted from the parser\'s state methods accepts exactly the token '
                                        'sequences (up to length %d) that the grammar documented in parser.py derives' % max_len)
    P = repo.cls('parser.Parser')
    init = P.methods.get('__init__')
    start = None
    if init is not None:
        for n in ast.walk(init.node):
            if isinstance(n, ast.Assign) and any(norm(t) == 'self.state' for t in n.targets) and isinstance(n.value, ast.Attribute):
                start = n.value.attr
    if start is None:
        raise AnalysisError('Parser.__init__: initial state not found')
    tc = dict(RSB.TOKEN_CLASS)
    grammar = dict(RSB.GRAMMAR)
    # The documented production block_mapping ::= ... ((KEY node?)? (VALUE node?)?)* ... would derive a VALUE without a KEY.
    # Neither this parser nor LibYAML's accepts that (both insist on KEY); the reference used here is the stricter form.
    grammar['block_mapping_entry'] = [[('block_mapping_key', '1'), ('block_mapping_value', '?')]]
    ctx.assume('documented grammar, block_mapping: a VALUE without KEY is derivable on paper but rejected by both parsers; '
               'the reference grammar requires KEY before VALUE in a block mapping')
    model = ParserModel(repo, P, max_len)
    try:
        acc, nconf = model.accepted(start)
    except Budget:
        raise AnalysisError('parser model: exploration budget exhausted')
    gl = grammar_language(grammar, tc, 'stream', max_len)
    ctx.extra['parser_grammar'] = {'max_len': max_len, 'model_configurations': nconf, 'accepted_sequences': len(acc),
                                   'grammar_sentences': len(gl)}
    if len(gl) < 50:
        raise AnalysisError('grammar transcription yields only %d sentences' % len(gl))
    short = {v: k for k, v in tc.items()}

    def show(seq):
        return ' '.join(short.get(t, t) for t in seq)
    extra = sorted(acc - gl, key=lambda s: (len(s), s))
    missing = sorted(gl - acc, key=lambda s: (len(s), s))
    for seqs, kind in ((extra, 'extra'), (missing, 'missing')):
        if not seqs:
            continue
        w = seqs[0]
        # blame: the state method whose behaviour differs is not known statically; report the parser class with witnesses
        if kind == 'extra':
            why = ('the parser accepts token sequences the documented grammar does not derive, e.g. "%s" (%d such sequences up to '
                   'length %d): events are produced for an ungrammatical token stream' % (show(w), len(seqs), max_len))
        else:
            why = ('the parser rejects token sequences the documented grammar derives, e.g. "%s" (%d such sequences up to length '
                   '%d): a stream that LibYAML parses is a ParserError here' % (show(w), len(seqs), max_len))
        rule.fail('parser-grammar|%s|%s' % (kind, show(w)), P.module.rel, P.node.lineno, P.qualname, 'class Parser', why, inp=show(w))
    if not extra and not missing:
        rule.ok('%s:%d' % (P.module.rel, P.node.lineno),
                'parser model and grammar agree on all %d sentences of length <= %d (%d model configurations)'
                % (len(gl), max_len, nconf))
    return rule
