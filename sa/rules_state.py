"""Per-document state rules (C11, C13, C19): R-DOC-RESET, R-DIRECTIVES-RESET, R-RESOLVER-BRACKET,
R-ONE-OBJECT-PER-CALL / R-FINALLY-ONLY."""
import ast

from . import astutil as A
from .cfg import CFG
from .srcmodel import AnalysisError, ClassInfo, FuncInfo, norm, walk_function

# (class, per-document entry function, names of the work calls the resets must follow)
DOC_ENTRIES = [
    ('composer.Composer', 'compose_document', ['compose_node']),
    ('constructor.BaseConstructor', 'construct_document', ['construct_object']),
    ('representer.BaseRepresenter', 'represent', ['represent_data', 'serialize']),
    ('serializer.Serializer', 'serialize', ['anchor_node', 'serialize_node']),
    ('_yaml.CParser', '_compose_document', ['_compose_node']),
    ('_yaml.CEmitter', 'serialize', ['_anchor_node', '_serialize_node']),
]


def _initial_like(v):
    if isinstance(v, (ast.Dict, ast.List, ast.Set)):
        return not (getattr(v, 'keys', None) or getattr(v, 'elts', None))
    if isinstance(v, ast.Constant):
        return v.value in (0, None, False) or v.value == -1
    if isinstance(v, ast.Call) and norm(v.func) in ('dict', 'list', 'set') and not v.args:
        return True
    return False


def _family(repo, K):
    fam = [K]
    for c in repo.classes.values():
        if c is not K and c.is_subclass_of(K) and c.module.name not in ('loader', 'dumper', 'cyaml'):
            fam.append(c)
    return fam


def _reachable_methods(repo, K, entry):
    fam = _family(repo, K)
    by_name = {}
    for c in fam:
        for f in c.methods.values():
            by_name.setdefault(f.name, []).append(f)
    seen = set()
    todo = [entry]
    while todo:
        f = todo.pop()
        if f in seen:
            continue
        seen.add(f)
        selfname = f.params[0] if f.params else 'self'
        indirect = False
        local_names = {n.id for n in walk_function(f.node) if isinstance(n, ast.Name) and isinstance(n.ctx, ast.Store)}
        for c in A.func_calls(f.node):
            if isinstance(c.func, ast.Attribute) and isinstance(c.func.value, ast.Name) and c.func.value.id == selfname:
                for g in by_name.get(c.func.attr, []):
                    todo.append(g)
            elif isinstance(c.func, ast.Attribute) and isinstance(c.func.value, ast.Call) \
                    and norm(c.func.value.func) == 'super':
                for g in by_name.get(c.func.attr, []):
                    todo.append(g)
            elif isinstance(c.func, ast.Name) and c.func.id in local_names:
                indirect = True
            elif isinstance(c.func, ast.Subscript):
                indirect = True
        if indirect:
            for fs in by_name.values():
                todo.extend(fs)
    return seen


def accumulators(repo, K, entry):
    init = K.methods.get('__init__')
    if init is None:
        raise AnalysisError('%s has no __init__' % K.qualname)
    selfname = init.params[0]
    fields = {}
    for n in walk_function(init.node):
        if isinstance(n, ast.Assign) and _initial_like(n.value):
            for t in n.targets:
                if A.is_attr(t, selfname):
                    fields[t.attr] = n.value
    reach = _reachable_methods(repo, K, entry)
    mutated = {}
    for f in reach:
        if f.name in ('__init__', 'dispose', '__dealloc__'):
            continue
        sn = f.params[0] if f.params else 'self'
        for m in A.find_mutations(f.node):
            root = m.root
            name = None
            if m.kind == 'rebind' or m.kind == 'augassign':
                t = m.receiver
                if A.is_attr(t, sn) and t.attr in fields:
                    if f is entry and isinstance(m.stmt, ast.Assign) and _initial_like(m.stmt.value):
                        continue     # that is the reset itself
                    name = t.attr
            elif A.is_attr(root, sn) and root.attr in fields:
                name = root.attr
            if name:
                mutated.setdefault(name, []).append((f, m))
    return fields, mutated


def r_doc_reset(ctx, repo, entries=None):
    rule = ctx.rule('R-DOC-RESET', 'every per-document accumulator (field initialised empty in __init__ and mutated by methods '
                                   'reachable from the per-document entry) is reset in the entry after the work calls on the '
                                   'normal path')
    total = 0
    for kq, ename, work in (entries or DOC_ENTRIES):
        K = repo.cls(kq)
        entry = K.methods.get(ename)
        if entry is None:
            raise AnalysisError('%s.%s has vanished' % (kq, ename))
        fields, mutated = accumulators(repo, K, entry)
        cfg = CFG(entry.node)
        sn = entry.params[0]
        work_nodes = []
        for n in cfg.nodes:
            if n.ast is None:
                continue
            from .cfg import own_exprs
            for sub in own_exprs(n):
                if isinstance(sub, ast.Call) and isinstance(sub.func, ast.Attribute) and sub.func.attr in work \
                        and isinstance(sub.func.value, ast.Name) and sub.func.value.id == sn:
                    work_nodes.append(n)
        if not work_nodes:
            raise AnalysisError('%s: none of the work calls %s found' % (entry.qualname, work))
        def helper_resets(name):
            """methods of the family whose every normal path assigns self.<name> an initial-like value."""
            out = set()
            for c in _family(repo, K):
                for h in c.methods.values():
                    if h is entry or h.name == '__init__':
                        continue
                    hs = h.params[0] if h.params else 'self'
                    hc = CFG(h.node)
                    rn = [x for x in hc.nodes if x.kind == 'stmt' and isinstance(x.ast, ast.Assign) and _initial_like(x.ast.value)
                          and any(A.is_attr(t, hs, name) for t in x.ast.targets)]
                    if rn:
                        r0 = hc.reach([hc.entry], blocked=rn, follow_exc=False)
                        if not any(x in r0 for x in hc.normal_exits()):
                            out.add(h.name)
            return out
        for name in sorted(mutated):
            total += 1
            resets = []
            helpers = helper_resets(name)
            for n in cfg.nodes:
                if n.ast is not None and helpers and n.kind in ('stmt',):
                    from .cfg import own_exprs as _oe
                    if any(isinstance(x, ast.Call) and isinstance(x.func, ast.Attribute) and x.func.attr in helpers
                           and isinstance(x.func.value, ast.Name) and x.func.value.id == sn for x in _oe(n)):
                        resets.append(n)
                st = n.ast
                if n.kind == 'stmt' and isinstance(st, ast.Assign) and _initial_like(st.value) \
                        and any(A.is_attr(t, sn, name) for t in st.targets):
                    resets.append(n)
                elif n.kind == 'test' and isinstance(n.stmt, ast.While) and A.is_attr(n.ast, sn, name) \
                        and not any(isinstance(x, ast.Break) for x in ast.walk(n.stmt)):
                    resets.append(n)      # `while self.F:` drains F: it is empty when the loop is left
            ok = bool(resets)
            for w in work_nodes:
                # every normal path from the work call to the exit passes through a reset
                starts = [m for (m, lab) in cfg.succ[w] if lab != 'exc']
                r = cfg.reach(starts, blocked=resets, follow_exc=False)
                if any(x in r for x in cfg.normal_exits()):
                    ok = False
            where = mutated[name][0]
            if ok:
                rule.ok(entry.loc(), '%s.%s (mutated in %s) is reset in %s after %s'
                        % (K.name, name, where[0].name, ename, '/'.join(work)))
            else:
                rule.fail('%s|%s' % (entry.qualname, name), entry.module.rel, entry.node.lineno, entry.qualname,
                          'self.%s' % name,
                          'per-document state %s.%s (initialised %s in __init__, mutated in %s line %d) is not reset in %s '
                          'after the document has been processed: the next document of the stream sees it'
                          % (K.name, name, norm(fields[name]), where[0].qualname, where[1].node.lineno, entry.qualname))
    rule.require_min(11 if entries is None else 2 * len(entries) - 1, 'per-document accumulators')
    return rule


def r_directives_reset(ctx, repo):
    rule = ctx.rule('R-DIRECTIVES-RESET', 'every DocumentStartEvent the parser builds is preceded on all paths by an assignment of '
                                          'tag_handles (and, for explicit documents, yaml_version) for this document')
    P = repo.cls('parser.Parser')
    # methods that (re)initialise the field unconditionally at their start
    def resets_field(f, field):
        cfg = CFG(f.node)
        sn = f.params[0]
        nodes = [n for n in cfg.nodes if n.kind == 'stmt' and isinstance(n.ast, ast.Assign)
                 and any(A.is_attr(t, sn, field) for t in n.ast.targets)]
        if not nodes:
            return False
        r = cfg.reach([cfg.entry], blocked=nodes, follow_exc=False)
        # no normal exit and no loop over directives reachable without passing an assignment
        return not any(x in r for x in cfg.normal_exits())
    seen = 0
    for f in P.methods.values():
        cfg = CFG(f.node)
        sn = f.params[0] if f.params else 'self'
        for n in cfg.nodes:
            if n.ast is None:
                continue
            from .cfg import own_exprs
            for sub in own_exprs(n):
                if isinstance(sub, ast.Call) and norm(sub.func) == 'DocumentStartEvent':
                    seen += 1
                    for field in ('tag_handles',):
                        blockers = []
                        for m in cfg.nodes:
                            if m.ast is None:
                                continue
                            if m.kind == 'stmt' and isinstance(m.ast, ast.Assign) and \
                                    any(A.is_attr(t, sn, field) for t in m.ast.targets):
                                blockers.append(m)
                            else:
                                for c in own_exprs(m):
                                    if isinstance(c, ast.Call) and isinstance(c.func, ast.Attribute) \
                                            and A.is_attr(c.func, sn) and c.func.attr in P.methods \
                                            and resets_field(P.methods[c.func.attr], field):
                                        blockers.append(m)
                        if blockers and cfg.guarded(n, nodes=blockers):
                            rule.ok(f.loc(sub), '%s set before DocumentStartEvent in %s' % (field, f.name))
                        else:
                            rule.fail('%s|%s' % (f.qualname, field), f.module.rel, sub.lineno, f.qualname, norm(sub)[:80],
                                      'a document start is produced on a path where self.%s still holds what the previous '
                                      'document left' % field)
    # process_directives itself: both fields are reset before the directive loop
    pd = P.methods.get('process_directives')
    if pd is None:
        raise AnalysisError('Parser.process_directives has vanished')
    cfg = CFG(pd.node)
    sn = pd.params[0]
    for field in ('yaml_version', 'tag_handles'):
        resets = [n for n in cfg.nodes if n.kind == 'stmt' and isinstance(n.ast, ast.Assign)
                  and any(A.is_attr(t, sn, field) for t in n.ast.targets) and _initial_like(n.ast.value)]
        uses = []
        from .cfg import own_exprs
        for n in cfg.nodes:
            if n.ast is None or n in resets:
                continue
            for sub in own_exprs(n):
                if isinstance(sub, ast.Attribute) and A.is_attr(sub, sn, field):
                    uses.append(n)
        bad = [n for n in uses if not cfg.guarded(n, nodes=resets)]
        r = cfg.reach([cfg.entry], blocked=resets, follow_exc=False)
        leaks = any(x in r for x in cfg.normal_exits())
        if resets and not bad and not leaks:
            rule.ok(pd.loc(), 'process_directives resets self.%s before every use and on every path' % field)
        else:
            rule.fail('%s|%s' % (pd.qualname, field), pd.module.rel, (bad[0].lineno if bad else pd.node.lineno), pd.qualname,
                      'self.%s' % field, 'process_directives can use or leave self.%s without resetting it first (some path '
                      'reaches %s before the reset): directives of the previous document stay in force'
                      % (field, 'a use' if bad else 'the return'))
    if seen < 2:
        raise AnalysisError('fewer than 2 DocumentStartEvent construction sites in the parser')
    return rule


def r_resolver_bracket(ctx, repo):
    rule = ctx.rule('R-RESOLVER-BRACKET', 'every descend_resolver call is matched by ascend_resolver on the normal path of the same function')
    n_sites = 0
    for f in repo.all_functions():
        calls = [c for c in A.func_calls(f.node) if isinstance(c.func, ast.Attribute) and c.func.attr == 'descend_resolver']
        if not calls or f.name == 'descend_resolver':
            continue
        cfg = CFG(f.node)
        asc = []
        from .cfg import own_exprs
        for n in cfg.nodes:
            if n.ast is None:
                continue
            for sub in own_exprs(n):
                if isinstance(sub, ast.Call) and isinstance(sub.func, ast.Attribute) and sub.func.attr == 'ascend_resolver':
                    asc.append(n)
        for c in calls:
            n_sites += 1
            st = A.enclosing_stmt(c)
            ok = bool(asc)
            for n in cfg.nodes_of(st):
                starts = [m for (m, lab) in cfg.succ[n] if lab != 'exc']
                r = cfg.reach(starts, blocked=asc, follow_exc=False)
                if any(x in r for x in cfg.normal_exits()):
                    ok = False
            if ok:
                rule.ok(f.loc(c), '%s: descend/ascend bracketed' % f.qualname)
            else:
                rule.fail('%s|descend' % f.qualname, f.module.rel, c.lineno, f.qualname, norm(c),
                          'a normal path leaves %s after descend_resolver without ascend_resolver: the path-resolver stack '
                          'grows and later nodes are resolved at the wrong depth' % f.qualname)
    rule.require_min(4, 'descend_resolver sites')
    return rule


API_LOADER_FUNCS = ['scan', 'parse', 'compose', 'compose_all', 'load', 'load_all']
API_DUMPER_FUNCS = ['emit', 'serialize_all', 'dump_all']


def r_one_object_per_call(ctx, repo):
    rule = ctx.rule('R-ONE-OBJECT-PER-CALL', 'each API entry point builds exactly one loader/dumper, locally, uses it inside try and '
                                             'disposes it in a finally block that has no except clause')
    init = repo.modules['__init__']
    for name in API_LOADER_FUNCS + API_DUMPER_FUNCS:
        f = init.functions.get(name)
        if f is None:
            raise AnalysisError('yaml.%s has vanished' % name)
        param = 'Loader' if name in API_LOADER_FUNCS else 'Dumper'
        inst = [c for c in A.func_calls(f.node) if isinstance(c.func, ast.Name) and c.func.id == param]
        problems = []
        local = None
        if len(inst) != 1:
            problems.append('%d instantiations of %s' % (len(inst), param))
        else:
            st = A.enclosing_stmt(inst[0])
            if isinstance(st, ast.Assign) and len(st.targets) == 1 and isinstance(st.targets[0], ast.Name):
                local = st.targets[0].id
            else:
                problems.append('the %s object is not bound to a local' % param)
        tries = [n for n in walk_function(f.node) if isinstance(n, ast.Try)]
        disposing = []
        for t in tries:
            for c in A.calls_in(t.finalbody):
                if isinstance(c.func, ast.Attribute) and c.func.attr == 'dispose' and \
                        isinstance(c.func.value, ast.Name) and c.func.value.id == local:
                    disposing.append(t)
        if local and not disposing:
            problems.append('no try/finally that calls %s.dispose()' % local)
        for t in tries:
            if t.handlers:
                problems.append('a try statement with except clauses (line %d)' % t.lineno)
        if local and disposing:
            t = disposing[0]
            # every use of the object other than its creation is inside the try body / finalbody
            for n in walk_function(f.node):
                if isinstance(n, ast.Name) and n.id == local and isinstance(n.ctx, ast.Load):
                    p = n
                    inside = False
                    while p is not None and p is not f.node:
                        if p is t:
                            inside = True
                        p = getattr(p, '_parent', None)
                    if not inside:
                        problems.append('%s used outside the try/finally (line %d)' % (local, n.lineno))
            # nothing between the creation and the try can raise with the object alive: the try follows directly
            body = f.node.body
            idx = [i for i, s in enumerate(body) if s is A.enclosing_stmt(inst[0])]
            if idx and (idx[0] + 1 >= len(body) or body[idx[0] + 1] is not t):
                problems.append('statements between the creation of %s and the try' % local)
        # module-level state: the function must not store the object anywhere else
        for n in walk_function(f.node):
            if isinstance(n, ast.Global):
                problems.append('global statement')
        if problems:
            rule.fail('%s|%s' % (f.qualname, ';'.join(problems)), f.module.rel, f.node.lineno, f.qualname,
                      'def %s' % name, 'yaml.%s: %s' % (name, '; '.join(problems)))
        else:
            rule.ok(f.loc(), 'yaml.%s: one %s, try/finally dispose, no except' % (name, param))
    # dispose methods cannot fail: no calls, no raise
    for c in repo.classes.values():
        d = c.methods.get('dispose')
        if d is None:
            continue
        bad = [n for n in walk_function(d.node) if isinstance(n, (ast.Call, ast.Raise, ast.Subscript, ast.Assert))]
        if bad:
            rule.fail('%s|body' % d.qualname, d.module.rel, bad[0].lineno, d.qualname, norm(bad[0])[:80],
                      '%s runs in the finally block of every API entry point and can itself raise (it %s): an exception '
                      'raised there replaces the caller\'s exception' % (d.qualname, 'calls ' + norm(bad[0])[:40]
                                                                          if isinstance(bad[0], ast.Call) else 'may fail'))
        else:
            rule.ok(d.loc(), '%s only assigns' % d.qualname)
    return rule
