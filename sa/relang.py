"""Regular-language analysis of the regex literals (DESIGN 3.7, C08).

`re._parser.parse` gives the regex AST; Thompson construction over an alphabet of code-point classes; subset
construction; inclusion / intersection / emptiness with shortest witnesses; first-character set; finite-language
enumeration; and the string operations the converters use (delete a character, lower-case image, left quotient,
prefix restriction, split on a separator, rstrip, substitute a character by a string).
"""
import re
import re._parser as sre_parse
import re._constants as C

from .srcmodel import AnalysisError

MAXCP = 0x110000


class Alphabet:
    """partition of [0, MAXCP) into atoms; every printable ASCII character is its own atom."""

    def __init__(self, extra_points=()):
        pts = {0, MAXCP}
        for c in range(0x20, 0x80):
            pts.add(c)
            pts.add(c + 1)
        for c in (0x9, 0xA, 0xD, 0x85, 0xA0, 0x2028, 0x2029):
            pts.add(c)
            pts.add(c + 1)
        pts.update(p for p in extra_points if 0 <= p <= MAXCP)
        self.points = sorted(pts)
        self.atoms = [(self.points[i], self.points[i + 1] - 1) for i in range(len(self.points) - 1)]
        self.n = len(self.atoms)
        self._index = {}

    def atoms_of(self, lo, hi):
        out = []
        for i, (a, b) in enumerate(self.atoms):
            if a >= lo and b <= hi:
                out.append(i)
            elif not (b < lo or a > hi):
                raise AnalysisError('alphabet does not align with interval %#x-%#x' % (lo, hi))
        return out

    def atom_of_char(self, ch):
        o = ord(ch)
        for i, (a, b) in enumerate(self.atoms):
            if a <= o <= b:
                return i
        raise AnalysisError('no atom for %r' % ch)

    def rep(self, i):
        a, b = self.atoms[i]
        return chr(a)

    def all(self):
        return set(range(self.n))


def collect_points(parsed, pts):
    for op, av in parsed:
        if op is C.LITERAL or op is C.NOT_LITERAL:
            pts.update((av, av + 1))
        elif op is C.IN:
            for o2, a2 in av:
                if o2 is C.LITERAL:
                    pts.update((a2, a2 + 1))
                elif o2 is C.RANGE:
                    pts.update((a2[0], a2[1] + 1))
                elif o2 is C.CATEGORY:
                    for lo, hi in category_intervals(a2):
                        pts.update((lo, hi + 1))
        elif op is C.BRANCH:
            for alt in av[1]:
                collect_points(alt, pts)
        elif op in (C.MAX_REPEAT, C.MIN_REPEAT):
            collect_points(av[2], pts)
        elif op is C.SUBPATTERN:
            collect_points(av[3], pts)
        elif op is C.CATEGORY:
            for lo, hi in category_intervals(av):
                pts.update((lo, hi + 1))


_CAT_CACHE = {}


def _intervals(pred):
    out = []
    lo = None
    for c in range(0x110000):
        if pred(chr(c)):
            if lo is None:
                lo = c
        elif lo is not None:
            out.append((lo, c - 1))
            lo = None
    if lo is not None:
        out.append((lo, 0x10ffff))
    return out


def category_intervals(cat):
    """code point intervals of a regex category on a str pattern (Unicode semantics, as `re` applies them without re.ASCII)."""
    if cat in _CAT_CACHE:
        return _CAT_CACHE[cat]
    preds = {
        C.CATEGORY_DIGIT: lambda ch: ch.isdecimal(),
        C.CATEGORY_NOT_DIGIT: lambda ch: not ch.isdecimal(),
        C.CATEGORY_SPACE: lambda ch: ch.isspace(),
        C.CATEGORY_NOT_SPACE: lambda ch: not ch.isspace(),
        C.CATEGORY_WORD: lambda ch: ch.isalnum() or ch == '_',
        C.CATEGORY_NOT_WORD: lambda ch: not (ch.isalnum() or ch == '_'),
    }
    if cat not in preds:
        raise AnalysisError('regex category %s not supported' % cat)
    r = _CAT_CACHE[cat] = _intervals(preds[cat])
    return r


class NFA:
    def __init__(self, alpha):
        self.alpha = alpha
        self.eps = []       # state -> set(states)
        self.tr = []        # state -> list of (atomset(frozenset), target)
        self.start = None
        self.accept = set()

    def new(self):
        self.eps.append(set())
        self.tr.append([])
        return len(self.eps) - 1

    def closure(self, states):
        seen = set(states)
        stack = list(states)
        while stack:
            s = stack.pop()
            for t in self.eps[s]:
                if t not in seen:
                    seen.add(t)
                    stack.append(t)
        return frozenset(seen)


def build_nfa(alpha, parsed, anchored=True, mode='fullmatch-anchored'):
    """NFA for a parsed pattern.  In the default mode the pattern must be anchored at both ends (^...$), which is what
    `match` against a `^(?:...)$` regex means for the whole string; `$` before a final newline is not modelled (the values
    never end in \\n when they come from a plain scalar; noted as an assumption).  With mode 'match' / 'search' / 'fullmatch'
    the language is that of the words the named `re` method accepts: a missing anchor leaves that end open (any text)
    where the method does not anchor it itself."""
    n = NFA(alpha)
    items = list(parsed)
    has_b = bool(items) and items[0][0] is C.AT and items[0][1] in (C.AT_BEGINNING, C.AT_BEGINNING_STRING)
    has_e = bool(items) and items[-1][0] is C.AT and items[-1][1] in (C.AT_END, C.AT_END_STRING)
    open_b = open_e = False
    if anchored:
        if mode == 'fullmatch-anchored':
            if not has_b:
                raise AnalysisError('regex is not anchored at the beginning')
            if not has_e:
                raise AnalysisError('regex is not anchored at the end')
        else:
            open_b = mode == 'search' and not has_b
            open_e = mode in ('match', 'search') and not has_e
        items = items[1 if has_b else 0:len(items) - 1 if has_e else len(items)]
    s = n.new()
    if open_b:
        n.tr[s].append((frozenset(alpha.all()), s))
    e = _seq(n, items, s)
    if open_e:
        t = n.new()
        n.eps[e].add(t)
        n.tr[t].append((frozenset(alpha.all()), t))
        e = t
    n.start = s
    n.accept = {e}
    return n


def _charset(alpha, op, av):
    if op is C.LITERAL:
        return frozenset(alpha.atoms_of(av, av))
    if op is C.NOT_LITERAL:
        return frozenset(alpha.all() - set(alpha.atoms_of(av, av)))
    if op is C.ANY:
        return frozenset(alpha.all() - set(alpha.atoms_of(10, 10)))
    if op is C.IN:
        neg = False
        out = set()
        for o2, a2 in av:
            if o2 is C.NEGATE:
                neg = True
            elif o2 is C.LITERAL:
                out.update(alpha.atoms_of(a2, a2))
            elif o2 is C.RANGE:
                out.update(alpha.atoms_of(a2[0], a2[1]))
            elif o2 is C.CATEGORY:
                for lo, hi in category_intervals(a2):
                    out.update(alpha.atoms_of(lo, hi))
            else:
                raise AnalysisError('regex set item %s not supported' % o2)
        return frozenset(alpha.all() - out) if neg else frozenset(out)
    raise AnalysisError('regex op %s is not a character set' % op)


def _seq(n, items, cur):
    for op, av in items:
        cur = _item(n, op, av, cur)
    return cur


def _item(n, op, av, cur):
    if op in (C.LITERAL, C.NOT_LITERAL, C.IN, C.ANY):
        t = n.new()
        n.tr[cur].append((_charset(n.alpha, op, av), t))
        return t
    if op is C.CATEGORY:
        t = n.new()
        n.tr[cur].append((_charset(n.alpha, C.IN, [(C.CATEGORY, av)]), t))
        return t
    if op is C.BRANCH:
        end = n.new()
        for alt in av[1]:
            s = n.new()
            n.eps[cur].add(s)
            e = _seq(n, list(alt), s)
            n.eps[e].add(end)
        return end
    if op is C.SUBPATTERN:
        group, add, dele, p = av
        if add or dele:
            raise AnalysisError('inline regex flags not supported')
        return _seq(n, list(p), cur)
    if op in (C.MAX_REPEAT, C.MIN_REPEAT):
        lo, hi, p = av
        p = list(p)
        for _ in range(lo):
            cur = _seq(n, p, cur)
        if hi is C.MAXREPEAT:
            s = n.new()
            n.eps[cur].add(s)
            e = _seq(n, p, s)
            n.eps[e].add(s)
            end = n.new()
            n.eps[s].add(end)
            return end
        end = n.new()
        n.eps[cur].add(end)
        for _ in range(hi - lo):
            cur = _seq(n, p, cur)
            n.eps[cur].add(end)
        return end
    if op is C.AT:
        raise AnalysisError('anchor inside the pattern is not supported')
    raise AnalysisError('regex construct %s is not supported by the language analysis' % op)


class DFA:
    """complete deterministic automaton over alpha.atoms; state 0.. ; `sink` may exist among states."""

    def __init__(self, alpha, trans, start, accept):
        self.alpha = alpha
        self.trans = trans       # list of lists: trans[s][atom] = t
        self.start = start
        self.accept = set(accept)

    @property
    def nstates(self):
        return len(self.trans)

    def live(self):
        """states from which an accepting state is reachable."""
        rev = [set() for _ in self.trans]
        for s, row in enumerate(self.trans):
            for t in row:
                rev[t].add(s)
        seen = set(self.accept)
        stack = list(self.accept)
        while stack:
            s = stack.pop()
            for p in rev[s]:
                if p not in seen:
                    seen.add(p)
                    stack.append(p)
        return seen

    def accepts(self, word):
        s = self.start
        for ch in word:
            s = self.trans[s][self.alpha.atom_of_char(ch)]
        return s in self.accept

    def is_empty(self):
        return self.start not in self.live()

    def nullable(self):
        return self.start in self.accept

    def first_atoms(self):
        live = self.live()
        return {a for a in range(self.alpha.n) if self.trans[self.start][a] in live}

    def first_chars(self):
        return {self.alpha.rep(a) for a in self.first_atoms()}

    def shortest(self):
        """a shortest accepted word, or None."""
        from collections import deque
        prev = {self.start: None}
        q = deque([self.start])
        while q:
            s = q.popleft()
            if s in self.accept:
                out = []
                while prev[s] is not None:
                    s, a = prev[s]
                    out.append(self.alpha.rep(a))
                return ''.join(reversed(out))
            for a, t in enumerate(self.trans[s]):
                if t not in prev:
                    prev[t] = (s, a)
                    q.append(t)
        return None

    def is_finite(self):
        live = self.live()
        # cycle among states that are reachable and live
        reach = self.reachable()
        good = reach & live
        color = {}

        def dfs(s):
            color[s] = 1
            for t in set(self.trans[s]):
                if t in good:
                    if color.get(t) == 1:
                        return False
                    if t not in color and not dfs(t):
                        return False
            color[s] = 2
            return True
        if self.start not in good:
            return True
        import sys
        sys.setrecursionlimit(10000)
        return dfs(self.start)

    def reachable(self):
        seen = {self.start}
        stack = [self.start]
        while stack:
            s = stack.pop()
            for t in self.trans[s]:
                if t not in seen:
                    seen.add(t)
                    stack.append(t)
        return seen

    def words(self, limit=10000):
        """all words of a finite language (one representative character per atom)."""
        live = self.live()
        out = []

        def go(s, acc):
            if len(out) > limit:
                raise AnalysisError('language too large to enumerate')
            if s in self.accept:
                out.append(''.join(acc))
            for a, t in enumerate(self.trans[s]):
                if t in live:
                    lo, hi = self.alpha.atoms[a]
                    if lo != hi:
                        raise AnalysisError('finite language with a multi-character class')
                    go(t, acc + [chr(lo)])
        go(self.start, [])
        return out

    def to_nfa(self):
        n = NFA(self.alpha)
        for _ in self.trans:
            n.new()
        for s, row in enumerate(self.trans):
            by_t = {}
            for a, t in enumerate(row):
                by_t.setdefault(t, set()).add(a)
            for t, atoms in by_t.items():
                n.tr[s].append((frozenset(atoms), t))
        n.start = self.start
        n.accept = set(self.accept)
        return n


def determinize(n, starts=None):
    alpha = n.alpha
    start = n.closure(starts if starts is not None else [n.start])
    index = {start: 0}
    order = [start]
    trans = []
    i = 0
    while i < len(order):
        S = order[i]
        row = [None] * alpha.n
        move = {}
        for s in S:
            for atoms, t in n.tr[s]:
                for a in atoms:
                    move.setdefault(a, set()).add(t)
        for a in range(alpha.n):
            T = n.closure(move.get(a, ())) if a in move else frozenset()
            if T not in index:
                index[T] = len(order)
                order.append(T)
            row[a] = index[T]
        trans.append(row)
        i += 1
        if len(order) > 20000:
            raise AnalysisError('automaton too large')
    accept = {index[S] for S in order if S & n.accept}
    return DFA(alpha, trans, 0, accept)


def _case_variants(c):
    ch = chr(c)
    out = {c}
    for v in (ch.lower(), ch.upper(), ch.swapcase()):
        if len(v) == 1:
            out.add(ord(v))
    return out


def _expand_ignorecase(items):
    """re.IGNORECASE made explicit: every literal / set member is replaced by the set of its simple case variants (what
    the re engine does for characters whose case mapping is one-to-one)."""
    out = []
    for op, av in items:
        if op is C.LITERAL:
            vs = sorted(_case_variants(av))
            out.append((C.IN, [(C.LITERAL, v) for v in vs]) if len(vs) > 1 else (op, av))
        elif op is C.NOT_LITERAL:
            vs = sorted(_case_variants(av))
            out.append((C.IN, [(C.NEGATE, None)] + [(C.LITERAL, v) for v in vs]))
        elif op is C.IN:
            new = []
            for o2, a2 in av:
                new.append((o2, a2))
                if o2 is C.LITERAL:
                    new += [(C.LITERAL, v) for v in sorted(_case_variants(a2) - {a2})]
                elif o2 is C.RANGE:
                    if a2[1] - a2[0] > 2048:
                        raise AnalysisError('case-insensitive range too large for the language analysis')
                    extra = set()
                    for c in range(a2[0], a2[1] + 1):
                        extra |= _case_variants(c)
                    new += [(C.LITERAL, v) for v in sorted(extra) if not (a2[0] <= v <= a2[1])]
            out.append((C.IN, new))
        elif op is C.BRANCH:
            out.append((op, (av[0], [_expand_ignorecase(list(alt)) for alt in av[1]])))
        elif op in (C.MAX_REPEAT, C.MIN_REPEAT):
            out.append((op, (av[0], av[1], _expand_ignorecase(list(av[2])))))
        elif op is C.SUBPATTERN:
            out.append((op, (av[0], av[1], av[2], _expand_ignorecase(list(av[3])))))
        else:
            out.append((op, av))
    return out


def _parse(pattern, flags=0):
    import re as _re
    parsed = sre_parse.parse(pattern, flags)
    items = list(parsed)
    if (flags | parsed.state.flags) & _re.IGNORECASE:
        items = _expand_ignorecase(items)
    return items


def compile_regex(alpha, pattern, flags=0, mode='fullmatch-anchored'):
    return determinize(build_nfa(alpha, _parse(pattern, flags), mode=mode))


def points_of(pattern, flags=0):
    pts = set()
    collect_points(_parse(pattern, flags), pts)
    return pts


def complement(d):
    return DFA(d.alpha, d.trans, d.start, set(range(d.nstates)) - d.accept)


def product(a, b, mode):
    """mode: 'and' / 'or' / 'diff'."""
    assert a.alpha is b.alpha
    index = {(a.start, b.start): 0}
    order = [(a.start, b.start)]
    trans = []
    i = 0
    while i < len(order):
        s, t = order[i]
        row = []
        for x in range(a.alpha.n):
            st = (a.trans[s][x], b.trans[t][x])
            if st not in index:
                index[st] = len(order)
                order.append(st)
            row.append(index[st])
        trans.append(row)
        i += 1
    acc = set()
    for (s, t), k in index.items():
        ina, inb = s in a.accept, t in b.accept
        if (mode == 'and' and ina and inb) or (mode == 'or' and (ina or inb)) or (mode == 'diff' and ina and not inb):
            acc.add(k)
    return DFA(a.alpha, trans, 0, acc)


def intersect(a, b):
    return product(a, b, 'and')


def union(a, b):
    return product(a, b, 'or')


def difference(a, b):
    return product(a, b, 'diff')


def included(a, b):
    """(True, None) or (False, shortest witness in a \\ b)."""
    d = difference(a, b)
    w = d.shortest()
    return (w is None), w


def empty_lang(alpha):
    return DFA(alpha, [[0] * alpha.n], 0, set())


def sigma_star(alpha):
    return DFA(alpha, [[0] * alpha.n], 0, {0})


def literal(alpha, word):
    trans = []
    n = len(word)
    sink = n + 1
    for i, ch in enumerate(word):
        row = [sink] * alpha.n
        row[alpha.atom_of_char(ch)] = i + 1
        trans.append(row)
    trans.append([sink] * alpha.n)
    trans.append([sink] * alpha.n)
    return DFA(alpha, trans, 0, {n})


def starts_with(alpha, word):
    return compile_regex(alpha, '^' + re.escape(word) + r'(?:.|\n)*$')


def contains(alpha, ch):
    return compile_regex(alpha, r'^(?:.|\n)*' + re.escape(ch) + r'(?:.|\n)*$')


def first_in(alpha, chars):
    return compile_regex(alpha, '^[' + ''.join(re.escape(c) for c in chars) + r'](?:.|\n)*$')


# ---- string operations -------------------------------------------------------------------------

def delete_char(d, ch):
    """image of L under deleting every occurrence of ch  (str.replace(ch, ''))."""
    a = d.alpha.atom_of_char(ch)
    lo, hi = d.alpha.atoms[a]
    if lo != hi:
        raise AnalysisError('%r is not its own alphabet atom' % ch)
    n = d.to_nfa()
    for s in range(len(n.tr)):
        new = []
        for atoms, t in n.tr[s]:
            if a in atoms:
                n.eps[s].add(t)
                atoms = atoms - {a}
            if atoms:
                new.append((atoms, t))
        n.tr[s] = new
    return determinize(n)


def map_chars(d, mapping):
    """image of L under a character-to-character homomorphism given as {char: char} (identity elsewhere)."""
    amap = {}
    for k, v in mapping.items():
        ak, av = d.alpha.atom_of_char(k), d.alpha.atom_of_char(v)
        amap[ak] = av
    n = d.to_nfa()
    for s in range(len(n.tr)):
        new = []
        for atoms, t in n.tr[s]:
            new.append((frozenset(amap.get(a, a) for a in atoms), t))
        n.tr[s] = new
    return determinize(n)


def lower(d):
    return map_chars(d, {chr(c): chr(c + 32) for c in range(ord('A'), ord('Z') + 1)})


def quotient_prefix(d, word):
    """{ w : word + w in L }  (value[len(word):] after value.startswith(word))."""
    s = d.start
    for ch in word:
        s = d.trans[s][d.alpha.atom_of_char(ch)]
    return DFA(d.alpha, d.trans, s, d.accept)


def drop_first(d, k=1):
    """{ w : c1..ck w in L for some characters }  (value[k:])."""
    n = d.to_nfa()
    starts = {d.start}
    for _ in range(k):
        nxt = set()
        for s in starts:
            nxt.update(d.trans[s])
        starts = nxt
    return determinize(n, starts=list(starts))


def take_first(d, k):
    """{ first min(k, len) characters of words of L }  (value[:k])."""
    n = NFA(d.alpha)
    # states (s, i) for i <= k
    idx = {}

    def st(s, i):
        if (s, i) not in idx:
            idx[(s, i)] = n.new()
        return idx[(s, i)]
    live = d.live()
    for s in range(d.nstates):
        for i in range(k + 1):
            st(s, i)
    for s in range(d.nstates):
        for i in range(k):
            by_t = {}
            for a, t in enumerate(d.trans[s]):
                by_t.setdefault(t, set()).add(a)
            for t, atoms in by_t.items():
                n.tr[st(s, i)].append((frozenset(atoms), st(t, i + 1)))
    n.start = st(d.start, 0)
    for s in range(d.nstates):
        for i in range(k):
            if s in d.accept:
                n.accept.add(st(s, i))
        if s in live:
            n.accept.add(st(s, k))
    return determinize(n)


def split_parts(d, ch):
    """language of the items of value.split(ch) for value in L."""
    a = d.alpha.atom_of_char(ch)
    live = d.live()
    reach = d.reachable()
    starts = {d.start} | {d.trans[s][a] for s in reach}
    starts = {s for s in starts if s in live}
    n = d.to_nfa()
    for s in range(len(n.tr)):
        n.tr[s] = [(atoms - {a}, t) for atoms, t in n.tr[s] if atoms - {a}]
    acc = set(d.accept) | {s for s in range(d.nstates) if d.trans[s][a] in live}
    n.accept = acc
    return determinize(n, starts=list(starts))


def rstrip_chars(d, chars):
    """{ w.rstrip(chars) : w in L }."""
    atoms = {d.alpha.atom_of_char(c) for c in chars}
    # states from which reading only `chars` reaches acceptance
    good = set(d.accept)
    changed = True
    while changed:
        changed = False
        for s in range(d.nstates):
            if s not in good and any(d.trans[s][a] in good for a in atoms):
                good.add(s)
                changed = True
    stripped = DFA(d.alpha, d.trans, d.start, good)
    # result must not end with one of chars
    cls = ''.join(re.escape(c) for c in chars)
    noend = compile_regex(d.alpha, r'^(?:(?:.|\n)*[^' + cls + r'])?$')
    return intersect(stripped, noend)


def substitute_once(d, ch, repl):
    """image under replacing `ch` by the string `repl`, valid when no word of L contains ch twice (checked)."""
    twice = compile_regex(d.alpha, r'^(?:.|\n)*' + re.escape(ch) + r'(?:.|\n)*' + re.escape(ch) + r'(?:.|\n)*$')
    if not intersect(d, twice).is_empty():
        raise AnalysisError('substitute_once: a word contains %r twice' % ch)
    a = d.alpha.atom_of_char(ch)
    n = d.to_nfa()
    for s in range(len(n.tr)):
        new = []
        for atoms, t in n.tr[s]:
            if a in atoms:
                cur = s
                for i, c in enumerate(repl):
                    nxt = t if i == len(repl) - 1 else n.new()
                    n.tr[cur].append((frozenset([d.alpha.atom_of_char(c)]), nxt)) if cur != s else new.append(
                        (frozenset([d.alpha.atom_of_char(c)]), nxt))
                    cur = nxt
                atoms = atoms - {a}
            if atoms:
                new.append((atoms, t))
        n.tr[s] = new
    return determinize(n)


# ---------------------------------------------------------------------------------------------------------------
# ambiguity of a pattern as a backtracking matcher sees it (catastrophic backtracking)

def exponential_ambiguity(alpha, pattern, flags=0):
    """None, or a short description, when the pattern has *exponential degree of ambiguity*: some sub-word can be matched by a
    loop of the pattern in two different ways, so a backtracking matcher (CPython's re) needs time exponential in the length
    of a non-matching input.  Decided on the Thompson automaton with path multiplicities kept:
      (1) two different epsilon-paths between the end of one character step and the beginning of the next inside a loop
          (nested quantifiers: (x+)+, (_*d+)+), or
      (2) a state from which the same word leads back to itself along two different state sequences ((a|aa)+)."""
    n = build_nfa(alpha, _parse(pattern, flags))
    N = len(n.eps)
    # (a) number of distinct epsilon paths p -> q (the epsilon graph of a Thompson construction is acyclic unless a nullable
    #     expression is starred, which is itself infinitely ambiguous)
    order, state, cyc = [], {}, []

    def dfs(s):
        state[s] = 1
        for t in n.eps[s]:
            if state.get(t) == 1:
                cyc.append((s, t))
            elif t not in state:
                dfs(t)
        state[s] = 2
        order.append(s)
    import sys
    sys.setrecursionlimit(max(10000, sys.getrecursionlimit()))
    for s in range(N):
        if s not in state:
            dfs(s)
    if cyc:
        return 'a nullable sub-expression is repeated (epsilon cycle): unboundedly many ways to match the empty word'
    cnt = [dict() for _ in range(N)]          # cnt[p][q] = number of epsilon paths p ->* q (incl. the empty path)
    for s in order:                           # reverse topological order: successors first
        c = {s: 1}
        for t in n.eps[s]:
            for q, k in cnt[t].items():
                c[q] = min(c.get(q, 0) + k, 4)
        cnt[s] = c
    # (b) epsilon-free weighted transitions between "anchor" states: the start state and the targets of character edges
    anchors = {n.start} | {t for s in range(N) for (atoms, t) in n.tr[s]}
    edges = {}                                # (p, q) -> {atom: multiplicity}
    for p in anchors:
        for mid, k in cnt[p].items():
            for (atoms, q) in n.tr[mid]:
                d = edges.setdefault((p, q), {})
                for a in atoms:
                    d[a] = min(d.get(a, 0) + k, 4)
    succ = {}
    for (p, q) in edges:
        succ.setdefault(p, set()).add(q)
    # useful states: reachable from the start, and able to reach acceptance
    reach = {n.start}
    stack = [n.start]
    while stack:
        s = stack.pop()
        for t in succ.get(s, ()):
            if t not in reach:
                reach.add(t)
                stack.append(t)
    accepting = {p for p in anchors if any(q in n.accept for q in cnt[p])}
    pred = {}
    for (p, q) in edges:
        pred.setdefault(q, set()).add(p)
    co = set(accepting)
    stack = list(accepting)
    while stack:
        s = stack.pop()
        for t in pred.get(s, ()):
            if t not in co:
                co.add(t)
                stack.append(t)
    useful = reach & co

    def reaches(a, b):
        seen = {a}
        st = [a]
        while st:
            s = st.pop()
            for t in succ.get(s, ()):
                if t == b:
                    return True
                if t not in seen and t in useful:
                    seen.add(t)
                    st.append(t)
        return False
    for (p, q), d in edges.items():
        if p in useful and q in useful and any(k >= 2 for k in d.values()) and (p == q or reaches(q, p)):
            a = next(a for a, k in d.items() if k >= 2)
            return 'inside a loop the step on %r can be taken in two different ways (nested / adjacent quantifiers over the ' \
                   'same characters)' % alpha.rep(a)
    # (c) product test: (p,p) ->* (x,y), x != y ->* (p,p) reading the same word on both components
    for p0 in useful:
        if not (p0 in succ and reaches(p0, p0)):
            continue
        start = (p0, p0)
        seen = {start}
        st = [start]
        off = set()
        while st:
            x, y = st.pop()
            for qx in succ.get(x, ()):
                if qx not in useful:
                    continue
                dx = edges[(x, qx)]
                for qy in succ.get(y, ()):
                    if qy not in useful:
                        continue
                    dy = edges[(y, qy)]
                    if not (set(dx) & set(dy)):
                        continue
                    nxt = (qx, qy)
                    if nxt not in seen:
                        seen.add(nxt)
                        st.append(nxt)
                        if qx != qy:
                            off.add(nxt)
        # does an off-diagonal pair lead back to (p0, p0)?
        for (x, y) in off:
            seen2 = {(x, y)}
            st2 = [(x, y)]
            while st2:
                a, b = st2.pop()
                for qa in succ.get(a, ()):
                    for qb in succ.get(b, ()):
                        if qa not in useful or qb not in useful or not (set(edges[(a, qa)]) & set(edges[(b, qb)])):
                            continue
                        if (qa, qb) == start:
                            return 'a loop of the pattern can read the same text along two different alternatives'
                        if (qa, qb) not in seen2:
                            seen2.add((qa, qb))
                            st2.append((qa, qb))
    return None
