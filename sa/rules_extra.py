"""Additional necessary-condition rules (round 4): each states a structural fact without which the property fails,
decided on the normalised AST / CFG (never on local names or frozen text).

  R-SIMPLE-KEY-FITS        C02/C05  emitter simple-key bound x worst-case escape expansion fits the scanner's key window
  R-BLOCK-HINT-LEADING     C02/C05  a block scalar starting with a space or any line break gets an indentation indicator
  R-ANALYZE-SPECIAL        C02/C15  the scalar analysis marks as special: BOM, non-printables, and (without allow_unicode) non-ASCII
  R-NONE-DEREF             C03      a parameter that receives the literal None is not dereferenced unguarded
  R-GETATTR-CHAIN          C04      find_python_name applies getattr to the module object only (no attribute-chain walking)
  R-EVENT-CACHE-RESET      C05      the per-event caches of the emitter are cleared on every exit of the process_* methods
  R-DOCMARKER-COLUMN0      C06/C09  '---' / '...' are recognised as document markers only at column 0
  R-DECODED-UNMODIFIED     C07      what the decoder returned is appended to the buffer unmodified
  R-MARK-FROM-POSITION     C09      get_mark builds a fresh Mark from the current index/line/column
  R-COW-ALL-PATHS          C10      every normal path through an add_* classmethod establishes ownership of the registry
  R-EMITTER-DOC-RESET      C11/C15  the emitter's tag-prefix table is rebuilt for every document
  R-DEEP-FORWARDED         C13      construct_sequence/mapping/pairs forward their `deep` argument to construct_object
  R-NEWOBJ-FORM            C17      the compact python/object: form is written only for __newobj__ reductions
  R-DICT-STATE-DIRECT      C17      dict state is applied with instance.__dict__.update (as pickle does), slots with setattr
  R-SINGLE-READ            C18      update_raw asks the stream exactly once per call
  R-DISPOSE-CHAIN          C18/C19  in every loader/dumper the resolved dispose() releases what each component's dispose releases
  R-NO-PROCESS-STATE       C19/C11  the package never changes interpreter-wide settings
"""
import ast

from . import astutil as A
from . import charworld as CW
from . import match as M
from .cfg import CFG, own_exprs, reaching_defs
from .srcmodel import AnalysisError, ClassInfo, FuncInfo, norm, walk_function


def _method(repo, clsq, name):
    c = repo.cls(clsq)
    f = c.methods.get(name)
    if f is None:
        found = repo.lookup(c, name)
        if found and isinstance(found[1], FuncInfo):
            return found[1]
        raise AnalysisError('%s.%s has vanished' % (clsq, name))
    return f


def _int_const(e):
    return e.value if isinstance(e, ast.Constant) and isinstance(e.value, int) and not isinstance(e.value, bool) else None


# --------------------------------------------------------------------------------------------- R-SIMPLE-KEY-FITS
def r_simple_key_fits(ctx, repo):
    rule = ctx.rule('R-SIMPLE-KEY-FITS', 'a key the emitter writes as a simple key stays inside the window in which the scanner still '
                                         'accepts a simple key: emitter bound x worst-case escape expansion + quotes <= scanner window')
    ck = _method(repo, 'emitter.Emitter', 'check_simple_key')
    # the bound: a comparison `<length expr> < K` / `<= K` in a returned / tested expression, where the left side is the
    # local that accumulates len(...) terms
    accum = set()
    for n in walk_function(ck.node):
        if isinstance(n, ast.AugAssign) and isinstance(n.op, ast.Add) and isinstance(n.target, ast.Name) \
                and isinstance(n.value, ast.Call) and norm(n.value.func) == 'len':
            accum.add(n.target.id)
    bound = None
    for n in walk_function(ck.node):
        if isinstance(n, ast.Compare) and len(n.ops) == 1 and isinstance(n.left, ast.Name) and n.left.id in accum:
            k = _int_const(n.comparators[0])
            if k is not None and isinstance(n.ops[0], ast.Lt):
                bound = k - 1
            elif k is not None and isinstance(n.ops[0], ast.LtE):
                bound = k
            elif k is not None and isinstance(n.ops[0], (ast.Gt, ast.GtE)):
                bound = k if isinstance(n.ops[0], ast.Gt) else k - 1
    if bound is None:
        raise AnalysisError('check_simple_key: length bound not found')
    # does the length counted for a scalar include the escapes?  (len of the raw scalar text does not)
    raw_len = any(isinstance(n, ast.AugAssign) and M.match(M.compile_pattern('len(self.analysis.scalar)')[1], n.value, {})
                  for n in walk_function(ck.node))
    # scanner window
    st = _method(repo, 'scanner.Scanner', 'stale_possible_simple_keys')
    window = _simple_key_window(st)
    if window is None:
        raise AnalysisError('stale_possible_simple_keys: window constant not found')
    # worst-case expansion of one character in a double-quoted scalar: longest numeric escape template
    wd = _method(repo, 'emitter.Emitter', 'write_double_quoted')
    from . import rules_emit as _RE
    widths = []
    for n, segs in _RE.formattings(wd.node):
        # a numeric escape: a literal starting with a backslash followed by one fixed-width hexadecimal field
        if len(segs) == 2 and segs[0][0] == 'lit' and segs[0][1].startswith('\\') and segs[1][0] == 'fmt':
            spec = segs[1][1]
            digits = ''.join(ch for ch in spec if ch.isdigit())
            if spec and spec[-1] in 'xX' and digits:
                widths.append(len(segs[0][1]) + int(digits))
    if not widths:
        raise AnalysisError('write_double_quoted: numeric escape templates not found')
    expansion = max(widths) if raw_len else 1
    worst = bound * expansion + 2
    if worst <= window:
        rule.ok(ck.loc(), 'simple key of at most %d characters, expansion x%d, fits the %d-character window' % (bound, expansion, window))
    else:
        # smallest key length that can fail
        n_fail = (window - 2) // expansion + 1
        rule.fail('simple-key-fits|bound=%d|expansion=%d|window=%d' % (bound, expansion, window), ck.module.rel, ck.node.lineno,
                  ck.qualname, 'length < %d' % (bound + 1),
                  'check_simple_key accepts keys of up to %d characters counted before escaping, but a character can take %d '
                  'characters in the double-quoted form, so a key of %d..%d characters that all need the long escape is written as '
                  'a one-line simple key of more than %d characters, which the scanner no longer accepts as a key '
                  '("mapping values are not allowed here"): safe_dump writes a document safe_load rejects'
                  % (bound, expansion, n_fail, bound, window), inp="{'\\U0001F600' * %d: 1}" % n_fail)
    return rule


def _simple_key_window(st):
    """the largest distance `self.index - <index of the key>` at which stale_possible_simple_keys still keeps a possible
    simple key.  Decided on the CFG, whatever the spelling of the staleness test (`if stale: discard`, a `continue` guard on
    the negation, nested ifs): an atomic test compares that distance with an integer constant; after one of its outcomes
    the key is always discarded (deleted from the table / the "could not find expected ':'" error) before the loop comes
    round or the function ends, after the other it can be kept.  The window is the largest distance with the keeping outcome."""
    import operator
    cfg = CFG(st.node)
    me = st.params[0] if st.params else 'self'

    def is_distance(e):
        return isinstance(e, ast.BinOp) and isinstance(e.op, ast.Sub) and isinstance(e.left, ast.Attribute) \
            and e.left.attr == 'index' and isinstance(e.left.value, ast.Name) and e.left.value.id == me
    # locals that only ever hold such a distance
    bound = {}
    for n in walk_function(st.node):
        if isinstance(n, ast.Name) and isinstance(n.ctx, ast.Store):
            p = getattr(n, '_parent', None)
            good = isinstance(p, ast.Assign) and len(p.targets) == 1 and p.targets[0] is n and is_distance(p.value)
            bound[n.id] = bound.get(n.id, True) and good
    aliases = {k for k, v in bound.items() if v}

    def discards(n):
        if n.kind == 'raise':
            return True
        if n.kind != 'stmt' or n.ast is None:
            return False
        if isinstance(n.ast, ast.Delete) and any(isinstance(t, ast.Subscript) for t in n.ast.targets):
            return True
        return any(isinstance(y, ast.Call) and isinstance(y.func, ast.Attribute) and y.func.attr == 'pop' for y in own_exprs(n))
    gone = [n for n in cfg.nodes if discards(n)]
    if not gone:
        return None
    ends = {n for n in cfg.nodes if n.kind in ('for', 'loophead')} | set(cfg.normal_exits())

    def can_keep(t, label):
        starts = [m for (m, lab) in cfg.succ[t] if lab is label]
        r = cfg.reach(starts, blocked=gone)
        return any(x in r for x in ends)
    ops = {ast.Lt: operator.lt, ast.LtE: operator.le, ast.Gt: operator.gt, ast.GtE: operator.ge}
    flip = {ast.Lt: ast.Gt, ast.LtE: ast.GtE, ast.Gt: ast.Lt, ast.GtE: ast.LtE}
    windows = []
    for t in cfg.nodes:
        c = t.ast
        if t.kind != 'test' or not isinstance(c, ast.Compare) or len(c.ops) != 1:
            continue
        l, r, op = c.left, c.comparators[0], type(c.ops[0])
        if _int_const(l) is not None:
            l, r, op = r, l, flip.get(op)
        k = _int_const(r)
        if k is None or op not in ops or not (is_distance(l) or (isinstance(l, ast.Name) and l.id in aliases)):
            continue
        keep_t, keep_f = can_keep(t, True), can_keep(t, False)
        if keep_t == keep_f:
            continue            # this test does not decide the fate of the key
        kept = [d for d in (k - 1, k, k + 1) if ops[op](d, k) is keep_t]
        if k - 1 in kept and k + 1 not in kept:
            windows.append(max(kept))
    return min(windows) if windows else None


# --------------------------------------------------------------------------------------------- R-BLOCK-HINT-LEADING
def r_block_hint_leading(ctx, repo):
    rule = ctx.rule('R-BLOCK-HINT-LEADING', 'determine_block_hints writes the explicit indentation indicator whenever the text starts '
                                            'with a space or with any of the line break characters')
    f = _method(repo, 'emitter.Emitter', 'determine_block_hints')
    text = f.params[1]
    # the test on text[0] that guards the indentation hint (a statement using best_indent)
    cand = None
    for n in walk_function(f.node):
        if isinstance(n, ast.If) and any(isinstance(x, ast.Attribute) and x.attr == 'best_indent' for s in n.body for x in ast.walk(s)):
            cand = n
    if cand is None:
        raise AnalysisError('determine_block_hints: indentation hint not found')
    first = ast.Subscript(value=ast.Name(id=text, ctx=ast.Load()), slice=ast.Constant(0), ctx=ast.Load())
    bad = []
    for c in ' \n\x85\u2028\u2029':
        # substitute text[0] by the constant and evaluate the whole guard (incl. enclosing ifs on the text)
        conds = [cand.test] + [iff.test for iff, br in A.guarding_ifs(cand, f.node) if br == 'body']

        def atom(node, c=c):
            if isinstance(node, ast.Name) and node.id == text:
                return True        # non-empty text
            v = CW.eval_cond(repo, _subst_expr(node, first, ast.Constant(c)), {})
            return v
        if not all(A.eval3(t, atom) is True for t in conds):
            bad.append(c)
    if bad:
        rule.fail('%s|leading|%s' % (f.qualname, ''.join('%04x' % ord(c) for c in bad)), f.module.rel, cand.lineno, f.qualname,
                  norm(cand.test)[:80],
                  'a literal / folded scalar whose first character is %s is written without an indentation indicator: the scanner '
                  'then takes the indentation of the first non-empty line, so leading spaces / empty lines are lost or the '
                  'document is rejected' % ', '.join(repr(c) for c in bad))
    else:
        rule.ok(f.loc(cand), 'indentation indicator for leading space and all 4 line breaks')
    return rule


def _subst_expr(node, what, by):
    """copy of expression `node` with sub-expressions structurally equal to `what` replaced by `by`."""
    wd = ast.dump(what)

    class T(ast.NodeTransformer):
        def generic_visit(self, n):
            if isinstance(n, ast.expr) and ast.dump(n).replace('ctx=Store()', 'ctx=Load()') == wd:
                return by
            return super().generic_visit(n)

        def visit(self, n):
            if isinstance(n, ast.expr) and ast.dump(n) == wd:
                return by
            return super().visit(n)
    import copy
    c = _plain_copy(node)
    return T().visit(c)


def _plain_copy(node):
    """deep copy of an AST without the parent links."""
    if isinstance(node, list):
        return [_plain_copy(x) for x in node]
    if not isinstance(node, ast.AST):
        return node
    new = node.__class__()
    for field, value in ast.iter_fields(node):
        setattr(new, field, _plain_copy(value))
    for a in ('lineno', 'col_offset', 'end_lineno', 'end_col_offset'):
        if hasattr(node, a):
            setattr(new, a, getattr(node, a))
    return new


# --------------------------------------------------------------------------------------------- R-ANALYZE-SPECIAL
def r_analyze_special(ctx, repo):
    """Per-character evaluation of analyze_scalar's classification: which characters set the flag that rules out every
    style but double-quoted."""
    rule = ctx.rule('R-ANALYZE-SPECIAL', 'analyze_scalar forces the double-quoted style for the byte order mark, for every character the '
                                         'reader refuses as non-printable, and - unless allow_unicode - for every non-ASCII character '
                                         '(including NEL, LS, PS)')
    f = _method(repo, 'emitter.Emitter', 'analyze_scalar')
    # loop, character variable(s) and flag(s) by role (shared with R-ASCII-RAW): a flag is a local the per-character loop sets
    # to True such that the code after the loop then allows the double-quoted style only
    from . import rules_opts as _RO
    loop, cvars, flag = _RO._scalar_analysis_parts(repo, f)
    flag = sorted(flag)
    chvar = sorted(cvars)[0]
    sets = []
    for n in ast.walk(loop):
        if isinstance(n, ast.Assign) and isinstance(n.value, ast.Constant) and n.value.value is True \
                and any(isinstance(t, ast.Name) and t.id in flag for t in n.targets):
            sets.append(n)
    if not sets:
        raise AnalysisError('analyze_scalar: no assignment of the special-character flag inside the character loop')

    text = f.params[1] if len(f.params) > 1 else None
    me = f.params[0] if f.params else 'self'

    def one_pass(allow_unicode):
        """the body of the per-character loop as one pass for the current character: the option is a constant and the
        statement that fetches the current character (ch = text[<index>]) is dropped, the character being given."""
        class T(ast.NodeTransformer):
            def visit_Attribute(self, node):
                if node.attr == 'allow_unicode' and isinstance(node.value, ast.Name) and node.value.id == me \
                        and isinstance(node.ctx, ast.Load):
                    return ast.Constant(allow_unicode)
                self.generic_visit(node)
                return node

            def visit_Assign(self, node):
                if len(node.targets) == 1 and isinstance(node.targets[0], ast.Name) and node.targets[0].id in cvars \
                        and isinstance(node.value, ast.Subscript) and isinstance(node.value.value, ast.Name) \
                        and node.value.value.id == text and isinstance(node.value.slice, ast.Name):
                    return ast.copy_location(ast.Pass(), node)
                self.generic_visit(node)
                return node
        return [ast.fix_missing_locations(T().visit(_plain_copy(s))) for s in loop.body]
    passes = {True: one_pass(True), False: one_pass(False)}

    def special(c, allow_unicode):
        """True / False / None: does every way through one pass of the loop for character c (somewhere in the text: position,
        neighbours and what was seen before are unknown) leave a double-quotes-only flag set?  The pass is interpreted
        statement by statement, so it does not matter whether the flag is set under the character tests themselves, through
        an intermediate local that holds the verdict, or in an if / elif chain."""
        it = CW.Interp(repo, None, '\uffff', '<none>', None)
        env = {v: CW.C(c) for v in cvars}
        env.update({fl: CW.C(False) for fl in flag})
        try:
            ends = it.run_block(passes[allow_unicode], CW.State(env), 0)
        except (CW.Budget, AnalysisError):
            return None
        ends = [(kind, st) for kind, val, st in ends if kind != 'raise']
        if not ends:
            return None
        verdicts = [any(CW.truth(st.env.get(fl, CW.UNK)) is True for fl in flag) for kind, st in ends]
        for fl in flag:
            if any(CW.truth(st.env.get(fl, CW.UNK)) is True for kind, st in ends):
                hits[fl] = hits.get(fl, 0) + 1
        if all(verdicts):
            return True
        return False if not any(verdicts) else None
    hits = {}
    if special('a', True) is not False or special('a', False) is not False:
        raise AnalysisError('analyze_scalar: a pass of the character loop for the letter "a" cannot be shown to leave the '
                            'double-quotes-only flags alone (the classification is not understood)')
    problems = []
    if special('\ufeff', True) is not True:
        problems.append(('\ufeff', 'the byte order mark U+FEFF is written raw with allow_unicode: at the start of the stream the '
                                   'scanner strips it, so the text does not read back'))
    for c in ('\x85', '\u2028', '\u2029', '\xe9', '\u4e00', '\U0001F600'):
        if special(c, False) is not True:
            problems.append((c, 'the non-ASCII character %r is not marked special when allow_unicode is off: it is written raw by '
                                'the single-quoted / block / plain writers although only printable ASCII was requested' % c))
            break
    for c in ('\x00', '\x07', '\x1b', '\x7f', '\ufffe', '\uffff'):
        if special(c, True) is not True:
            problems.append((c, 'the character %r, which the reader refuses as non-printable, is not marked special: it is '
                                'written raw and the document cannot be read back' % c))
            break
    # report at the flag that does the classifying (the one most probe characters raise), not at a flag for combinations
    main = max(flag, key=lambda fl: (hits.get(fl, 0), fl))
    sets = [s for s in sets if any(isinstance(t, ast.Name) and t.id == main for t in s.targets)] or sets
    if problems:
        for c, why in problems:
            rule.fail('%s|special|%04x' % (f.qualname, ord(c)), f.module.rel, sets[0].lineno, f.qualname,
                      '%s = True' % main, why)
    else:
        rule.ok(f.loc(sets[0]), 'BOM, controls and (without allow_unicode) non-ASCII force double quotes (%d probe characters)' % 14)
    return rule


# --------------------------------------------------------------------------------------------- R-NONE-DEREF
def r_none_deref(ctx, repo, modules=('composer', 'parser', 'scanner', 'reader')):
    """a parameter bound to the literal None at some call site must not be dereferenced without a None test."""
    rule = ctx.rule('R-NONE-DEREF', 'a parameter that some call site binds to the literal None is never dereferenced (attribute / '
                                    'subscript / call) outside the protection of an `is None` / truthiness test')
    funcs = [f for f in repo.all_functions(list(modules))]
    by_name = {}
    for f in funcs:
        by_name.setdefault(f.name, []).append(f)
    none_params = {}     # FuncInfo -> set(param)
    for f in funcs:
        for c in A.func_calls(f.node):
            nm = c.func.attr if isinstance(c.func, ast.Attribute) else c.func.id if isinstance(c.func, ast.Name) else None
            if nm is None or nm not in by_name:
                continue
            for g in by_name[nm]:
                shift = 1 if (isinstance(c.func, ast.Attribute) and g.cls is not None) else 0
                for i, a in enumerate(c.args):
                    if isinstance(a, ast.Constant) and a.value is None and i + shift < len(g.params):
                        none_params.setdefault(g, set()).add(g.params[i + shift])
                for kw in c.keywords:
                    if isinstance(kw.value, ast.Constant) and kw.value.value is None and kw.arg in g.params:
                        none_params.setdefault(g, set()).add(kw.arg)
    n = 0
    for g, ps in sorted(none_params.items(), key=lambda kv: kv[0].qualname):
        cfg = None
        for p in sorted(ps):
            derefs = []
            for x in walk_function(g.node):
                if isinstance(x, (ast.Attribute, ast.Subscript)) and isinstance(x.value, ast.Name) and x.value.id == p \
                        and isinstance(x.ctx, ast.Load):
                    derefs.append(x)
                elif isinstance(x, ast.Call) and isinstance(x.func, ast.Name) and x.func.id == p:
                    derefs.append(x)
            stored = any(isinstance(x, ast.Name) and x.id == p and isinstance(x.ctx, ast.Store) for x in walk_function(g.node))
            if not derefs:
                n += 1
                rule.ok(g.loc(), '%s(%s=None possible): never dereferenced' % (g.name, p))
                continue
            if stored:
                n += 1
                rule.ok(g.loc(), '%s(%s): rebound before use' % (g.name, p))
                continue
            if cfg is None:
                cfg = CFG(g.node)
            edges = []
            for t in cfg.nodes:
                if t.kind != 'test':
                    continue
                tt = t.ast
                if isinstance(tt, ast.Compare) and len(tt.ops) == 1 and isinstance(tt.left, ast.Name) and tt.left.id == p \
                        and isinstance(tt.comparators[0], ast.Constant) and tt.comparators[0].value is None:
                    if isinstance(tt.ops[0], (ast.IsNot, ast.NotEq)):
                        edges.append((t, True))
                    elif isinstance(tt.ops[0], (ast.Is, ast.Eq)):
                        edges.append((t, False))
                elif isinstance(tt, ast.Name) and tt.id == p:
                    edges.append((t, True))
                elif isinstance(tt, ast.Call) and norm(tt.func) == 'isinstance' and tt.args and isinstance(tt.args[0], ast.Name) \
                        and tt.args[0].id == p:
                    edges.append((t, True))
            for d in derefs:
                n += 1
                stn = A.enclosing_stmt(d)
                nodes = cfg.nodes_of(stn) or [x for x in cfg.nodes if x.ast is not None and any(y is d for y in own_exprs(x))]
                if nodes and edges and all(cfg.guarded(x, edges=edges) for x in nodes):
                    rule.ok(g.loc(d), '%s guarded by a None test' % norm(d))
                else:
                    rule.fail('%s|none-deref|%s' % (g.qualname, A.anon_text(d, g.node, 60)), g.module.rel, d.lineno, g.qualname,
                              norm(d)[:80], '%s is bound to None by a caller (e.g. for the document root) and is dereferenced here '
                              'without a None test: AttributeError/TypeError instead of a YAML error' % p)
    rule.require_min(1, 'None-bound parameters')
    return rule


# --------------------------------------------------------------------------------------------- R-GETATTR-CHAIN
def r_getattr_chain(ctx, repo):
    rule = ctx.rule('R-GETATTR-CHAIN', 'find_python_name looks a single attribute up on the module object taken from sys.modules; it '
                                       'does not walk attribute chains (getattr on a getattr result runs descriptors of classes)')
    f = _method(repo, 'constructor.FullConstructor', 'find_python_name')
    gets = [c for c in A.func_calls(f.node) if isinstance(c.func, ast.Name) and c.func.id in ('getattr', 'hasattr') and c.args]
    if not gets:
        rule.fail('%s|no-getattr' % f.qualname, f.module.rel, f.node.lineno, f.qualname, 'getattr(module, object_name)',
                  'find_python_name no longer obtains the object with getattr(module, name): names that a module provides through '
                  'its attribute protocol (module-level __getattr__, lazily exported classes) cannot be found, so objects whose '
                  'class lives in such a module do not load, although pickle finds them')
        return rule
    cfg = CFG(f.node)
    for c in gets:
        recv = c.args[0]
        ok = False
        why = ''
        if isinstance(recv, ast.Name):
            # every definition of the receiver reaching the call is `sys.modules[...]`
            stn = A.enclosing_stmt(c)
            nodes = cfg.nodes_of(stn) or [x for x in cfg.nodes if x.ast is not None and any(y is c for y in own_exprs(x))]
            rd = reaching_defs(cfg, recv.id)
            defs = set()
            for n in nodes:
                defs |= rd.get(n, set())
            vals = []
            for d in defs:
                if isinstance(d.ast, ast.Assign):
                    vals.append(d.ast.value)
                else:
                    vals.append(None)
            ok = bool(vals) and all(v is not None and isinstance(v, ast.Subscript) and norm(v.value) == 'sys.modules' for v in vals)
            if not ok:
                why = 'its receiver %s can be %s' % (recv.id, ', '.join(sorted({norm(v)[:40] if v is not None else 'a loop variable'
                                                                             for v in vals})) or 'undefined')
        elif isinstance(recv, ast.Subscript) and norm(recv.value) == 'sys.modules':
            ok = True
        else:
            why = 'its receiver is %s' % norm(recv)[:50]
        in_loop = any(isinstance(p, (ast.For, ast.While)) for p in _parents(c, f.node))
        if ok and not in_loop:
            rule.ok(f.loc(c), '%s on the module object' % norm(c.func))
        else:
            rule.fail('%s|getattr-chain|%s' % (f.qualname, A.anon_text(c, f.node, 50)), f.module.rel, c.lineno, f.qualname, norm(c)[:80],
                      '%s is applied to something else than the module taken from sys.modules (%s%s): looking names up through '
                      'classes runs class-level descriptors (properties, lazy singletons) chosen by the document'
                      % (norm(c.func), why, '; inside a loop' if in_loop else ''))
    return rule


def _parents(n, stop):
    p = getattr(n, '_parent', None)
    while p is not None and p is not stop:
        yield p
        p = getattr(p, '_parent', None)


# --------------------------------------------------------------------------------------------- R-EVENT-CACHE-RESET
def r_event_cache_reset(ctx, repo):
    """the emitter caches prepared_anchor / prepared_tag / analysis / style per event; whichever process_* method is the
    last user must leave the cache empty on every exit, or the next event is written with this event's value."""
    rule = ctx.rule('R-EVENT-CACHE-RESET', 'every normal exit of a process_* method of the emitter leaves the per-event caches it '
                                           'uses (prepared_anchor, prepared_tag, analysis, style) reset to None')
    E = repo.cls('emitter.Emitter')
    init = E.methods.get('__init__')
    if init is None:
        raise AnalysisError('Emitter.__init__ has vanished')
    none_fields = set()
    for n in walk_function(init.node):
        if isinstance(n, ast.Assign) and isinstance(n.value, ast.Constant) and n.value.value is None:
            for t in n.targets:
                if isinstance(t, ast.Attribute) and isinstance(t.value, ast.Name) and t.value.id == init.params[0]:
                    none_fields.add(t.attr)
    n_obl = 0
    for f in E.methods.values():
        if f.name == '__init__' or f.name == 'dispose':
            continue
        # fields this method resets at all (self.X = None) and also fills / relies on
        resets = {}
        for n in walk_function(f.node):
            if isinstance(n, ast.Assign) and isinstance(n.value, ast.Constant) and n.value.value is None:
                for t in n.targets:
                    if isinstance(t, ast.Attribute) and isinstance(t.value, ast.Name) and f.params and t.value.id == f.params[0] \
                            and t.attr in none_fields:
                        resets.setdefault(t.attr, []).append(n)
        if not resets:
            continue
        cfg = CFG(f.node)
        for field, sites in sorted(resets.items()):
            # is the field a cache in this method: is it also filled here or read here?
            used = any(isinstance(x, ast.Attribute) and x.attr == field and isinstance(x.ctx, ast.Load) for x in walk_function(f.node))
            if not used:
                continue
            n_obl += 1
            reset_nodes = [x for s in sites for x in cfg.nodes_of(s)]
            fills = [x for x in cfg.nodes if x.kind == 'stmt' and isinstance(x.ast, ast.Assign) and x not in reset_nodes
                     and any(isinstance(t, ast.Attribute) and t.attr == field and isinstance(t.value, ast.Name)
                             and t.value.id == f.params[0] for t in x.ast.targets)]
            # every path from the entry to a normal exit passes a reset after the last fill: walk backwards from exits
            bad = None
            starts = [cfg.entry] + fills
            for s0 in starts:
                first = [m for (m, lab) in cfg.succ[s0] if lab != 'exc']
                r = cfg.reach(first, blocked=reset_nodes + [x for x in fills if x is not s0], follow_exc=False)
                if any(x in r for x in cfg.normal_exits()):
                    bad = s0
                    break
            if bad is None:
                rule.ok(f.loc(), '%s: self.%s is None on every normal exit' % (f.name, field))
            else:
                rule.fail('%s|cache|%s' % (f.qualname, field), f.module.rel, (bad.lineno or f.node.lineno), f.qualname,
                          'self.%s = None' % field,
                          'a path through %s returns without clearing self.%s (filled earlier by check_simple_key or here): the '
                          'next event that consults the cache is written with this event\'s %s' % (f.name, field, field))
    if n_obl < 3:
        raise AnalysisError('R-EVENT-CACHE-RESET found %d per-event caches (4 confirmed by reading)' % n_obl)
    return rule


# --------------------------------------------------------------------------------------------- R-DOCMARKER-COLUMN0
def _col0_states(cfg, entry_clean):
    """forward may-analysis: can the position be away from column 0 ('dirty') when a node is reached?  A consumed line break
    or a true `column == 0` test makes it clean, any other consumption of input makes it dirty."""
    def is_break(n):
        return n.ast is not None and any(isinstance(y, ast.Call) and isinstance(y.func, ast.Attribute)
                                         and y.func.attr == 'scan_line_break' for y in own_exprs(n))

    def consumes(n):
        if n.ast is None or is_break(n):
            return False
        for y in own_exprs(n):
            if isinstance(y, ast.Call) and isinstance(y.func, ast.Attribute) and isinstance(y.func.value, ast.Name) \
                    and y.func.value.id == 'self' and (y.func.attr == 'forward' or y.func.attr.startswith(('scan_', 'fetch_'))):
                return True
        return False

    def col0_label(n):
        if n.kind != 'test':
            return None
        tt = norm(n.ast)
        if tt in ('self.column == 0', '0 == self.column'):
            return True
        if tt in ('self.column != 0', 'self.column', 'self.column > 0'):
            return False
        return None
    IN = {n: set() for n in cfg.nodes}
    IN[cfg.entry] = {'clean' if entry_clean else 'dirty'}
    work = [cfg.entry]
    while work:
        n = work.pop()
        st = IN[n]
        for (m, lab) in cfg.succ[n]:
            out = set(st)
            if is_break(n):
                out = {'clean'}
            elif consumes(n):
                out = {'dirty'}
            cl = col0_label(n)
            if cl is not None and lab == cl:
                out = {'clean'}
            if not out <= IN[m]:
                IN[m] |= out
                work.append(m)
    return IN


def r_docmarker_column0(ctx, repo):
    rule = ctx.rule('R-DOCMARKER-COLUMN0', "every test of the next three characters against '---' / '...' is reached only at column 0: "
                                           'under a `self.column == 0` test, or straight after a line break was consumed with nothing '
                                           'consumed in between')
    S = repo.cls('scanner.Scanner')
    n_sites = 0
    cfgs = {}

    def cfg_of(g):
        if g not in cfgs:
            cfgs[g] = CFG(g.node)
        return cfgs[g]

    def entry_clean(g, depth=0):
        """is g only ever called at column 0 (every call site in the scanner is reached clean)?"""
        if depth > 2:
            return False
        sites = []
        for h in S.methods.values():
            if h is g:
                continue
            for c in A.func_calls(h.node):
                if isinstance(c.func, ast.Attribute) and c.func.attr == g.name and norm(c.func.value) == 'self':
                    sites.append((h, c))
        if not sites:
            return False
        for h, c in sites:
            hc = cfg_of(h)
            IN = _col0_states(hc, entry_clean(h, depth + 1) if depth < 1 else False)
            nodes = [nd for nd in hc.nodes if nd.ast is not None and any(y is c for y in own_exprs(nd))]
            if not nodes or any('dirty' in IN[nd] or not IN[nd] for nd in nodes):
                return False
        return True
    for f in S.methods.values():
        tests = []
        # locals that only ever hold self.prefix(3)
        p3 = {}
        for x in walk_function(f.node):
            if isinstance(x, ast.Assign) and len(x.targets) == 1 and isinstance(x.targets[0], ast.Name):
                p3.setdefault(x.targets[0].id, []).append(M.match(M.compile_pattern('self.prefix(3)')[1], x.value, {}))
        p3 = {k for k, v in p3.items() if all(v)}
        for x in walk_function(f.node):
            if isinstance(x, ast.Compare) and len(x.ops) == 1 and isinstance(x.ops[0], (ast.Eq, ast.In, ast.NotEq, ast.NotIn)):
                sides = [x.left] + list(x.comparators)
                has_prefix3 = any(M.match(M.compile_pattern('self.prefix(3)')[1], s, {}) or
                                  (isinstance(s, ast.Name) and s.id in p3) for s in sides)
                consts = []
                for s in sides:
                    if isinstance(s, ast.Constant) and isinstance(s.value, str):
                        consts.append(s.value)
                    elif isinstance(s, ast.Tuple):
                        consts += [e.value for e in s.elts if isinstance(e, ast.Constant) and isinstance(e.value, str)]
                if has_prefix3 and any(c in ('---', '...') for c in consts):
                    tests.append(x)
        if not tests:
            continue
        cfg = cfg_of(f)
        IN = _col0_states(cfg, entry_clean(f))
        for x in tests:
            n_sites += 1
            nodes = [nd for nd in cfg.nodes if nd.ast is not None and any(y is x for y in own_exprs(nd))]
            ok = bool(nodes) and all(IN[nd] == {'clean'} for nd in nodes)
            if ok:
                rule.ok(f.loc(x), '%s: document marker test at column 0' % f.name)
            else:
                rule.fail('%s|docmarker|%s' % (f.qualname, A.anon_text(x, f.node, 50)), f.module.rel, x.lineno, f.qualname, norm(x)[:80],
                          "the characters are compared with a document marker at a position that need not be column 0 (input was "
                          "consumed since the last line break and no `column == 0` test dominates): an indented '--- ' or '... ' "
                          "inside a multi-line plain scalar ends the scalar, which LibYAML does not do")
    rule.require_min(3, 'document marker tests')
    return rule


# --------------------------------------------------------------------------------------------- R-DECODED-UNMODIFIED
def r_decoded_unmodified(ctx, repo):
    rule = ctx.rule('R-DECODED-UNMODIFIED', 'Reader.update appends to the character buffer exactly what the decoder returned (or the '
                                            'str input itself): no per-chunk transformation, which would depend on where reads split')
    f = _method(repo, 'reader.Reader', 'update')
    cfg = CFG(f.node)
    appends = []
    for n in cfg.nodes:
        a = n.ast
        if n.kind == 'stmt' and isinstance(a, ast.AugAssign) and isinstance(a.op, ast.Add) and norm(a.target) == 'self.buffer' \
                and not isinstance(a.value, ast.Constant):
            appends.append(n)
    if not appends:
        raise AnalysisError('Reader.update: buffer append not found')
    for n in appends:
        v = n.ast.value
        ok = False
        why = 'the appended value is %s' % norm(v)[:60]
        if isinstance(v, ast.Name):
            rd = reaching_defs(cfg, v.id).get(n, set())
            srcs = []
            for d in rd:
                a = d.ast
                if isinstance(a, ast.Assign):
                    if isinstance(a.targets[0], ast.Tuple) and isinstance(a.value, ast.Call) and \
                            isinstance(a.value.func, ast.Attribute) and a.value.func.attr == 'raw_decode':
                        # first element of the decoder's result
                        srcs.append('decoder' if isinstance(a.targets[0].elts[0], ast.Name) and a.targets[0].elts[0].id == v.id
                                    else 'other:' + norm(a)[:50])
                    elif norm(a.value) == 'self.raw_buffer':
                        srcs.append('raw')
                    else:
                        srcs.append('other:' + norm(a)[:60])
                else:
                    srcs.append('other:' + (norm(a)[:60] if a is not None else '?'))
            ok = bool(srcs) and all(s in ('decoder', 'raw') for s in srcs)
            if not ok:
                why = 'the appended value can come from ' + '; '.join(sorted(s[6:] for s in srcs if s.startswith('other:')))
        if ok:
            rule.ok(f.loc(n.ast), 'buffer += the decoder output, unmodified')
        else:
            rule.fail('%s|append|%s' % (f.qualname, A.anon_text(n.ast, f.node, 60)), f.module.rel, n.lineno, f.qualname, norm(n.ast)[:80],
                      'what is appended to the character buffer is not exactly what the decoder returned for this chunk (%s): a '
                      'transformation applied per chunk gives a result that depends on how the stream splits its reads' % why)
    return rule


# --------------------------------------------------------------------------------------------- R-MARK-FROM-POSITION
def r_mark_from_position(ctx, repo):
    rule = ctx.rule('R-MARK-FROM-POSITION', 'Reader.get_mark returns a Mark built at that moment from the reader\'s index, line and '
                                            'column (never a stored one)')
    f = _method(repo, 'reader.Reader', 'get_mark')
    rets = [n for n in walk_function(f.node) if isinstance(n, ast.Return)]
    if not rets:
        raise AnalysisError('get_mark has no return')
    for r in rets:
        v = r.value
        ok = isinstance(v, ast.Call) and norm(v.func) == 'Mark' and len(v.args) >= 4 and \
            [norm(a) for a in v.args[1:4]] == ['self.index', 'self.line', 'self.column']
        if ok:
            rule.ok(f.loc(r), 'Mark(name, index, line, column, ...)')
        else:
            rule.fail('%s|return|%s' % (f.qualname, A.anon_text(r, f.node, 50)), f.module.rel, r.lineno, f.qualname, norm(r)[:80],
                      'get_mark can return something else than a Mark of the current index / line / column: a stored mark goes '
                      'stale when the buffer is re-based on a refill, so tokens carry positions of earlier input')
    stores = [n for n in walk_function(f.node) if isinstance(n, ast.Attribute) and isinstance(n.ctx, ast.Store)]
    if stores:
        rule.fail('%s|state' % f.qualname, f.module.rel, stores[0].lineno, f.qualname, norm(stores[0]),
                  'get_mark changes reader state (self.%s): marks must be a pure function of the current position' % stores[0].attr)
    return rule


# --------------------------------------------------------------------------------------------- R-COW-ALL-PATHS
def r_cow_all_paths(ctx, repo):
    from . import rules_registry as RR
    rm = RR.model(repo)
    rule = ctx.rule('R-COW-ALL-PATHS', 'every normal path through an add_* classmethod passes the ownership test-and-copy: a class '
                                       'that has registered anything owns its table from then on (no early return before the copy)')
    for reg in rm.regs.values():
        for w in reg.writers:
            f = w.func
            cfg = CFG(f.node)
            cls = f.params[0]
            own = []
            for n in cfg.nodes:
                # the rebinding cls.R = <copy>, or a test that ownership already holds
                if n.kind == 'stmt' and isinstance(n.ast, ast.Assign) and any(
                        isinstance(t, ast.Attribute) and t.attr == reg.name and isinstance(t.value, ast.Name) and t.value.id == cls
                        for t in n.ast.targets):
                    own.append(n)
            owned_edges = []
            for n in cfg.nodes:
                if n.kind == 'test' and isinstance(n.ast, ast.Compare) and len(n.ast.ops) == 1 and \
                        isinstance(n.ast.left, ast.Constant) and n.ast.left.value == reg.name:
                    if isinstance(n.ast.ops[0], ast.In):
                        owned_edges.append((n, True))
                    elif isinstance(n.ast.ops[0], ast.NotIn):
                        owned_edges.append((n, False))
            r = cfg.reach([cfg.entry], blocked=own, blocked_edges=owned_edges, follow_exc=False)
            leaks = [x for x in cfg.normal_exits() if x in r]
            if not own:
                continue        # R-COW reports a writer without any copy
            if leaks:
                rets = [x for x in r if x.kind == 'return']
                line = rets[0].lineno if rets else f.node.lineno
                rule.fail('%s|early-exit' % f.qualname, f.module.rel, line, f.qualname, 'return',
                          '%s can return without having made cls.%s the class\'s own copy: a subclass whose registration takes '
                          'that path keeps sharing the inherited table, so later registrations on the base class change it'
                          % (f.qualname, reg.name))
            else:
                rule.ok(f.loc(), '%s: ownership of %s established on every normal path' % (f.name, reg.name))
    rule.require_min(5, 'add_* writers')
    return rule


# --------------------------------------------------------------------------------------------- R-EMITTER-DOC-RESET
def r_emitter_doc_reset(ctx, repo):
    rule = ctx.rule('R-EMITTER-DOC-RESET', 'for every DocumentStartEvent the emitter rebinds tag_prefixes to a fresh copy of the defaults '
                                           'before it adds or uses handles: %TAG handles of one document never apply to the next')
    f = _method(repo, 'emitter.Emitter', 'expect_document_start')
    cfg = CFG(f.node)
    doc_edges = []
    for n in cfg.nodes:
        if n.kind == 'test' and isinstance(n.ast, ast.Call) and norm(n.ast.func) == 'isinstance' and len(n.ast.args) == 2 \
                and 'DocumentStartEvent' in norm(n.ast.args[1]):
            doc_edges.append(n)
    if not doc_edges:
        raise AnalysisError('expect_document_start: DocumentStartEvent test not found')
    resets = []
    for n in cfg.nodes:
        if n.kind == 'stmt' and isinstance(n.ast, ast.Assign) and any(norm(t) == 'self.tag_prefixes' for t in n.ast.targets):
            v = n.ast.value
            fresh = (isinstance(v, ast.Call) and ((isinstance(v.func, ast.Attribute) and v.func.attr == 'copy') or norm(v.func) == 'dict')) \
                or isinstance(v, (ast.Dict, ast.DictComp))
            if fresh:
                resets.append(n)
    state_set = [n for n in cfg.nodes if n.kind == 'stmt' and isinstance(n.ast, ast.Assign)
                 and any(norm(t) == 'self.state' for t in n.ast.targets)]
    ok = bool(resets)
    if ok:
        for t in doc_edges:
            starts = [m for (m, lab) in cfg.succ[t] if lab is True]
            # from the true edge, reaching the hand-over to the document root without a reset?
            r = cfg.reach(starts, blocked=resets, follow_exc=False)
            if any(x in r for x in cfg.normal_exits()):
                ok = False
    if ok:
        rule.ok(f.loc(), 'tag_prefixes rebuilt for every document start')
    else:
        rule.fail('%s|tag_prefixes' % f.qualname, f.module.rel, f.node.lineno, f.qualname, 'self.tag_prefixes = ....copy()',
                  'a DocumentStartEvent can be processed without rebinding self.tag_prefixes to a fresh copy of the defaults: '
                  'handles declared by an earlier document stay in force and a later document is written with an undeclared '
                  'handle (the parsers reject it), or the text of a document depends on the documents before it')
    # the fresh table must not be the shared class-level default itself
    init = _method(repo, 'emitter.Emitter', '__init__')
    for n in walk_function(init.node):
        if isinstance(n, ast.Assign) and any(norm(t) == 'self.tag_prefixes' for t in n.targets) \
                and isinstance(n.value, ast.Attribute) and n.value.attr == 'DEFAULT_TAG_PREFIXES':
            rule.fail('%s|alias-default' % init.qualname, init.module.rel, n.lineno, init.qualname, norm(n),
                      'the emitter starts with the class-level DEFAULT_TAG_PREFIXES itself as its table: a document\'s handles '
                      'are written into state shared by every emitter')
    return rule


# --------------------------------------------------------------------------------------------- R-DEEP-FORWARDED
def r_deep_forwarded(ctx, repo):
    rule = ctx.rule('R-DEEP-FORWARDED', 'construct_sequence / construct_mapping / construct_pairs construct their children with the '
                                        '`deep` value they were given (a constant True would reject self-referential children)')
    n = 0
    for q in ('constructor.BaseConstructor.construct_sequence', 'constructor.BaseConstructor.construct_mapping',
              'constructor.BaseConstructor.construct_pairs'):
        f = repo.func(q)
        if 'deep' not in f.params:
            raise AnalysisError('%s has no deep parameter' % q)
        for c in A.func_calls(f.node):
            if isinstance(c.func, ast.Attribute) and c.func.attr == 'construct_object':
                n += 1
                kw = [k for k in c.keywords if k.arg == 'deep']
                val = kw[0].value if kw else (c.args[1] if len(c.args) > 1 else None)
                if isinstance(val, ast.Name) and val.id == 'deep':
                    rule.ok(f.loc(c), '%s forwards deep' % f.name)
                else:
                    rule.fail('%s|deep|%s' % (f.qualname, A.anon_text(c, f.node, 60)), f.module.rel, c.lineno, f.qualname, norm(c)[:80],
                              '%s constructs a child with deep=%s instead of the value it was given: with a constant True an '
                              'anchored child that refers to itself (a key object aliasing itself, a set member) is rejected as '
                              '"unconstructable recursive node"; with False/none, arguments of a deep construction are handed over '
                              'unfinished' % (f.name, norm(val) if val is not None else '<default>'))
    rule.require_min(4, 'child constructions')
    return rule


# --------------------------------------------------------------------------------------------- R-NEWOBJ-FORM
def r_newobj_form(ctx, repo):
    rule = ctx.rule('R-NEWOBJ-FORM', 'represent_object writes the compact python/object: form (rebuilt with cls.__new__, no __init__) '
                                     'only when the reduction function is copyreg.__newobj__')
    f = _method(repo, 'representer.Representer', 'represent_object')
    cfg = CFG(f.node)
    # edges on which the reduction function is known to be copyreg.__newobj__ (a comparison of <f>.__name__ with the name)
    direct = []
    for n in cfg.nodes:
        if n.kind == 'test' and isinstance(n.ast, ast.Compare) and len(n.ast.ops) == 1 and "'__newobj__'" in norm(n.ast):
            if isinstance(n.ast.ops[0], (ast.Eq, ast.Is)):
                direct.append((n, True))
            elif isinstance(n.ast.ops[0], (ast.NotEq, ast.IsNot)):
                direct.append((n, False))
    if not direct:
        raise AnalysisError('represent_object: __newobj__ detection not found')
    # flags: locals that are assigned True only under such an edge (and False / nothing elsewhere)
    flags = set()
    cand = {}
    for n in cfg.nodes:
        if n.kind == 'stmt' and isinstance(n.ast, ast.Assign) and len(n.ast.targets) == 1 and isinstance(n.ast.targets[0], ast.Name) \
                and isinstance(n.ast.value, ast.Constant) and isinstance(n.ast.value.value, bool):
            cand.setdefault(n.ast.targets[0].id, []).append(n)
    for name, nodes in cand.items():
        trues = [n for n in nodes if n.ast.value.value is True]
        others = [n for n in cfg.nodes if n.kind == 'stmt' and isinstance(n.ast, (ast.Assign, ast.AugAssign)) and n not in nodes
                  and any(isinstance(x, ast.Name) and x.id == name and isinstance(x.ctx, ast.Store) for x in ast.walk(n.ast))]
        if trues and not others and all(cfg.guarded(n, edges=direct) for n in trues):
            flags.add(name)
    edges = list(direct)
    for n in cfg.nodes:
        if n.kind == 'test' and isinstance(n.ast, ast.Name) and n.ast.id in flags:
            edges.append((n, True))
    sites = []
    for n in cfg.nodes:
        if n.ast is None:
            continue
        for x in own_exprs(n):
            if isinstance(x, ast.Call) and isinstance(x.func, ast.Attribute) and x.func.attr in ('represent_mapping', 'represent_sequence',
                                                                                                  'represent_scalar') and x.args:
                t = x.args[0]
                consts = [y.value for y in ast.walk(t) if isinstance(y, ast.Constant) and isinstance(y.value, str)]
                if any(c.endswith('python/object:') for c in consts):
                    sites.append((n, x, 'object'))
                elif any(c.endswith('python/object/new:') for c in consts):
                    sites.append((n, x, 'new'))
    # tags chosen through a local (tag = '...object/new:' under `if newobj`): take the assignments
    for n in cfg.nodes:
        if n.kind == 'stmt' and isinstance(n.ast, ast.Assign) and isinstance(n.ast.value, ast.Constant) and isinstance(n.ast.value.value, str):
            if n.ast.value.value.endswith('python/object/new:'):
                sites.append((n, n.ast, 'new'))
            elif n.ast.value.value.endswith('python/object:'):
                sites.append((n, n.ast, 'object'))
    if not sites:
        raise AnalysisError('represent_object: python/object forms not found')
    for n, x, kind in sites:
        if edges and cfg.guarded(n, edges=edges):
            rule.ok(f.loc(x), 'python/object%s: only for __newobj__ reductions' % ('/new' if kind == 'new' else ''))
        else:
            rule.fail('%s|newobj|%s' % (f.qualname, kind), f.module.rel, x.lineno, f.qualname, norm(x)[:80],
                      'the python/object%s: form can be written for a reduction whose callable is not copyreg.__newobj__: the loader '
                      'rebuilds such an object with cls.__new__ and never calls the callable (e.g. the class itself, whose '
                      '__init__ pickle would run)' % ('/new' if kind == 'new' else ''))
    return rule


# --------------------------------------------------------------------------------------------- R-DICT-STATE-DIRECT
def r_dict_state_direct(ctx, repo):
    rule = ctx.rule('R-DICT-STATE-DIRECT', 'set_python_instance_state applies the dict half of the state with instance.__dict__.update '
                                           '(as pickle does) whenever the instance has a __dict__, and only slot state with setattr')
    f = _method(repo, 'constructor.FullConstructor', 'set_python_instance_state')
    inst = f.params[1]
    cfg = CFG(f.node)
    has_dict = [(n, True) for n in cfg.nodes if n.kind == 'test' and M.match(M.compile_pattern("hasattr(_N_i, '__dict__')")[1], n.ast,
                                                                              {'_N_i': ast.Name(id=inst, ctx=ast.Load())})]
    updates = [n for n in cfg.nodes if n.ast is not None and any(
        isinstance(x, ast.Call) and M.match(M.compile_pattern('_N_i.__dict__.update(...)')[1], x, {'_N_i': ast.Name(id=inst, ctx=ast.Load())})
        for x in own_exprs(n))]
    if not updates:
        rule.fail('%s|dict-update' % f.qualname, f.module.rel, f.node.lineno, f.qualname, 'instance.__dict__.update(state)',
                  'set_python_instance_state never applies state with instance.__dict__.update: dict state goes through setattr, '
                  'which runs __setattr__ / property setters / frozen-dataclass guards that pickle bypasses, so objects that '
                  'survive pickle fail to load or load differently')
        return rule
    if not has_dict:
        raise AnalysisError('set_python_instance_state: hasattr(instance, "__dict__") test not found')
    ok = bool(updates)
    for (t, lab) in has_dict:
        starts = [m for (m, l) in cfg.succ[t] if l is True]
        r = cfg.reach(starts, blocked=updates, follow_exc=False)
        if any(x in r for x in cfg.normal_exits()):
            ok = False
    if ok:
        rule.ok(f.loc(), 'instances with a __dict__ get their dict state through __dict__.update')
    else:
        rule.fail('%s|dict-update' % f.qualname, f.module.rel, f.node.lineno, f.qualname, 'instance.__dict__.update(state)',
                  'an instance that has a __dict__ can leave set_python_instance_state without instance.__dict__.update(state): '
                  'applying dict state through setattr runs __setattr__ / property setters / frozen-dataclass guards that pickle '
                  'bypasses, so objects that survive pickle fail to load or load differently')
    return rule


# --------------------------------------------------------------------------------------------- R-SINGLE-READ
def r_single_read(ctx, repo):
    rule = ctx.rule('R-SINGLE-READ', 'Reader.update_raw asks the stream for one block per call (no loop around stream.read): the amount '
                                     'read beyond a document is bounded by the number of refills, not by the input')
    f = _method(repo, 'reader.Reader', 'update_raw')
    reads = [c for c in A.func_calls(f.node) if isinstance(c.func, ast.Attribute) and c.func.attr == 'read']
    if not reads:
        raise AnalysisError('update_raw: stream.read call not found')
    cfg = CFG(f.node)
    for c in reads:
        stn = A.enclosing_stmt(c)
        nodes = cfg.nodes_of(stn) or [x for x in cfg.nodes if x.ast is not None and any(y is c for y in own_exprs(x))]
        cyc = any(n in cfg.reach([m for (m, lab) in cfg.succ[n]]) for n in nodes)
        if cyc or len(reads) > 1:
            rule.fail('%s|read-loop' % f.qualname, f.module.rel, c.lineno, f.qualname, norm(c)[:80],
                      'update_raw can call stream.read more than once per refill (%s): the number of characters requested beyond '
                      'the end of a document then depends on the input (e.g. a run of CR line ends), not on a fixed number of blocks'
                      % ('inside a loop' if cyc else '%d call sites' % len(reads)))
        else:
            rule.ok(f.loc(c), 'one stream.read per refill')
    return rule


# --------------------------------------------------------------------------------------------- R-DISPOSE-CHAIN
def r_dispose_chain(ctx, repo, universes):
    """the API's finally-clause calls loader.dispose()/dumper.dispose(); what runs is the first definition in the MRO.  Every
    other component's dispose() that releases state must either be that one or be called from it."""
    rule = ctx.rule('R-DISPOSE-CHAIN', 'in every loader / dumper class the dispose() that the API calls releases everything the '
                                       'dispose() methods of its components release')
    n = 0
    for q in universes:
        u = repo.cls(q)
        defs = [k.methods['dispose'] for k in u.mro_classes() if 'dispose' in k.methods]
        # the same definition can be seen through a transparent base: dedupe
        uniq = []
        for d in defs:
            if d not in uniq:
                uniq.append(d)
        if not uniq:
            continue
        n += 1
        first = uniq[0]

        def released(d):
            out = set()
            for x in walk_function(d.node):
                if isinstance(x, ast.Assign):
                    for t in x.targets:
                        if isinstance(t, ast.Attribute) and isinstance(t.value, ast.Name) and d.params and t.value.id == d.params[0]:
                            out.add(t.attr)
            return out
        got = set(released(first))
        # calls of other dispose definitions from the first one (super().dispose(), Parser.dispose(self))
        for c in A.func_calls(first.node):
            if isinstance(c.func, ast.Attribute) and c.func.attr == 'dispose':
                for d in uniq[1:]:
                    got |= released(d)
        missing = {}
        for d in uniq[1:]:
            lost = released(d) - got
            if lost:
                missing[d.qualname] = sorted(lost)
        if missing:
            rule.fail('%s|dispose|%s' % (q, ','.join(sorted(missing))), first.module.rel, first.node.lineno, first.qualname,
                      'def dispose', 'for %s the API\'s finally-clause runs %s, which hides %s: %s is never released, so an '
                      'abandoned iteration keeps the loader alive through the reference cycle of its bound state methods'
                      % (q, first.qualname, ', '.join(sorted(missing)), ', '.join('self.' + a for v in missing.values() for a in v)))
        else:
            rule.ok(first.loc(), '%s.dispose -> %s releases all component state' % (u.name, first.qualname))
    rule.require_min(4, 'universes with a dispose method')
    return rule


# --------------------------------------------------------------------------------------------- R-NO-PROCESS-STATE
PROCESS_STATE_CALLS = {
    'sys.setrecursionlimit', 'sys.setswitchinterval', 'sys.settrace', 'sys.setprofile', 'sys.setcheckinterval',
    'gc.disable', 'gc.enable', 'gc.set_threshold', 'gc.freeze', 'locale.setlocale', 'signal.signal', 'signal.alarm',
    'warnings.simplefilter', 'warnings.filterwarnings', 'warnings.resetwarnings', 'os.chdir', 'os.umask', 'os.putenv', 'os.unsetenv',
    'random.seed', 'socket.setdefaulttimeout', 'threading.setprofile', 'threading.settrace', 'decimal.setcontext',
    'sys.set_int_max_str_digits', 'faulthandler.enable', 'atexit.register', 'codecs.register', 'codecs.register_error',
    'importlib.invalidate_caches', 'copyreg.pickle', 'copyreg.constructor',
}


def r_no_process_state(ctx, repo):
    rule = ctx.rule('R-NO-PROCESS-STATE', 'no function of the package changes interpreter-wide settings (recursion limit, gc, locale, '
                                          'warnings filters, environment, codec registry ...): a call that fails leaves nothing '
                                          'behind that changes what the next call does')
    n = 0
    for f in repo.all_functions():
        bad = []
        for x in walk_function(f.node):
            if isinstance(x, ast.Call):
                fn = norm(x.func)
                r = None
                if isinstance(x.func, ast.Attribute) and isinstance(x.func.value, ast.Name):
                    ref = repo.resolve_name(f.module, x.func.value.id)
                    if ref is not None and ref.kind == 'ext':
                        fn = '%s.%s' % (ref.obj, x.func.attr)
                elif isinstance(x.func, ast.Name):
                    ref = repo.resolve_name(f.module, x.func.id)
                    if ref is not None and ref.kind == 'ext':
                        fn = ref.obj
                if fn in PROCESS_STATE_CALLS:
                    bad.append((x, fn))
            elif isinstance(x, (ast.Assign, ast.AugAssign, ast.Delete)):
                targets = x.targets if isinstance(x, (ast.Assign, ast.Delete)) else [x.target]
                for t in targets:
                    tt = norm(t)
                    if tt.startswith('os.environ') or tt.startswith('sys.path') or tt.startswith('sys.modules[') \
                            or tt in ('sys.stdout', 'sys.stderr', 'sys.stdin', 'sys.excepthook', 'sys.displayhook'):
                        bad.append((x, tt))
        n += 1
        for x, fn in bad:
            rule.fail('%s|process-state|%s' % (f.qualname, fn), f.module.rel, x.lineno, f.qualname, norm(x)[:80],
                      '%s changes interpreter-wide state (%s): if the call fails before it is restored - or even if it is restored - '
                      'other calls and other threads behave differently (e.g. a load that hit the recursion limit before now '
                      'succeeds)' % (f.qualname, fn))
        if not bad:
            rule.ok(f.loc(), '%s: no interpreter-wide setting touched' % f.qualname)
    rule.require_min(200, 'functions')
    return rule


# --------------------------------------------------------------------------------------------- R-TIMESTAMP-INT-FIELDS
def r_timestamp_int_fields(ctx, repo):
    """type-level abstract interpretation of construct_yaml_timestamp: every field handed to datetime.date / datetime.datetime /
    datetime.timedelta is an int on every path (an int() result, an int constant, or +,-,* of such; `/` and `**` can
    leave the integers)."""
    rule = ctx.rule('R-TIMESTAMP-INT-FIELDS', 'every positional field construct_yaml_timestamp passes to datetime.date / datetime.datetime '
                                              'is int-typed on every path (no true division, no power with a possibly negative '
                                              'exponent): otherwise a resolver-typed timestamp raises TypeError')
    f = _method(repo, 'constructor.SafeConstructor', 'construct_yaml_timestamp')
    cfg = CFG(f.node)

    def unpacked_int(target, value, name, d, depth):
        """`<target> = <value>` with a flat tuple target: is what `name` receives an int?  A display of the same length gives
        the element at the same position; a comprehension / generator / map(int, ...) gives the same kind of element to
        every position."""
        if any(not isinstance(t, ast.Name) for t in target.elts):
            return False
        pos = [i for i, t in enumerate(target.elts) if t.id == name]
        while isinstance(value, ast.Call) and isinstance(value.func, ast.Name) and value.func.id in ('list', 'tuple') \
                and len(value.args) == 1 and not value.keywords:
            value = value.args[0]
        if isinstance(value, (ast.Tuple, ast.List)):
            if len(value.elts) != len(target.elts) or any(isinstance(x, ast.Starred) for x in value.elts):
                return False
            return bool(pos) and all(is_int(value.elts[i], [d], depth) for i in pos)
        if isinstance(value, (ast.ListComp, ast.GeneratorExp, ast.SetComp)):
            # the comprehension's own variables are not locals of the function: they may only occur below a converting call
            own = {x.id for g in value.generators for x in ast.walk(g.target) if isinstance(x, ast.Name)}

            def exposed(x):
                if isinstance(x, ast.Name):
                    return x.id in own
                if isinstance(x, ast.Call) and norm(x.func) in ('int', 'len', 'ord'):
                    return False
                return any(exposed(y) for y in ast.iter_child_nodes(x))
            return not exposed(value.elt) and is_int(value.elt, [d], depth)
        if isinstance(value, ast.Call) and isinstance(value.func, ast.Name) and value.func.id == 'map' and len(value.args) == 2 \
                and isinstance(value.args[0], ast.Name) and value.args[0].id in ('int', 'len', 'ord'):
            return True
        return False

    def is_int(e, at, depth=0):
        if depth > 8:
            return False
        if isinstance(e, ast.Constant):
            return isinstance(e.value, int) and not isinstance(e.value, bool)
        if isinstance(e, ast.Call) and norm(e.func) in ('int', 'len', 'ord', 'round') and (norm(e.func) != 'round' or len(e.args) == 1):
            return True
        if isinstance(e, ast.UnaryOp) and isinstance(e.op, (ast.USub, ast.UAdd)):
            return is_int(e.operand, at, depth + 1)
        if isinstance(e, ast.BinOp):
            if isinstance(e.op, (ast.Add, ast.Sub, ast.Mult, ast.FloorDiv, ast.Mod)):
                return is_int(e.left, at, depth + 1) and is_int(e.right, at, depth + 1)
            if isinstance(e.op, ast.Pow):
                # int ** non-negative int constant stays int
                return is_int(e.left, at, depth + 1) and isinstance(e.right, ast.Constant) and isinstance(e.right.value, int) \
                    and e.right.value >= 0
            return False
        if isinstance(e, ast.IfExp):
            return is_int(e.body, at, depth + 1) and is_int(e.orelse, at, depth + 1)
        if isinstance(e, ast.BoolOp) and isinstance(e.op, ast.Or):
            return all(is_int(v, at, depth + 1) or (isinstance(v, ast.Subscript)) for v in e.values) and is_int(e.values[-1], at, depth + 1)
        if isinstance(e, ast.Name):
            rd = reaching_defs(cfg, e.id)
            defs = set()
            for n in at:
                defs |= rd.get(n, set())
            if not defs:
                return False
            for d in defs:
                a = d.ast
                if isinstance(a, ast.Assign) and len(a.targets) == 1 and isinstance(a.targets[0], ast.Name):
                    if not is_int(a.value, [d], depth + 1):
                        return False
                elif isinstance(a, ast.Assign) and len(a.targets) == 1 and isinstance(a.targets[0], (ast.Tuple, ast.List)):
                    # unpacking: the element of the right-hand side that lands in this name is int-typed
                    if not unpacked_int(a.targets[0], a.value, e.id, d, depth + 1):
                        return False
                elif isinstance(a, ast.AugAssign) and isinstance(a.op, (ast.Add, ast.Sub, ast.Mult, ast.FloorDiv)):
                    if not is_int(a.value, [d], depth + 1):
                        return False
                else:
                    return False
            return True
        return False
    n = 0
    for c in A.func_calls(f.node):
        fn = norm(c.func)
        if fn in ('datetime.date', 'datetime.datetime'):
            stn = A.enclosing_stmt(c)
            at = cfg.nodes_of(stn) or [x for x in cfg.nodes if x.ast is not None and any(y is c for y in own_exprs(x))]
            for i, a in enumerate(c.args):
                n += 1
                if is_int(a, at):
                    rule.ok(f.loc(c), '%s argument %d is int-typed' % (fn, i + 1))
                else:
                    rule.fail('%s|int-field|%s|%d' % (f.qualname, fn, i + 1), f.module.rel, c.lineno, f.qualname, norm(a)[:60],
                              'argument %d of %s (%s) is not an int on every path (a division or a power with a variable exponent '
                              'can yield a float): a plain scalar that the resolver types as !!timestamp makes the constructor '
                              'raise TypeError' % (i + 1, fn, norm(a)[:40]))
    rule.require_min(5, 'date/time fields')
    return rule


# --------------------------------------------------------------------------------------------- R-TIMESTAMP-EXACT
def r_timestamp_exact(ctx, repo):
    rule = ctx.rule('R-TIMESTAMP-EXACT', 'construct_yaml_timestamp converts its digit strings with integer arithmetic only (no binary '
                                         'floating point): every microsecond value survives dump and load')
    f = _method(repo, 'constructor.SafeConstructor', 'construct_yaml_timestamp')
    bad = [c for c in A.func_calls(f.node) if norm(c.func) in ('float', 'round', 'math.floor', 'math.ceil', 'decimal.Decimal')]
    divs = [n for n in walk_function(f.node) if isinstance(n, ast.BinOp) and isinstance(n.op, ast.Div)]
    for c in bad + divs:
        rule.fail('%s|float|%s' % (f.qualname, A.anon_text(c, f.node, 40)), f.module.rel, c.lineno, f.qualname, norm(c)[:70],
                  'a timestamp field goes through binary floating point (%s): about 1 %% of the microsecond values come back one '
                  'microsecond short, so a datetime does not survive safe_dump / safe_load' % norm(c)[:40])
    if not bad and not divs:
        rule.ok(f.loc(), 'integer arithmetic only')
    return rule


# --------------------------------------------------------------------------------------------- R-ESCAPE-INTRODUCER
def r_escape_introducer(ctx, repo):
    """the character that *introduces* an escape on the reading side must itself be escaped on the writing side."""
    from . import rules_emit as RE
    rule = ctx.rule('R-ESCAPE-INTRODUCER', "the tag writers never pass '%' through unescaped: the scanner reads '%' in a tag as the "
                                           'start of a %XX escape, so a literal percent sign has to be written as %25')
    E = repo.cls('emitter.Emitter')
    for name in ('prepare_tag', 'prepare_tag_prefix'):
        f = E.methods.get(name)
        if f is None:
            raise AnalysisError('Emitter.%s has vanished' % name)
        cc = RE.CharClass(repo, f)
        v = cc.passes('%')
        if v is False:
            rule.ok(f.loc(cc.node), "%s escapes '%%'" % name)
        else:
            rule.fail('%s|percent-raw' % f.qualname, f.module.rel, cc.node.lineno, f.qualname, cc.text[:80],
                      "%s writes a literal '%%' of the tag unescaped: the scanner takes it for the start of a %%XX escape, so "
                      "'!a%%41b' comes back as '!aAb' and '!10%%' is rejected" % name)
    return rule


# --------------------------------------------------------------------------------------------- R-BUFFER-ENCAPSULATED
READER_PRIVATE = {'buffer', 'pointer', 'raw_buffer', 'raw_decode', 'stream_pointer', 'eof'}


def r_buffer_encapsulated(ctx, repo):
    rule = ctx.rule('R-BUFFER-ENCAPSULATED', 'only the reader touches its buffer window (buffer, pointer, raw_buffer, eof ...): scanner, '
                                             'parser and composer look at input through peek / prefix / forward, which refill the '
                                             'window; a direct look at the window sees where the stream happened to be cut')
    n = 0
    for f in repo.all_functions(['scanner', 'parser', 'composer', 'constructor', 'resolver']):
        first = f.params[0] if f.params else None
        hits = [x for x in walk_function(f.node) if isinstance(x, ast.Attribute) and x.attr in READER_PRIVATE
                and isinstance(x.value, ast.Name) and x.value.id == first and f.cls is not None]
        n += 1
        for x in hits:
            rule.fail('%s|window|%s' % (f.qualname, x.attr), f.module.rel, x.lineno, f.qualname, norm(x),
                      '%s reads self.%s directly: what is in the reader\'s window depends on how the stream delivered its data '
                      '(e.g. a CR LF pair cut between two reads is seen as CR at the end of the buffer), so the result differs '
                      'between str input and chunked streams' % (f.qualname, x.attr))
        if not hits:
            rule.ok(f.loc(), '%s: input only through peek/prefix/forward' % f.qualname)
    rule.require_min(60, 'front-end methods')
    return rule


# --------------------------------------------------------------------------------------------- R-STALE-SNAPSHOT
def r_stale_snapshot(ctx, repo):
    """update() re-bases the window (buffer = buffer[pointer:]; pointer = 0): a value computed from pointer / buffer before a
    refill must not be used after it."""
    rule = ctx.rule('R-STALE-SNAPSHOT', 'in the reader no local computed from self.pointer / self.buffer before a call of update() is '
                                        'used after it (update re-bases both)')
    R = repo.cls('reader.Reader')
    n = 0
    for f in R.methods.values():
        cfg = CFG(f.node)
        upd = [x for x in cfg.nodes if x.ast is not None and any(
            isinstance(y, ast.Call) and isinstance(y.func, ast.Attribute) and y.func.attr in ('update', 'update_raw')
            and isinstance(y.func.value, ast.Name) and y.func.value.id == f.params[0] for y in own_exprs(x))]
        if not upd:
            continue
        snaps = []
        for x in cfg.nodes:
            if x.kind == 'stmt' and isinstance(x.ast, ast.Assign) and len(x.ast.targets) == 1 and isinstance(x.ast.targets[0], ast.Name):
                if any(isinstance(y, ast.Attribute) and y.attr in ('pointer', 'buffer') and isinstance(y.value, ast.Name)
                       and y.value.id == f.params[0] for y in ast.walk(x.ast.value)):
                    snaps.append(x)
        for sdef in snaps:
            n += 1
            name = sdef.ast.targets[0].id
            rd = reaching_defs(cfg, name)
            bad = None
            for u in upd:
                # is the update reachable from the snapshot, and a use of the snapshot reachable from the update with this def?
                if u not in cfg.reach([m for (m, lab) in cfg.succ[sdef]]):
                    continue
                after = cfg.reach([m for (m, lab) in cfg.succ[u]])
                for x in after:
                    if x.ast is None or x is sdef:
                        continue
                    if sdef in rd.get(x, set()) and any(isinstance(y, ast.Name) and y.id == name and isinstance(y.ctx, ast.Load)
                                                       for y in own_exprs(x)):
                        bad = x
                        break
                if bad:
                    break
            if bad is None:
                rule.ok(f.loc(sdef.ast), '%s: %s not used across a refill' % (f.name, name))
            else:
                rule.fail('%s|stale|%s' % (f.qualname, A.anon_text(sdef.ast, f.node, 50)), f.module.rel, bad.lineno, f.qualname,
                          norm(bad.ast).split('\n')[0][:80],
                          '`%s` is computed from the window position before update() and used after it; update() drops the consumed '
                          'part of the buffer and resets the pointer, so across a refill the value is stale (too long a prefix, a '
                          'wrong character): results differ between str input and streams at refill boundaries' % name)
        if not snaps:
            n += 1
            rule.ok(f.loc(), '%s: no snapshot of the window across update()' % f.name)
    rule.require_min(2, 'reader methods that refill')
    return rule


# --------------------------------------------------------------------------------------------- R-TOKEN-READY
def r_token_ready(ctx, repo):
    rule = ctx.rule('R-TOKEN-READY', 'check_token / peek_token / get_token hand out the head of the token queue only after '
                                     'need_more_tokens() has answered no (so a pending simple key has had its KEY inserted)')
    S = repo.cls('scanner.Scanner')
    for name in ('check_token', 'peek_token', 'get_token'):
        f = S.methods.get(name)
        if f is None:
            raise AnalysisError('Scanner.%s has vanished' % name)
        cfg = CFG(f.node)
        settled = [(t, False) for t in cfg.nodes if t.kind == 'test' and isinstance(t.ast, ast.Call)
                   and isinstance(t.ast.func, ast.Attribute) and t.ast.func.attr == 'need_more_tokens']
        uses = [x for x in cfg.nodes if x.ast is not None and x.kind != 'test' and any(
            (isinstance(y, ast.Subscript) and norm(y.value) == 'self.tokens') or
            (isinstance(y, ast.Call) and norm(y.func) in ('self.tokens.pop', 'self.tokens.popleft')) for y in own_exprs(x))]
        uses += [x for x in cfg.nodes if x.kind == 'test' and any(
            isinstance(y, ast.Subscript) and norm(y.value) == 'self.tokens' for y in own_exprs(x))]
        if not uses:
            raise AnalysisError('%s: no use of the token queue head found' % f.qualname)
        bad = [u for u in uses if not (settled and cfg.guarded(u, edges=settled))]
        if bad:
            rule.fail('%s|unsettled' % f.qualname, f.module.rel, bad[0].lineno, f.qualname, norm(bad[0].ast).split('\n')[0][:80],
                      '%s can hand out / inspect the head of the queue on a path that did not just see need_more_tokens() answer no: '
                      'a token that is still a possible simple key is delivered before its KEY token is inserted (KEY after its '
                      'scalar, marks going backwards)' % name)
        else:
            rule.ok(f.loc(), '%s: queue head used only once the look-ahead is settled' % name)
    return rule


# --------------------------------------------------------------------------------------------- R-COLUMN-PER-CHAR
def r_column_per_char(ctx, repo):
    rule = ctx.rule('R-COLUMN-PER-CHAR', 'Reader.forward advances the column by one per character and not at all for U+FEFF (a byte '
                                         'order mark has no width), whatever the length of the run')
    f = _method(repo, 'reader.Reader', 'forward')
    cfg = CFG(f.node)
    incs = [x for x in cfg.nodes if x.kind == 'stmt' and isinstance(x.ast, ast.AugAssign) and norm(x.ast.target) == 'self.column']
    sets = [x for x in cfg.nodes if x.kind == 'stmt' and isinstance(x.ast, ast.Assign) and any(norm(t) == 'self.column' for t in x.ast.targets)]
    if not incs:
        raise AnalysisError('Reader.forward: no column increment found')
    # the character variable: assigned from a subscript of the buffer
    chars = {x.ast.targets[0].id for x in cfg.nodes if x.kind == 'stmt' and isinstance(x.ast, ast.Assign)
             and len(x.ast.targets) == 1 and isinstance(x.ast.targets[0], ast.Name) and isinstance(x.ast.value, ast.Subscript)
             and not isinstance(x.ast.value.slice, ast.Slice)}
    bom_edges = []
    for t in cfg.nodes:
        if t.kind == 'test' and isinstance(t.ast, ast.Compare) and len(t.ast.ops) == 1 and isinstance(t.ast.left, ast.Name) \
                and t.ast.left.id in chars and isinstance(t.ast.comparators[0], ast.Constant) and t.ast.comparators[0].value == '\ufeff':
            if isinstance(t.ast.ops[0], ast.NotEq):
                bom_edges.append((t, True))
            elif isinstance(t.ast.ops[0], ast.Eq):
                bom_edges.append((t, False))
    for x in incs:
        one = isinstance(x.ast.op, ast.Add) and isinstance(x.ast.value, ast.Constant) and x.ast.value.value == 1
        guarded = bool(bom_edges) and cfg.guarded(x, edges=bom_edges)
        if one and guarded:
            rule.ok(f.loc(x.ast), 'column += 1 for characters other than U+FEFF')
        else:
            rule.fail('%s|column|%s' % (f.qualname, A.anon_text(x.ast, f.node, 40)), f.module.rel, x.lineno, f.qualname, norm(x.ast),
                      'the column is advanced %s: a U+FEFF inside the run is counted as a column, so every later mark on that line is '
                      'off by one' % ('by something else than 1 per character' if not one else 'without excluding U+FEFF'))
    for x in sets:
        if not (isinstance(x.ast.value, ast.Constant) and x.ast.value.value == 0):
            rule.fail('%s|column-set' % f.qualname, f.module.rel, x.lineno, f.qualname, norm(x.ast),
                      'the column is set to something else than 0 (start of a line)')
    return rule


# --------------------------------------------------------------------------------------------- R-NO-MEMO
MEMO_DECORATORS = {'lru_cache', 'cache', 'cached_property', 'functools.lru_cache', 'functools.cache', 'functools.cached_property'}


def r_no_memo(ctx, repo):
    rule = ctx.rule('R-NO-MEMO', 'no function of the package is memoised (functools.lru_cache / cache / cached_property): a cache shared by '
                                 'all calls makes equal inputs come back as one shared object, keeps loaders and their streams alive, '
                                 'and makes a result depend on earlier calls')
    n = 0
    for f in repo.all_functions():
        n += 1
        bad = []
        for d in f.node.decorator_list:
            t = d.func if isinstance(d, ast.Call) else d
            if norm(t) in MEMO_DECORATORS or norm(t).split('.')[-1] in ('lru_cache', 'cached_property'):
                bad.append(d)
        for c in A.func_calls(f.node):
            if norm(c.func) in MEMO_DECORATORS:
                bad.append(c)
        for d in bad:
            rule.fail('%s|memo' % f.qualname, f.module.rel, d.lineno, f.qualname, norm(d)[:60],
                      '%s is memoised with %s: the cache outlives the call (it holds `self`, i.e. the loader and its stream, and the '
                      'constructed objects), equal scalars are returned as one shared object, and later calls see earlier results'
                      % (f.qualname, norm(d)[:40]))
        if not bad:
            rule.ok(f.loc(), '%s: not memoised' % f.qualname)
    for m in repo.modules.values():
        if m.kind != 'py':
            continue
        for st in m.tree.body:
            if isinstance(st, ast.Assign) and isinstance(st.value, ast.Call) and norm(st.value.func) in MEMO_DECORATORS:
                rule.fail('%s|memo|module' % m.name, m.rel, st.lineno, m.name, norm(st)[:60], 'module-level memoised callable')
    rule.require_min(200, 'functions')
    return rule


# --------------------------------------------------------------------------------------------- R-SETSTATE-UNCONDITIONAL
def r_setstate_unconditional(ctx, repo):
    rule = ctx.rule('R-SETSTATE-UNCONDITIONAL', 'set_python_instance_state calls instance.__setstate__(state) whenever the instance has '
                                                'that method, also for an empty state (pickle\'s BUILD does: an object whose __setstate__ '
                                                'rebuilds derived attributes must see the call)')
    f = _method(repo, 'constructor.FullConstructor', 'set_python_instance_state')
    inst = f.params[1]
    cfg = CFG(f.node)
    has = [t for t in cfg.nodes if t.kind == 'test' and M.match(M.compile_pattern("hasattr(_N_i, '__setstate__')")[1], t.ast,
                                                                  {'_N_i': ast.Name(id=inst, ctx=ast.Load())})]
    calls = [x for x in cfg.nodes if x.ast is not None and any(
        isinstance(y, ast.Call) and isinstance(y.func, ast.Attribute) and y.func.attr == '__setstate__' for y in own_exprs(x))]
    if not has or not calls:
        raise AnalysisError('set_python_instance_state: __setstate__ protocol not found')
    # every normal path from the entry either passes the call or leaves through the "no __setstate__" edge
    r = cfg.reach([cfg.entry], blocked=calls, blocked_edges=[(t, False) for t in has], follow_exc=False)
    if any(x in r for x in cfg.normal_exits()):
        rule.fail('%s|setstate-skipped' % f.qualname, f.module.rel, f.node.lineno, f.qualname, 'instance.__setstate__(state)',
                  'an instance that defines __setstate__ can leave set_python_instance_state without the call (e.g. when the state is '
                  'empty): pickle calls __setstate__({}) in that case, so an object that rebuilds derived attributes there comes back '
                  'bare')
    else:
        rule.ok(f.loc(), '__setstate__ is called on every path for instances that have it')
    return rule


# --------------------------------------------------------------------------------------------- R-TWO-PHASE-KEPT
def r_two_phase_kept(ctx, repo):
    """two places where the laziness of two-phase construction can be lost outside the constructors themselves."""
    rule = ctx.rule('R-TWO-PHASE-KEPT', 'YAMLObject.from_yaml hands the two-step constructor\'s generator back unconsumed, and '
                                        'construct_document drains postponed generators with deep construction off')
    init = repo.modules['__init__']
    yo = init.classes.get('YAMLObject')
    fy = yo.methods.get('from_yaml') if yo else None
    if fy is None:
        raise AnalysisError('YAMLObject.from_yaml has vanished')
    rets = [n for n in walk_function(fy.node) if isinstance(n, ast.Return)]
    drains = [n for n in walk_function(fy.node) if (isinstance(n, ast.Call) and norm(n.func) in ('next', 'list', 'tuple'))
              or isinstance(n, (ast.For, ast.YieldFrom, ast.Yield))]
    good = len(rets) >= 1 and all(isinstance(r.value, ast.Call) and isinstance(r.value.func, ast.Attribute)
                                  and r.value.func.attr == 'construct_yaml_object' for r in rets) and not drains
    if good:
        rule.ok(fy.loc(), 'from_yaml returns loader.construct_yaml_object(...) as it is')
    else:
        rule.fail('%s|drained' % fy.qualname, fy.module.rel, fy.node.lineno, fy.qualname, 'return loader.construct_yaml_object(node, cls)',
                  'from_yaml does not return the generator of construct_yaml_object unconsumed: the object\'s state is then built '
                  'before the object is registered for its node, so a YAMLObject that refers to itself (directly or through another '
                  'object) is rejected as an unconstructable recursive node')
    cd = repo.func('constructor.BaseConstructor.construct_document')
    bad = [n for n in walk_function(cd.node) if isinstance(n, ast.Assign) and any(norm(t) == 'self.deep_construct' for t in n.targets)
           and not (isinstance(n.value, ast.Constant) and n.value.value is False)]
    if bad:
        rule.fail('%s|deep' % cd.qualname, cd.module.rel, bad[0].lineno, cd.qualname, norm(bad[0]),
                  'construct_document switches deep construction on: postponed containers are then filled before they are cached, so '
                  'every cycle that does not start at the document root is rejected')
    else:
        rule.ok(cd.loc(), 'construct_document never enables deep construction')
    return rule


# --------------------------------------------------------------------------------------------- R-ALIAS-KEY-FRESH
def r_alias_key_fresh(ctx, repo):
    rule = ctx.rule('R-ALIAS-KEY-FRESH', 'a node is registered in represented_objects under self.alias_key only while that key still '
                                         'belongs to the object being represented: no representer may have run in between (represent_data '
                                         'of a child overwrites self.alias_key)')
    n = 0
    for f in repo.all_functions(['representer']):
        if f.cls is None:
            continue
        cfg = None
        stores = [x for x in walk_function(f.node) if isinstance(x, ast.Assign) and any(
            isinstance(t, ast.Subscript) and norm(t.value) == 'self.represented_objects' and norm(t.slice) == 'self.alias_key'
            for t in x.targets)]
        if not stores:
            continue
        cfg = CFG(f.node)
        reenter = [x for x in cfg.nodes if x.ast is not None and any(
            isinstance(y, ast.Call) and ((isinstance(y.func, ast.Attribute) and y.func.attr in ('represent_data',)) or
                                         (isinstance(y.func, ast.Subscript) and 'representers' in norm(y.func.value)))
            for y in own_exprs(x))]
        rekey = [x for x in cfg.nodes if x.kind == 'stmt' and isinstance(x.ast, ast.Assign) and any(
            norm(t) == 'self.alias_key' for t in x.ast.targets)]
        for s in stores:
            n += 1
            nodes = cfg.nodes_of(s)
            stale = False
            for r in reenter:
                after = cfg.reach([m for (m, lab) in cfg.succ[r]], blocked=rekey)
                if any(x in after for x in nodes):
                    stale = True
            if stale:
                rule.fail('%s|stale-alias-key' % f.qualname, f.module.rel, s.lineno, f.qualname, norm(s)[:70],
                          'the node is stored under self.alias_key after a representer has run: by then self.alias_key is the key of '
                          'the last object represented inside (a child), so a later reference to that child is written as an alias of '
                          'this container')
            else:
                rule.ok(f.loc(s), '%s registers its node before any child is represented' % f.name)
    rule.require_min(3, 'alias registrations')
    return rule


# --------------------------------------------------------------------------------------------- R-NO-GENERATOR-AROUND-CALLBACK
def r_no_generator_around_callback(ctx, repo):
    """PEP 479: a StopIteration that leaves a generator frame is replaced by RuntimeError.  Every generator function and
    generator expression of the package from inside which caller-supplied code can run therefore changes one particular
    exception of the caller's code on its way out."""
    from . import rules_fault as RF
    rule = ctx.rule('R-NO-GENERATOR-AROUND-CALLBACK', 'no generator frame of the package (generator function or generator expression) '
                                                      'lies between caller-supplied code and the caller: a StopIteration raised by '
                                                      'the caller\'s constructor / representer / stream would arrive as RuntimeError')
    g = RF.NameGraph(repo)
    n = 0
    for f in repo.all_functions():
        if f.module.kind != 'py':
            continue
        frames = []
        if f.is_generator:
            frames.append((f.node, None, 'generator function %s' % f.qualname))
        for x in walk_function(f.node):
            if isinstance(x, ast.GeneratorExp):
                frames.append((x, [x.elt] + [c for gen in x.generators for c in [gen.iter] + list(gen.ifs)],
                               'generator expression in %s' % f.qualname))
        for node, parts, what in frames:
            n += 1
            reach = g.may_reach_supplied(f, nodes=[ast.Expr(value=p) for p in parts] if parts is not None else None)
            if reach is None:
                rule.ok(f.loc(node), '%s runs no caller-supplied code' % what)
                continue
            kind = 'genexp' if parts is not None else 'genfunc'
            rule.fail('%s|%s' % (f.qualname, kind), f.module.rel, getattr(node, 'lineno', f.node.lineno), f.qualname,
                      what, '%s can run caller-supplied code (%s, via %s): a StopIteration raised there leaves through this generator '
                      'frame and reaches the caller as RuntimeError("generator raised StopIteration") instead of unchanged'
                      % (what, reach[0], ' -> '.join(reach[1][:4])),
                      inp='a constructor registered with add_constructor that raises StopIteration, used below a sequence / mapping')
    rule.require_min(8, 'generator frames')
    return rule


# --------------------------------------------------------------------------------------------- R-PLAIN-START-CONSUMED
def r_plain_start_consumed(ctx, repo):
    """sibling agreement inside the scanner: whenever check_plain() says "a plain scalar starts here", scan_plain() consumes at
    least the first character.  Otherwise fetch_plain appends an empty token without moving and the scanner never ends."""
    rule = ctx.rule('R-PLAIN-START-CONSUMED', 'for every (current character, next character, flow/block context) for which check_plain '
                                              'accepts, the first iteration of scan_plain\'s character loop does not stop at length 0 '
                                              '(the scalar consumes input): no empty plain token can be produced without progress')
    cp = _method(repo, 'scanner.Scanner', 'check_plain')
    sp = _method(repo, 'scanner.Scanner', 'scan_plain')
    if not any(isinstance(n, ast.Return) and n.value is not None for n in walk_function(cp.node)):
        raise AnalysisError('check_plain: no returned condition')
    cp_cfg = CFG(cp.node)
    # the stop test of scan_plain's innermost character loop: an `if <test>: break` whose test reads the loop's character
    stop = None
    chv = None
    for loop in [n for n in walk_function(sp.node) if isinstance(n, ast.While)]:
        inner = [s for s in loop.body if isinstance(s, ast.While)]
        if inner:
            continue
        for s in loop.body:
            if isinstance(s, ast.Assign) and isinstance(s.value, ast.Call) and norm(s.value.func).endswith('.peek') \
                    and isinstance(s.targets[0], ast.Name):
                chv = s.targets[0].id
        for s in loop.body:
            if isinstance(s, ast.If) and any(isinstance(b, ast.Break) for b in s.body) and chv and \
                    any(isinstance(x, ast.Name) and x.id == chv for x in ast.walk(s.test)):
                stop = s.test
        if stop is not None:
            break
    if stop is None:
        raise AnalysisError('scan_plain: the stop test of the character loop was not found')

    def concretise(expr, ch, nxt, flow, locals_):
        """expr with peek()/peek(0)/peek(length) -> ch, peek(1)/peek(length+1) -> nxt, flow_level -> flow, locals expanded."""
        class T(ast.NodeTransformer):
            def visit_Call(self, node):
                if isinstance(node.func, ast.Attribute) and node.func.attr == 'peek':
                    if not node.args:
                        return ast.Constant(ch)
                    a = node.args[0]
                    txt = norm(a)
                    if isinstance(a, ast.Constant):
                        return ast.Constant(ch if a.value == 0 else nxt if a.value == 1 else '\0')
                    if isinstance(a, ast.Name):
                        return ast.Constant(ch)               # peek(length) at length == 0
                    if isinstance(a, ast.BinOp) and isinstance(a.op, ast.Add) and '1' in txt:
                        return ast.Constant(nxt)
                self.generic_visit(node)
                return node

            def visit_Attribute(self, node):
                if node.attr == 'flow_level':
                    return ast.Constant(flow)
                self.generic_visit(node)
                return node

            def visit_Name(self, node):
                if node.id in locals_ and isinstance(node.ctx, ast.Load):
                    return self.visit(_plain_copy(locals_[node.id]))
                return node
        return ast.fix_missing_locations(T().visit(_plain_copy(expr)))
    def accepts(ch, nxt, flow):
        """the answer of check_plain for the current character ch, the next character nxt and the flow level: the function
        is executed on its CFG (locals hold the concretised expressions assigned to them, every atomic test is evaluated,
        the first return reached gives the answer), so one returned condition, guard-clause returns and a result variable
        all read the same.  None: not decidable."""
        env = {}
        node = cp_cfg.entry
        for _ in range(4 * len(cp_cfg.nodes) + 8):
            if node in (cp_cfg.exit_fall, cp_cfg.exit_return):
                return False                    # falls off the end: None
            if node.kind == 'return':
                if node.ast.value is None:
                    return False
                return CW.eval_cond(repo, concretise(node.ast.value, ch, nxt, flow, env), {})
            if node.kind == 'test':
                v = CW.eval_cond(repo, concretise(node.ast, ch, nxt, flow, env), {})
                if v is None:
                    return None
                nxts = [m for (m, lab) in cp_cfg.succ[node] if lab is v]
            elif node.kind == 'stmt':
                a = node.ast
                if isinstance(a, ast.Assign) and all(isinstance(t, ast.Name) for t in a.targets):
                    val = concretise(a.value, ch, nxt, flow, env)
                    for t in a.targets:
                        env[t.id] = val
                elif not (isinstance(a, ast.Pass) or (isinstance(a, ast.Expr) and isinstance(a.value, ast.Constant))):
                    raise AnalysisError('check_plain: statement not understood: %s' % norm(a).split('\n')[0][:60])
                nxts = [m for (m, lab) in cp_cfg.succ[node] if lab != 'exc']
            elif node.kind == 'entry':
                nxts = [m for (m, lab) in cp_cfg.succ[node]]
            else:
                raise AnalysisError('check_plain: control flow not understood (%s at line %d)' % (node.kind, node.lineno))
            if len(nxts) != 1:
                raise AnalysisError('check_plain: control flow not understood at line %d' % node.lineno)
            node = nxts[0]
        raise AnalysisError('check_plain: no answer reached (loop?)')
    probes = sorted(set(CW.representative_chars(repo, 'scanner')))
    nexts = ['a', ' ', '\n', '\0', ',', ']', '}', ':', '?', '-', '#']
    bad = []
    n = 0
    for flow in (0, 1):
        for ch in probes:
            for nxt in nexts:
                acc = accepts(ch, nxt, flow)
                if acc is not True:
                    continue
                n += 1
                st = CW.eval_cond(repo, concretise(stop, ch, nxt, flow, {chv: ast.Constant(ch)}), {})
                if st is not False:
                    bad.append((ch, nxt, flow))
    if n < 50:
        raise AnalysisError('R-PLAIN-START-CONSUMED: only %d accepted combinations evaluated' % n)
    if bad:
        ch, nxt, flow = bad[0]
        rule.fail('%s|no-progress|%s' % (sp.qualname, ''.join(sorted({b[0] for b in bad}))[:8]), sp.module.rel, sp.node.lineno, sp.qualname,
                  norm(stop)[:80],
                  'check_plain accepts %r followed by %r in %s context, but scan_plain stops before consuming it: fetch_plain appends '
                  'an empty scalar token without moving, so the scanner produces tokens for ever (scan / parse / compose hang); '
                  '%d such combinations' % (ch, nxt, 'flow' if flow else 'block', len(bad)), inp='[%s%s]' % (ch, nxt))
    else:
        rule.ok(sp.loc(), 'every start accepted by check_plain is consumed by scan_plain (%d combinations)' % n)
    return rule


# --------------------------------------------------------------------------------------------- R-FOLD-LEADING-SPACE
def r_fold_leading_space(ctx, repo):
    """after a fold inside a double-quoted scalar the continuation line must not begin with a bare space (the scanner strips
    leading white space of continuation lines): the writer protects it with a backslash.  The character to test is the *next
    unwritten* one - the text at the write cursor - not the character at the scan position."""
    rule = ctx.rule('R-FOLD-LEADING-SPACE', 'in write_double_quoted the test that protects a space at the beginning of a continuation line '
                                            'looks at the text at the write cursor (the lower bound of the slices that are written), '
                                            'i.e. at the first character the continuation line will receive')
    f = _method(repo, 'emitter.Emitter', 'write_double_quoted')
    text = f.params[1]
    # write cursors: names used as lower bound of slices text[S:E] whose value is written
    cursors = {n.slice.lower.id for n in walk_function(f.node)
               if isinstance(n, ast.Subscript) and isinstance(n.value, ast.Name) and n.value.id == text
               and isinstance(n.slice, ast.Slice) and isinstance(n.slice.lower, ast.Name)}
    if not cursors:
        raise AnalysisError('write_double_quoted: write cursor not found')
    # the protection: an `if <x> == ' ':` whose body produces the lone backslash, after a write_indent() in the same block
    sites = []
    for n in walk_function(f.node):
        body = getattr(n, 'body', None)
        if not isinstance(body, list):
            continue
        seen_indent = False
        for s in body:
            if isinstance(s, ast.Expr) and isinstance(s.value, ast.Call) and norm(s.value.func).endswith('write_indent'):
                seen_indent = True
            if seen_indent and isinstance(s, ast.If) and any(isinstance(x, ast.Constant) and x.value == '\\' for b in s.body for x in ast.walk(b)):
                sites.append(s)
    if not sites:
        raise AnalysisError('write_double_quoted: leading-space protection after the fold not found')
    for s in sites:
        ok = False
        subject = None
        for c in A.conjuncts(s.test):
            if isinstance(c, ast.Compare) and len(c.ops) == 1 and isinstance(c.ops[0], ast.Eq):
                sides = [c.left, c.comparators[0]]
                if any(isinstance(x, ast.Constant) and x.value == ' ' for x in sides):
                    subject = [x for x in sides if not isinstance(x, ast.Constant)][0]
                    if isinstance(subject, ast.Subscript) and isinstance(subject.value, ast.Name) and subject.value.id == text \
                            and isinstance(subject.slice, ast.Name) and subject.slice.id in cursors:
                        ok = True
        if ok:
            rule.ok(f.loc(s), 'protection tests %s[<write cursor>]' % text)
        else:
            rule.fail('%s|fold-space' % f.qualname, f.module.rel, s.lineno, f.qualname, norm(s.test)[:70],
                      'the leading-space protection after a fold tests %s instead of the text at the write cursor: when the fold follows '
                      'an escape sequence the scan position is already past the escaped character, so a space that comes next is written '
                      'bare at the start of the continuation line and the scanner drops it'
                      % (norm(subject) if subject is not None else 'something else'))
    return rule
