"""Confirm seeded changes delivered by sub-agents and file them under /verif/seeded/.

    python -m sa.seedconfirm <PROP> <worktree> [--prefix name]

For each <worktree>/seeds/<i>/: apply patch.diff on the clean worktree, run the repository's test suite
(must pass), run demo.py (must fail), revert, run demo.py (must pass).  Confirmed seeds are copied to
/verif/seeded/<PROP>-<i>/ with a meta.json recording what was run.
"""
import json
import os
import shutil
import subprocess
import sys

VERIF = os.path.dirname(os.path.dirname(os.path.abspath(__file__)))


def sh(cmd, cwd, env=None, timeout=900):
    p = subprocess.run(cmd, cwd=cwd, env=env, shell=True, capture_output=True, text=True, timeout=timeout)
    return p.returncode, (p.stdout + p.stderr)


def main(argv):
    prop, wt = argv[0], argv[1]
    env = dict(os.environ, PYTHONPATH=os.path.join(wt, 'lib'))
    seeds = os.path.join(wt, 'seeds')
    out = []
    for name in sorted(os.listdir(seeds)):
        d = os.path.join(seeds, name)
        patch = os.path.join(d, 'patch.diff')
        demo = os.path.join(d, 'demo.py')
        if not (os.path.exists(patch) and os.path.exists(demo)):
            continue
        sh('git checkout -- . && git clean -fdq -e seeds', wt)
        rec = {'property': prop, 'seed': name}
        c, o = sh('/venv/bin/python %s' % demo, wt, env)
        rec['demo_on_original_exit'] = c
        c, o = sh('git apply %s' % patch, wt)
        rec['apply_exit'] = c
        if c != 0:
            rec['error'] = o[-500:]
            out.append(rec)
            continue
        c, o = sh('/venv/bin/python -m pytest -q -p no:cacheprovider -x 2>&1 | tail -3', wt, env)
        rec['suite_tail'] = o.strip().split('\n')[-1]
        rec['suite_passes'] = ('passed' in rec['suite_tail'] and 'failed' not in rec['suite_tail'])
        c, o = sh('/venv/bin/python %s' % demo, wt, env)
        rec['demo_on_changed_exit'] = c
        rec['demo_on_changed_tail'] = o.strip()[-400:]
        c, o = sh('git diff --stat', wt)
        rec['diffstat'] = o.strip()
        sh('git checkout -- .', wt)
        ok = rec['demo_on_original_exit'] == 0 and rec['suite_passes'] and rec['demo_on_changed_exit'] != 0
        rec['confirmed'] = ok
        if ok:
            dst = os.path.join(VERIF, 'seeded', '%s-%s' % (prop, name))
            os.makedirs(dst, exist_ok=True)
            for fn in ('patch.diff', 'demo.py', 'notes.md'):
                if os.path.exists(os.path.join(d, fn)):
                    shutil.copy(os.path.join(d, fn), os.path.join(dst, fn))
            notes = ''
            if os.path.exists(os.path.join(d, 'notes.md')):
                notes = open(os.path.join(d, 'notes.md'), encoding='utf-8').read()
            meta = {
                'property': prop,
                'origin': 'independent sub-agent given only the property record and a scratch worktree',
                'needs_to_manifest': notes[:1500],
                'confirmed_by': 'sa.seedconfirm: patch applied on a clean scratch worktree of /repo HEAD; '
                                'repository test suite run (passes); demo.py run with the change (fails) and '
                                'without it (passes)',
                'what_i_ran': {
                    'suite': 'cd <worktree> && PYTHONPATH=<worktree>/lib /venv/bin/python -m pytest -q -p no:cacheprovider -x',
                    'suite_result_with_change': rec['suite_tail'],
                    'demo_exit_without_change': rec['demo_on_original_exit'],
                    'demo_exit_with_change': rec['demo_on_changed_exit'],
                    'demo_output_with_change': rec['demo_on_changed_tail'],
                },
                'files_changed': rec['diffstat'],
            }
            with open(os.path.join(dst, 'meta.json'), 'w', encoding='utf-8') as f:
                json.dump(meta, f, indent=1)
        out.append(rec)
    for r in out:
        print(json.dumps({k: v for k, v in r.items() if k not in ('demo_on_changed_tail',)}))
    return 0


if __name__ == '__main__':
    sys.exit(main(sys.argv[1:]))
