"""C08: plain scalars are typed exactly by the YAML 1.1 rules - regular-language obligations with witnesses."""
import ast
import re
import re._parser as sre_parse
import re._constants as SC

from . import astutil as A
from . import relang as RL
from . import rules_registry as RR
from . import strabs as SA
from .srcmodel import AnalysisError, FuncInfo, norm, walk_function

CORE = 'tag:yaml.org,2002:'

# YAML 1.1 type repository (yaml.org/type), with PyYAML's two documented deviations: booleans without the single letters
# y/Y/n/N, and floats that require a dot (and a signed exponent).  These are the reference languages of O-REFERENCE.
REFERENCE = {
    'bool': r'^(?:yes|Yes|YES|no|No|NO|true|True|TRUE|false|False|FALSE|on|On|ON|off|Off|OFF)$',
    'float': r'^(?:[-+]?(?:[0-9][0-9_]*)\.[0-9_]*(?:[eE][-+][0-9]+)?|\.[0-9][0-9_]*(?:[eE][-+][0-9]+)?'
             r'|[-+]?[0-9][0-9_]*(?::[0-5]?[0-9])+\.[0-9_]*|[-+]?\.(?:inf|Inf|INF)|\.(?:nan|NaN|NAN))$',
    'int': r'^(?:[-+]?0b[0-1_]+|[-+]?0[0-7_]+|[-+]?(?:0|[1-9][0-9_]*)|[-+]?0x[0-9a-fA-F_]+|[-+]?[1-9][0-9_]*(?::[0-5]?[0-9])+)$',
    'merge': r'^(?:<<)$',
    'null': r'^(?:~|null|Null|NULL|)$',
    'timestamp': r'^(?:[0-9][0-9][0-9][0-9]-[0-9][0-9]-[0-9][0-9]'
                 r'|[0-9][0-9][0-9][0-9]-[0-9][0-9]?-[0-9][0-9]?(?:[Tt]|[ \t]+)[0-9][0-9]?:[0-9][0-9]:[0-9][0-9](?:\.[0-9]*)?'
                 r'(?:[ \t]*(?:Z|[-+][0-9][0-9]?(?::[0-9][0-9])?))?)$',
    'value': r'^(?:=)$',
}

# domains of the CPython conversions (documented grammar of int() / float(), without surrounding whitespace)
DOMAINS = {
    'int10': r'^[-+]?[0-9]+(?:_[0-9]+)*$',
    'int2': r'^[-+]?(?:0[bB]_?)?[01]+(?:_[01]+)*$',
    'int8': r'^[-+]?(?:0[oO]_?)?[0-7]+(?:_[0-7]+)*$',
    'int16': r'^[-+]?(?:0[xX]_?)?[0-9a-fA-F]+(?:_[0-9a-fA-F]+)*$',
    'float': r'^[-+]?(?:(?:[0-9]+(?:_[0-9]+)*\.?(?:[0-9]+(?:_[0-9]+)*)?|\.[0-9]+(?:_[0-9]+)*)(?:[eE][-+]?[0-9]+(?:_[0-9]+)*)?'
             r'|[iI][nN][fF](?:[iI][nN][iI][tT][yY])?|[nN][aA][nN])$',
}

# documented output languages of CPython (trusted models)
MODELS = {
    'str(int)': r'^-?(?:0|[1-9][0-9]*)$',
    'repr(finite float)': r'^-?(?:[0-9]+\.[0-9]+|[0-9](?:\.[0-9]+)?e[-+][0-9]+)$',
    'date.isoformat()': r'^[0-9]{4}-[0-9]{2}-[0-9]{2}$',
    "datetime.isoformat(' ')": r'^[0-9]{4}-[0-9]{2}-[0-9]{2} [0-9]{2}:[0-9]{2}:[0-9]{2}(?:\.[0-9]{6})?'
                               r'(?:[-+][0-9]{2}:[0-9]{2}(?::[0-9]{2}(?:\.[0-9]{6})?)?)?$',
}

TS_FIELD_DOMAINS = {
    'year': (r'^(?:[0-9]{3}[1-9]|[0-9]{2}[1-9][0-9]|[0-9][1-9][0-9]{2}|[1-9][0-9]{3})$', 'datetime needs 1 <= year <= 9999'),
    'month': (r'^(?:0?[1-9]|1[0-2])$', '1 <= month <= 12'),
    'day': (r'^(?:0?[1-9]|[12][0-9]|3[01])$', '1 <= day <= 31'),
    'hour': (r'^(?:[01]?[0-9]|2[0-3])$', 'hour <= 23'),
    'minute': (r'^[0-5][0-9]$', 'minute <= 59'),
    'second': (r'^[0-5][0-9]$', 'second <= 59'),
    'tz_hour': (r'^(?:[01]?[0-9]|2[0-3])$', '|utc offset| < 24 h'),
}


class Langs:
    def __init__(self, repo):
        self.repo = repo
        rm = RR.model(repo)
        self.regs = [x for x in rm.registrations if x.writer.registry.name == 'yaml_implicit_resolvers'
                     and x.cls.qualname == 'resolver.Resolver']
        if len(self.regs) < 7:
            raise AnalysisError('only %d implicit resolver registrations on Resolver (8 confirmed)' % len(self.regs))
        self.patterns = {}
        pts = set()
        for x in self.regs:
            call = x.extra['regexp']
            if not (isinstance(call, ast.Call) and norm(call.func) == 're.compile' and call.args):
                raise AnalysisError('%s:%d: resolver regexp is not a re.compile literal' % (x.module.rel, x.stmt.lineno))
            pat = A.fold_str(call.args[0], x.module)
            flags = self._flags(call)
            if pat is None:
                raise AnalysisError('%s:%d: resolver pattern is not a literal' % (x.module.rel, x.stmt.lineno))
            self.patterns[x.extra['tag']] = (pat, flags, x)
            pts |= RL.points_of(pat, flags)
        S = repo.cls('constructor.SafeConstructor')
        tsv = S.attrs.get('timestamp_regexp')
        if not tsv or not isinstance(tsv[-1], ast.Call):
            raise AnalysisError('SafeConstructor.timestamp_regexp has vanished')
        self.ts_pat = A.fold_str(tsv[-1].args[0], S.module)
        self.ts_flags = self._flags(tsv[-1])
        self.ts_node = tsv[-1]
        pts |= RL.points_of(self.ts_pat, self.ts_flags)
        for p in list(REFERENCE.values()) + list(DOMAINS.values()) + list(MODELS.values()):
            pts |= RL.points_of(p)
        self.alpha = RL.Alphabet(pts)
        self.resolve_mode = self._apply_mode(repo.cls('resolver.BaseResolver').methods['resolve'], None)
        self.ts_mode = self._apply_mode(S.methods['construct_yaml_timestamp'], 'timestamp_regexp')
        self.dfa = {tag: RL.compile_regex(self.alpha, p, f, mode=self.resolve_mode) for tag, (p, f, x) in self.patterns.items()}
        self.ts_ctor = RL.compile_regex(self.alpha, self.ts_pat, self.ts_flags, mode=self.ts_mode)
        self.domains = {k: RL.compile_regex(self.alpha, v) for k, v in DOMAINS.items()}
        self.models = {k: RL.compile_regex(self.alpha, v) for k, v in MODELS.items()}

    @staticmethod
    def _apply_mode(f, attr):
        """which `re` method applies the compiled pattern (match / fullmatch / search): it decides which ends are anchored."""
        modes = set()
        for c in A.func_calls(f.node):
            if isinstance(c.func, ast.Attribute) and c.func.attr in ('match', 'fullmatch', 'search') and len(c.args) == 1:
                if attr is None or any(isinstance(x, ast.Attribute) and x.attr == attr for x in ast.walk(c.func.value)):
                    modes.add(c.func.attr)
        if len(modes) != 1:
            raise AnalysisError('%s: how the pattern is applied (match / fullmatch / search) is not a single call: %s'
                                % (f.qualname, sorted(modes)))
        return modes.pop()

    @staticmethod
    def _flags(call):
        flags = 0
        for a in call.args[1:]:
            t = norm(a)
            for name in t.replace('|', ' ').split():
                nm = name.split('.')[-1]
                if nm in ('X', 'VERBOSE'):
                    flags |= re.X
                elif nm in ('I', 'IGNORECASE'):
                    flags |= re.I
                elif nm in ('S', 'DOTALL'):
                    flags |= re.S
                elif nm in ('M', 'MULTILINE'):
                    raise AnalysisError('re.MULTILINE changes the meaning of the anchors: not supported')
                else:
                    raise AnalysisError('regex flag %s not understood' % t)
        return flags

    def tag(self, short):
        d = self.dfa.get(CORE + short)
        if d is None:
            raise AnalysisError('no implicit resolver registered for !!%s' % short)
        return d


def langs(repo):
    if not hasattr(repo, '_langs'):
        repo._langs = Langs(repo)
    return repo._langs


def _w(w):
    return repr(w) if w is not None else None


def known_scope(ctx, rule_id, key):
    """regex delimiting the counterexamples a listed known finding covers (known_findings.json, read-only)."""
    from .report import load_known
    for k in load_known():
        if k.get('status') == 'known' and k.get('property') == ctx.prop and k.get('rule') == rule_id and k.get('key') == key:
            return k.get('scope')
    return None


def beyond_known(ctx, L, rule_id, key, bad_lang):
    """(key to report, witness): if counterexamples exist outside the scope of the listed finding, they form a new violation."""
    sc = known_scope(ctx, rule_id, key)
    if sc is None:
        return key, bad_lang.shortest()
    S = RL.compile_regex(L.alpha, sc)
    rest = RL.difference(bad_lang, S)
    w = rest.shortest()
    if w is None:
        return key, bad_lang.shortest()
    return key + '|beyond-known', w


def o_first(ctx, repo):
    L = langs(repo)
    rule = ctx.rule('O-FIRST', 'for every implicit resolver registration the first-character set of its language is contained in its '
                               '`first` list (\'\' iff the empty string is in the language): no string the rule types is withheld from it')
    for tag, (pat, flags, x) in L.patterns.items():
        d = L.dfa[tag]
        first = x.extra['first']
        fc = d.first_atoms()
        where = '%s:%d' % (x.module.rel, x.stmt.lineno)
        if first is None:
            rule.ok(where, '!!%s registered as wildcard' % tag.split(':')[-1])
            continue
        listed = set()
        for ch in first:
            if ch is None:
                listed = None
                break
            if ch == '':
                continue
            listed.add(L.alpha.atom_of_char(ch))
        missing = [] if listed is None else sorted(L.alpha.rep(a) for a in fc - listed)
        need_empty = d.nullable() and '' not in first
        if missing or need_empty:
            wit = None
            if missing:
                wit = RL.intersect(d, RL.first_in(L.alpha, missing[0])).shortest()
            rule.fail('first|%s|%s' % (tag, ''.join(missing) + ('<empty>' if need_empty else '')), x.module.rel, x.stmt.lineno,
                      'resolver.Resolver', 'first=%r' % (first,),
                      'strings of the !!%s language can start with %s, which %s not in the registration\'s `first` list: e.g. %s is '
                      'never offered to this regular expression and is typed as a string'
                      % (tag.split(':')[-1], ', '.join(repr(m) for m in missing) or 'nothing (empty string)',
                         'are' if len(missing) != 1 else 'is', _w(wit if missing else '')), inp=wit)
        else:
            rule.ok(where, '!!%s: first characters %s all listed' % (tag.split(':')[-1], ''.join(sorted(d.first_chars()))))
    return rule


def o_disjoint(ctx, repo):
    L = langs(repo)
    rule = ctx.rule('O-DISJOINT', 'the languages of the implicit resolvers are pairwise disjoint: typing does not depend on registration order')
    tags = sorted(L.dfa)
    for i, a in enumerate(tags):
        for b in tags[i + 1:]:
            w = RL.intersect(L.dfa[a], L.dfa[b]).shortest()
            if w is None:
                rule.ok('lib/yaml/resolver.py', '!!%s and !!%s are disjoint' % (a.split(':')[-1], b.split(':')[-1]))
            else:
                x = L.patterns[b][2]
                rule.fail('overlap|%s|%s' % (a, b), x.module.rel, x.stmt.lineno, 'resolver.Resolver', 'add_implicit_resolver',
                          'the string %r matches both the !!%s and the !!%s rule: its type depends on the order of registration'
                          % (w, a.split(':')[-1], b.split(':')[-1]), inp=w)
    return rule


def o_reference(ctx, repo):
    L = langs(repo)
    rule = ctx.rule('O-REFERENCE', 'the language of each resolver equals the YAML 1.1 type-repository language for that tag (with the two '
                                   'documented deviations of PyYAML); compared as languages, not as text')
    for short, ref in REFERENCE.items():
        tag = CORE + short
        if tag not in L.dfa:
            rule.fail('reference|%s|missing' % short, 'lib/yaml/resolver.py', 1, 'resolver.Resolver', '!!%s' % short,
                      'no implicit resolver for !!%s' % short)
            continue
        R = RL.compile_regex(L.alpha, ref)
        d = L.dfa[tag]
        ok1, w1 = RL.included(d, R)
        ok2, w2 = RL.included(R, d)
        x = L.patterns[tag][2]
        if ok1 and ok2:
            rule.ok('%s:%d' % (x.module.rel, x.stmt.lineno), '!!%s language == reference (%d states)' % (short, d.nstates))
        else:
            rule.fail('reference|%s|%s' % (short, 'extra' if not ok1 else 'missing'), x.module.rel, x.stmt.lineno, 'resolver.Resolver',
                      '!!%s regular expression' % short,
                      'the !!%s rule %s: plain scalars with that spelling are typed differently from the YAML 1.1 rules'
                      % (short, ('accepts %s, which the type repository does not' % _w(w1)) if not ok1
                         else ('rejects %s, which the type repository types as %s' % (_w(w2), short))), inp=w1 if not ok1 else w2)
    return rule


def o_ts_inclusion(ctx, repo):
    L = langs(repo)
    rule = ctx.rule('O-TS-INCLUSION', 'every string the resolver types as timestamp is matched by the constructor\'s timestamp regex')
    ok, w = RL.included(L.tag('timestamp'), L.ts_ctor)
    if ok:
        rule.ok('lib/yaml/constructor.py:%d' % L.ts_node.lineno, 'L(resolver timestamp) subset of L(SafeConstructor.timestamp_regexp)')
    else:
        rule.fail('ts-inclusion', 'lib/yaml/constructor.py', L.ts_node.lineno, 'constructor.SafeConstructor', 'timestamp_regexp',
                  '%s is typed as timestamp by the resolver but does not match the constructor\'s regex: match is None and '
                  'construct_yaml_timestamp fails with AttributeError' % _w(w), inp=w)
    return rule


def o_bool_total(ctx, repo):
    L = langs(repo)
    rule = ctx.rule('O-BOOL-TOTAL', 'every word of the (finite) bool language, lower-cased, is a key of bool_values; '
                                    'the merge / value constants agree between resolver and constructor')
    S = repo.cls('constructor.SafeConstructor')
    bv = A.fold_value(S.attrs['bool_values'][-1], S.module) if 'bool_values' in S.attrs else None
    if not isinstance(bv, dict):
        raise AnalysisError('SafeConstructor.bool_values is not a literal dict')
    d = L.tag('bool')
    if not d.is_finite():
        rule.fail('bool|infinite', 'lib/yaml/resolver.py', 1, 'resolver.Resolver', '!!bool', 'the bool language is infinite')
        return rule
    f = repo.func('constructor.SafeConstructor.construct_yaml_bool')
    lowers = 'lower()' in norm(f.node)
    for w in sorted(d.words()):
        key = w.lower() if lowers else w
        if key in bv and isinstance(bv[key], bool):
            rule.ok(f.loc(), '%r -> %r' % (w, bv[key]))
        else:
            rule.fail('bool|%s' % w, f.module.rel, f.node.lineno, f.qualname, 'self.bool_values[...]',
                      'the resolver types %r as bool but construct_yaml_bool looks up %r, which is not in bool_values (KeyError)'
                      % (w, key), inp=w)
    # truth values agree with the YAML 1.1 meaning
    for k, v in bv.items():
        want = k in ('yes', 'true', 'on')
        if v is want:
            rule.ok(f.loc(), 'bool_values[%r] is %r' % (k, v))
        else:
            rule.fail('bool-value|%s' % k, f.module.rel, f.node.lineno, f.qualname, 'bool_values[%r] = %r' % (k, v),
                      'the word %r denotes %r in YAML 1.1' % (k, want), inp=k)
    # merge / value constants
    mods = norm(repo.func('constructor.SafeConstructor.flatten_mapping').node) + norm(
        repo.func('constructor.SafeConstructor.construct_scalar').node)
    for short, word in (('merge', '<<'), ('value', '=')):
        d = L.tag(short)
        if d.is_finite() and d.words() == [word] and ("'%s%s'" % (CORE, short)) in mods:
            rule.ok('lib/yaml/constructor.py', '%r <-> %s%s' % (word, CORE, short))
        else:
            rule.fail('const|%s' % short, 'lib/yaml/constructor.py', 1, 'constructor.SafeConstructor', short,
                      'the resolver language / constructor constant for !!%s disagree' % short)
    return rule


def o_converter_domain(ctx, repo):
    L = langs(repo)
    rule = ctx.rule('O-CONVERTER-DOMAIN', 'string abstract interpretation of construct_yaml_int / construct_yaml_float over the resolver '
                                          'language: at every int()/float()/[0] the language of the argument on that path is inside the '
                                          'operation\'s domain')
    for fname, short in (('construct_yaml_int', 'int'), ('construct_yaml_float', 'float')):
        f = repo.func('constructor.SafeConstructor.' + fname)
        node = f.params[1]
        interp = SA.StrInterp(L.alpha, L.domains, input_exprs=('self.construct_scalar(%s)' % node, '%s.value' % node),
                              input_lang=L.tag(short))
        A_parent(f.node)
        interp.run(f.node.body, {})
        seen = set()
        for ob in interp.obligations:
            key = (ob.node.lineno, norm(ob.node), ob.domain_name)
            if key in seen and ob.ok:
                continue
            seen.add(key)
            if ob.ok:
                rule.ok(f.loc(ob.node), '%s: argument language inside %s' % (norm(ob.node)[:40], ob.domain_name))
            else:
                key0 = 'converter|%s|%s|%s' % (fname, A.anon_text(ob.node, f.node, 40), ob.domain_name)
                if ob.kind == 'conversion':
                    key0, ob.witness = beyond_known(ctx, L, rule.id, key0, RL.difference(ob.lang, L.domains[ob.domain_name]))
                rule.fail(key0, f.module.rel, ob.node.lineno, f.qualname,
                          norm(ob.node)[:60],
                          'on some path the argument of %s can be %s, which is outside the domain of %s: a plain scalar that the '
                          'resolver types as !!%s makes the constructor raise %s'
                          % (norm(ob.node)[:40], _w(ob.witness), ob.domain_name, short,
                             'IndexError' if ob.kind == 'index' else 'ValueError'), inp=ob.witness)
        if interp.unknown_ops:
            e, why = interp.unknown_ops[0]
            rule.fail('converter|%s|unmodelled|%s' % (fname, A.anon_text(e, f.node, 40)), f.module.rel, e.lineno, f.qualname, norm(e)[:60],
                      'the converter applies a string operation the language analysis cannot follow (%s): nothing can be proved '
                      'about what reaches int()/float()' % why)
        if not interp.obligations:
            raise AnalysisError('%s: no conversion obligations found' % fname)
    # decimal int() has a length limit in CPython (sys.int_info.str_digits_check_threshold): the int language is unbounded
    d = RL.delete_char(L.tag('int'), '_')
    dec = RL.intersect(d, RL.compile_regex(L.alpha, r'^[-+]?[1-9][0-9]*$'))
    f = repo.func('constructor.SafeConstructor.construct_yaml_int')
    if dec.is_finite():
        rule.ok(f.loc(), 'decimal int language is bounded')
    else:
        rule.fail('converter|construct_yaml_int|int(_)|length', f.module.rel, f.node.lineno, f.qualname, 'int(value)',
                  'the decimal !!int language has no length bound, but CPython\'s int() refuses decimal strings longer than 4300 '
                  'digits with ValueError', inp='1' * 20 + '...(4301 digits)')
    return rule


def A_parent(tree):
    for p in ast.walk(tree):
        for c in ast.iter_child_nodes(p):
            if not hasattr(c, '_parent'):
                c._parent = p


def group_languages(alpha, pattern, flags):
    """{group name: DFA of the texts the group can capture} for a parsed pattern (syntactic: the sub-pattern's own language)."""
    parsed = sre_parse.parse(pattern, flags)
    names = {v: k for k, v in parsed.state.groupdict.items()}
    out = {}

    def walk(items):
        for op, av in items:
            if op is SC.SUBPATTERN:
                group, add, dele, p = av
                if group in names:
                    n = RL.NFA(alpha)
                    s = n.new()
                    e = RL._seq(n, list(p), s)
                    n.start = s
                    n.accept = {e}
                    out[names[group]] = RL.determinize(n)
                walk(p)
            elif op is SC.BRANCH:
                for alt in av[1]:
                    walk(alt)
            elif op in (SC.MAX_REPEAT, SC.MIN_REPEAT):
                walk(av[2])
    walk(parsed)
    return out


def o_ts_fields(ctx, repo):
    L = langs(repo)
    rule = ctx.rule('O-TS-FIELDS', 'the text each named group of the timestamp regex can capture lies in the domain of the datetime '
                                   'argument it becomes')
    groups = group_languages(L.alpha, L.ts_pat, L.ts_flags)
    f = repo.func('constructor.SafeConstructor.construct_yaml_timestamp')
    used = set(re.findall(r"values\['(\w+)'\]", norm(f.node)))
    for g, (dom, what) in TS_FIELD_DOMAINS.items():
        if g not in groups:
            if g in used:
                rule.fail('ts-field|%s|missing-group' % g, f.module.rel, f.node.lineno, f.qualname, "values['%s']" % g,
                          'construct_yaml_timestamp reads the group %r, which the regex does not define (KeyError)' % g)
            continue
        D = RL.compile_regex(L.alpha, dom)
        ok, w = RL.included(groups[g], D)
        if ok:
            rule.ok(f.loc(), 'group %s inside %s' % (g, what))
        else:
            key0, w = beyond_known(ctx, L, rule.id, 'ts-field|%s' % g, RL.difference(groups[g], D))
            rule.fail(key0, 'lib/yaml/constructor.py', L.ts_node.lineno, f.qualname, '(?P<%s>...)' % g,
                      'the group %s can capture %s but %s: such a plain scalar resolves to timestamp and then raises ValueError'
                      % (g, _w(w), what), inp=w)
    for g in used:
        if g not in groups:
            rule.fail('ts-field|%s|missing-group' % g, f.module.rel, f.node.lineno, f.qualname, "values['%s']" % g,
                      'construct_yaml_timestamp reads the group %r, which the regex does not define' % g)
    return rule


def o_dump_subset_load(ctx, repo):
    L = langs(repo)
    rule = ctx.rule('O-DUMP-SUBSET-LOAD', 'the text each safe scalar representer can write lies in the resolver language of the tag it '
                                          'declares (and, for timestamps, in the constructor\'s regex), so it reads back as the same type')
    R = repo.cls('representer.SafeRepresenter')
    specs = [
        ('represent_none', 'null', {}),
        ('represent_bool', 'bool', {}),
        ('represent_int', 'int', {'str(data)': 'str(int)'}),
        ('represent_float', 'float', {'repr(data)': 'repr(finite float)'}),
        ('represent_date', 'timestamp', {'data.isoformat()': 'date.isoformat()'}),
        ('represent_datetime', 'timestamp', {"data.isoformat(' ')": "datetime.isoformat(' ')"}),
    ]
    for fname, short, modelmap in specs:
        f = R.methods.get(fname)
        if f is None:
            raise AnalysisError('SafeRepresenter.%s has vanished' % fname)
        models = {k: L.models[v] for k, v in modelmap.items()}
        interp = SA.StrInterp(L.alpha, L.domains, models=models)
        A_parent(f.node)
        interp.run(f.node.body, {})
        if not interp.results:
            raise AnalysisError('%s: no represent_scalar result found' % fname)
        for st, tagexpr, lang in interp.results:
            tag = A.const_str(tagexpr)
            if tag != CORE + short:
                rule.fail('dump|%s|tag' % fname, f.module.rel, st.lineno, f.qualname, norm(tagexpr),
                          '%s declares the tag %s (expected %s%s)' % (fname, tag, CORE, short))
                continue
            if not isinstance(lang, RL.DFA):
                rule.fail('dump|%s|unknown-text' % fname, f.module.rel, st.lineno, f.qualname, norm(st)[:70],
                          'the text %s writes is computed by an expression the language analysis has no model for' % fname)
                continue
            target = L.ts_ctor if short == 'timestamp' else L.tag(short)
            ok, w = RL.included(lang, target)
            if ok:
                rule.ok(f.loc(st), '%s output language inside L(%s)' % (fname, 'constructor timestamp regex' if short == 'timestamp'
                                                                         else '!!' + short))
            else:
                extra = ''
                if interp.unknown_ops:
                    extra = ' (after %s, which the analysis cannot follow)' % interp.unknown_ops[0][1]
                key0 = 'dump|%s|%s' % (fname, 'unprovable' if interp.unknown_ops else 'outside')
                key0, w = beyond_known(ctx, L, rule.id, key0, RL.difference(lang, target))
                rule.fail(key0, f.module.rel, st.lineno, f.qualname,
                          norm(st)[:70],
                          '%s can write %s%s, which is not in the language the loader accepts for !!%s: the dumped value does not '
                          'read back' % (fname, _w(w), extra, short), inp=w)
    # the guards that keep non-finite floats out of the repr branch: for data = nan / +inf / -inf no path reaches repr(data)
    from .cfg import CFG, own_exprs
    f = R.methods.get('represent_float')
    if f is None:
        raise AnalysisError('SafeRepresenter.represent_float has vanished')
    dp = f.params[1]
    cfg = CFG(f.node)
    reprs = [n for n in cfg.nodes if n.ast is not None and any(
        isinstance(x, ast.Call) and norm(x.func) in ('repr', 'str', 'format') and x.args and isinstance(x.args[0], ast.Name)
        and x.args[0].id == dp for x in own_exprs(n))]
    if not reprs:
        raise AnalysisError('represent_float: the repr(data) branch was not found')

    def scenario(kind):
        def atom(node):
            if not (isinstance(node, ast.Compare) and len(node.ops) == 1):
                return None
            l, r, op = node.left, node.comparators[0], node.ops[0]
            if not isinstance(op, (ast.Eq, ast.NotEq)):
                return None
            ln, rn = norm(l), norm(r)
            val = None
            if ln == dp and rn == dp:
                val = (kind != 'nan')                      # nan != nan
            else:
                other = rn if ln == dp else ln if rn == dp else None
                if other is None:
                    return None
                if other.endswith('inf_value') and not other.startswith('-'):
                    val = (kind == '+inf')
                elif other.startswith('-') and other.endswith('inf_value'):
                    val = (kind == '-inf')
                elif other.endswith('nan_value'):
                    val = False
                else:
                    return None
            return val if isinstance(op, ast.Eq) else (not val)
        return atom
    leaks = []
    for kind in ('nan', '+inf', '-inf'):
        reach = A.cfg_reach_under(cfg, scenario(kind))
        if any(n in reach for n in reprs):
            leaks.append(kind)
    if not leaks:
        rule.ok(f.loc(), 'nan / +inf / -inf are written by their own branches')
    else:
        rule.fail('dump|represent_float|nonfinite', f.module.rel, f.node.lineno, f.qualname, 'repr(%s)' % dp,
                  'represent_float no longer diverts %s before using repr(): "inf"/"nan" are not in the !!float language'
                  % ' / '.join(leaks))
    return rule


def r_resolve_index(ctx, repo):
    """structural facts about BaseResolver.resolve and its two callers (matched on the AST with metavariables, so local
    names, helper extraction and branch spelling do not matter)."""
    from . import match as M
    rule = ctx.rule('R-RESOLVE-INDEX', 'BaseResolver.resolve consults the first-character list (\'\' for the empty string) and the wildcard '
                                       'list only under implicit[0], returns the first match; composers resolve only non-specific tags')
    f = repo.func('resolver.BaseResolver.resolve')
    if len(f.params) < 4:
        raise AnalysisError('BaseResolver.resolve: expected (self, kind, value, implicit)')
    kind, value, implicit = f.params[1:4]
    env = {'_N_k': ast.Name(id=kind, ctx=ast.Load()), '_N_v': ast.Name(id=value, ctx=ast.Load()),
           '_N_i': ast.Name(id=implicit, ctx=ast.Load())}
    reads = [n for n in walk_function(f.node) if isinstance(n, ast.Attribute) and n.attr == 'yaml_implicit_resolvers']
    if not reads:
        raise AnalysisError('BaseResolver.resolve no longer reads yaml_implicit_resolvers')

    def under_plain_guard(n):
        for iff, branch in A.guarding_ifs(n, f.node):
            if branch != 'body':
                continue
            cj = A.conjuncts(iff.test)
            if any(M.match(M.compile_pattern('_N_k is ScalarNode')[1], c, dict(env)) for c in cj) and \
                    any(M.match(M.compile_pattern('_N_i[0]')[1], c, dict(env)) for c in cj):
                return True
        return False
    # which key is looked up for an empty / a non-empty value: decided per scenario on the CFG (the key may be a constant, an
    # expression of the value, a local, or a conditional expression - whatever the spelling)
    from .cfg import CFG as _CFG2, reaching_defs as _rd, own_exprs as _own
    rcfg = _CFG2(f.node)

    def scenario_atom(empty):
        def atom(node):
            if M.match(M.compile_pattern("_N_v == ''")[1], node, dict(env)) or M.match(M.compile_pattern('not _N_v')[1], node, dict(env)):
                return empty
            if M.match(M.compile_pattern("_N_v != ''")[1], node, dict(env)) or (isinstance(node, ast.Name) and node.id == value):
                return not empty
            if M.match(M.compile_pattern('len(_N_v) == 0')[1], node, dict(env)):
                return empty
            return None
        return atom

    def key_kind(k, at, empty, depth=0):
        """'empty' / 'first' / 'none' / text for the key expression k evaluated in the scenario."""
        if depth > 5:
            return norm(k)
        if isinstance(k, ast.Constant):
            return 'empty' if k.value == '' else 'none' if k.value is None else repr(k.value)
        if M.match(M.compile_pattern('_N_v[0]')[1], k, dict(env)) or M.match(M.compile_pattern('_N_v[:1]')[1], k, dict(env)):
            return 'first'
        if isinstance(k, ast.IfExp):
            v = A.eval3(k.test, scenario_atom(empty))
            if v is None:
                return norm(k)
            return key_kind(k.body if v else k.orelse, at, empty, depth + 1)
        if isinstance(k, ast.Name):
            defs = _rd(rcfg, k.id).get(at, set())
            reach = A.cfg_reach_under(rcfg, scenario_atom(empty))
            kinds = {key_kind(d.ast.value, d, empty, depth + 1) for d in defs
                     if d in reach and isinstance(d.ast, ast.Assign) and len(d.ast.targets) == 1}
            if len(kinds) == 1:
                return kinds.pop()
            return norm(k)
        return norm(k)
    keys = set()
    per_scenario = {True: set(), False: set()}
    for c, e in M.find(f.node, 'self.yaml_implicit_resolvers.get(__key, ...)', env):
        nodes = [n for n in rcfg.nodes if n.ast is not None and any(y is c for y in _own(n))]
        for empty in (True, False):
            reach = A.cfg_reach_under(rcfg, scenario_atom(empty))
            for n in nodes:
                if n in reach:
                    per_scenario[empty].add(key_kind(e['__key'], n, empty))
    keys = {'None'} if 'none' in (per_scenario[True] | per_scenario[False]) else set()
    empty_guard = (per_scenario[True] - {'none'}) == {'empty'}
    first_guard = (per_scenario[False] - {'none'}) == {'first'}
    if empty_guard:
        keys.add("''")
    if first_guard:
        keys.add('value[0]')
    loop = M.find(f.node, 'for (__t, __r) in __lists:\n    if __r.match(_N_v):\n        return __t', env)
    order_ok = False
    for n, e in loop:
        lists = e['__lists']
        # first-character list before the wildcard list
        names = [x.id for x in ast.walk(lists) if isinstance(x, ast.Name)]
        defs = {}
        for a in walk_function(f.node):
            if isinstance(a, ast.Assign) and len(a.targets) == 1 and isinstance(a.targets[0], ast.Name):
                defs.setdefault(a.targets[0].id, []).append(a.value)
        seq = []
        for nm in names:
            txt = ' '.join(norm(v) for v in defs.get(nm, []))
            seq.append('wild' if '.get(None' in txt else 'first' if 'yaml_implicit_resolvers' in txt else '?')
        if isinstance(lists, ast.BinOp) and seq[:2] == ['first', 'wild']:
            order_ok = True
    default = [n for n, e in M.find(f.node, "if _N_k is ScalarNode:\n    return 'tag:yaml.org,2002:str'", env)]
    facts = [
        (all(under_plain_guard(n) for n in reads), 'implicit resolution only for plain scalars (implicit[0])'),
        ("''" in keys and empty_guard, "the empty string uses the '' list"),
        ('value[0]' in keys and first_guard, 'non-empty strings use the list of their first character'),
        ('None' in keys, 'wildcard list consulted'),
        (bool(loop) and order_ok, 'first matching regex decides (first-character list before the wildcard list)'),
        (bool(default), 'default tag for unmatched scalars'),
    ]
    for ok, what in facts:
        if ok:
            rule.ok(f.loc(), what)
        else:
            rule.fail('%s|%s' % (f.qualname, what[:40]), f.module.rel, f.node.lineno, f.qualname, what,
                      'BaseResolver.resolve: %s - no longer the case' % what)
    for q in ('composer.Composer.compose_scalar_node',):
        g = repo.func(q)
        calls = M.find(g.node, 'self.resolve(ScalarNode, __e.value, __e.implicit)')
        good = False
        for c, e in calls:
            for iff, branch in A.guarding_ifs(c, g.node):
                if branch == 'body' and (M.match(M.compile_pattern("__t is None or __t == '!'")[1], iff.test, {})
                                         or M.match(M.compile_pattern("__t == '!' or __t is None")[1], iff.test, {})
                                         or M.match(M.compile_pattern("__t in (None, '!')")[1], iff.test, {})):
                    good = True
        if good:
            rule.ok(g.loc(), 'composer resolves only non-specific tags, with the event\'s implicit flags')
        else:
            rule.fail('%s|resolve' % g.qualname, g.module.rel, g.node.lineno, g.qualname, 'self.resolve(...)',
                      'compose_scalar_node no longer resolves exactly the untagged / "!" scalars with the event\'s implicit flags')
    # the parser marks quoted / block scalars as (False, True): decided per scenario on the CFG of parse_node
    from .cfg import CFG as _CFG
    p = repo.func('parser.Parser.parse_node')
    tagvars = {e['_N_t'].id for n, e in M.find(p.node, "_N_t == '!'")} | {e['_N_t'].id for n, e in M.find(p.node, "_N_t != '!'")}
    if len(tagvars) != 1:
        raise AnalysisError("parse_node: the test of the non-specific tag '!' was not found")
    tv = tagvars.pop()
    pcfg = _CFG(p.node)
    flag_nodes = [n for n in pcfg.nodes if n.kind == 'stmt' and isinstance(n.ast, ast.Assign) and isinstance(n.ast.value, ast.Tuple)
                  and len(n.ast.value.elts) == 2 and all(isinstance(x, ast.Constant) and isinstance(x.value, bool) for x in n.ast.value.elts)]
    if len(flag_nodes) < 2:
        raise AnalysisError('parse_node: implicit flag pairs not found')
    scalar_edges = [n for n in pcfg.nodes if n.kind == 'test' and isinstance(n.ast, ast.Call) and norm(n.ast.func).endswith('check_token')
                    and any(norm(a) == 'ScalarToken' for a in n.ast.args)]
    want = {(True, None): (True, False), (False, None): (False, True), (True, '!'): (True, False), (False, '!'): (True, False),
            (True, 'x'): (False, False), (False, 'x'): (False, False)}
    good = True
    detail = ''
    for (plain, tag), expect in want.items():
        def atom(node, plain=plain, tag=tag):
            if isinstance(node, ast.Attribute) and node.attr == 'plain':
                return plain
            if isinstance(node, ast.Compare) and len(node.ops) == 1 and isinstance(node.left, ast.Name) and node.left.id == tv:
                c = node.comparators[0]
                if isinstance(c, ast.Constant):
                    eq = (tag == c.value) if c.value is not None else (tag is None)
                    if isinstance(node.ops[0], (ast.Eq, ast.Is)):
                        return eq
                    if isinstance(node.ops[0], (ast.NotEq, ast.IsNot)):
                        return not eq
            if isinstance(node, ast.Call) and norm(node.func).endswith('check_token'):
                # scenario: the node is a scalar
                names = [norm(a) for a in node.args]
                return ('ScalarToken' in names) if names else None
            return None
        starts = [m for t in scalar_edges for (m, lab) in pcfg.succ[t] if lab is True]
        reach = A.cfg_reach_under(pcfg, A.with_derived(atom, p.node), starts=starts)
        got = {tuple(x.value for x in n.ast.value.elts) for n in flag_nodes if n in reach}
        if got != {expect}:
            good = False
            detail = 'plain=%s tag=%r -> %s (expected %s)' % (plain, tag, sorted(got), expect)
    if good:
        rule.ok(p.loc(), 'plain scalars get (True, False), other untagged scalars (False, True), tagged ones (False, False)')
    else:
        rule.fail('%s|implicit' % p.qualname, p.module.rel, p.node.lineno, p.qualname, 'implicit = ...',
                  'parse_node no longer gives quoted / block scalars the flags (False, True) - %s: they would be resolved like '
                  'plain ones' % detail)
    return rule


def r_regex_linear(ctx, repo):
    """every regular expression of the package that is matched against document text is free of exponential ambiguity."""
    rule = ctx.rule('R-REGEX-LINEAR', 'no regular expression matched against document text has exponential ambiguity (nested or '
                                      'overlapping repetitions): CPython\'s backtracking matcher would need exponential time on a '
                                      'non-matching look-alike, i.e. composing / constructing the document hangs')
    n = 0
    for m in repo.modules.values():
        if m.kind != 'py':
            continue
        for x in ast.walk(m.tree):
            if isinstance(x, ast.Call) and norm(x.func) in ('re.compile', 're.match', 're.search', 're.fullmatch') and x.args:
                pat = A.const_str(x.args[0])
                if pat is None:
                    continue
                flags = Langs._flags(x) if norm(x.func) == 're.compile' else 0
                n += 1
                try:
                    anchored = pat
                    # unanchored patterns (search/match on a prefix) are analysed between explicit anchors
                    if not anchored.lstrip().startswith('^') and not (flags & re.X):
                        anchored = '^' + anchored
                    if not anchored.rstrip().endswith('$'):
                        anchored = anchored + '$' if not (flags & re.X) else anchored.rstrip() + '$'
                    alpha = RL.Alphabet(RL.points_of(anchored, flags))
                    why = RL.exponential_ambiguity(alpha, anchored, flags)
                except AnalysisError as e:
                    ctx.assume('regular expression at %s:%d is outside the supported syntax (%s): not analysed for backtracking'
                               % (m.rel, x.lineno, e))
                    continue
                if why is None:
                    rule.ok('%s:%d' % (m.rel, x.lineno), 'pattern %s... is free of exponential ambiguity' % pat.strip()[:30].replace('\n', ' '))
                else:
                    rule.fail('regex|%s|%d' % (m.name, n), m.rel, x.lineno, m.name, pat.strip()[:60].replace('\n', ' '),
                              'the regular expression can match the same text in exponentially many ways (%s): matching it against '
                              'a long look-alike that finally does not match takes exponential time, so resolving / constructing '
                              'such a scalar hangs' % why)
    rule.require_min(6, 'regular expressions')
    return rule
