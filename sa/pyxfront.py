"""Line-preserving lowering of yaml/_yaml.pyx to plain Python (DESIGN 3.8).

Cython is not installed in this sandbox, so the binding cannot be parsed by
Cython's own front end.  The dialect used by _yaml.pyx is small; this module
rewrites it, line for line, into text that ``ast.parse`` accepts, and records
for every ``cdef`` function its C return type and ``except`` clause.

Anything the lowering does not understand makes ``ast.parse`` fail, which the
caller reports as ANALYSIS-ERROR (never as a pass).
"""
import ast
import re

_CAST = re.compile(r'<\s*(?:unsigned\s+)?[A-Za-z_][A-Za-z0-9_]*\s*\**\s*>(?=\s*[A-Za-z_(])')
_ADDR = re.compile(r'(?<=[(,\s])&(?=[A-Za-z_])')
_CCHAR = re.compile(r"\bc('(?:\\.|[^'\\])')")
_HEADER = re.compile(r'^(\s*)(cdef|cpdef|def)\b(.*)$')


class PyxFunction:
    def __init__(self, name, lineno, is_cdef, ret_type, except_clause, in_class):
        self.name = name
        self.lineno = lineno
        self.is_cdef = is_cdef
        self.ret_type = ret_type          # e.g. 'int', 'object', '' (untyped)
        self.except_clause = except_clause  # e.g. '0' or None
        self.in_class = in_class

    def __repr__(self):
        return 'PyxFunction(%s@%d cdef=%s ret=%r except=%r)' % (
            self.name, self.lineno, self.is_cdef, self.ret_type, self.except_clause)


def _split_params(text):
    """Split a parameter list on top-level commas, keeping all whitespace."""
    parts, depth, cur = [], 0, []
    for ch in text:
        if ch in '([{':
            depth += 1
        elif ch in ')]}':
            depth -= 1
        if ch == ',' and depth == 0:
            parts.append(''.join(cur))
            cur = []
        else:
            cur.append(ch)
    parts.append(''.join(cur))
    return parts


def _strip_param(piece):
    """'  size_t *read' -> '  read';  ' object x=None' -> ' x=None' (newlines kept)."""
    m = re.match(r'^(\s*)(.*?)(\s*)$', piece, re.S)
    lead, body, trail = m.group(1), m.group(2), m.group(3)
    if not body:
        return piece
    if '=' in body:
        left, right = body.split('=', 1)
        default = '=' + right
    else:
        left, default = body, ''
    left = left.strip()
    if left.startswith('*'):          # *args / **kwds
        return lead + left + default + trail
    toks = re.findall(r'[A-Za-z_][A-Za-z0-9_]*|\*+|\[\d*\]', left)
    names = [t for t in toks if re.match(r'[A-Za-z_]', t)]
    if not names:
        return piece
    return lead + names[-1] + default + trail


def lower(source):
    """Return (python_source, {lineno: PyxFunction})."""
    lines = source.split('\n')
    out = list(lines)
    funcs = {}
    class_indent = None
    i = 0
    n = len(lines)
    while i < n:
        line = lines[i]
        stripped = line.strip()
        if stripped.startswith('#') or not stripped:
            i += 1
            continue
        indent = len(line) - len(line.lstrip())
        if class_indent is not None and indent <= class_indent and stripped:
            class_indent = None
        m = re.match(r'^(\s*)cdef\s+class\s+(\w+)\s*(\(.*\))?\s*:\s*$', line)
        if m:
            out[i] = '%sclass %s%s:' % (m.group(1), m.group(2), m.group(3) or '')
            class_indent = indent
            i += 1
            continue
        h = _HEADER.match(line)
        if h and ('(' in h.group(3) or h.group(2) == 'def'):
            kw = h.group(2)
            # gather the whole header up to the ':' that closes it at depth 0
            j = i
            text = line
            while True:
                depth = 0
                closed = False
                for ch in text:
                    if ch in '([{':
                        depth += 1
                    elif ch in ')]}':
                        depth -= 1
                if depth == 0 and text.rstrip().endswith(':'):
                    closed = True
                if closed or j + 1 >= n:
                    break
                if depth == 0 and '(' in text and not text.rstrip().endswith(('\\', ',')):
                    # a cdef declaration with parentheses that is not a function header
                    break
                j += 1
                text += '\n' + lines[j]
            if not text.rstrip().endswith(':'):
                # not a function header (e.g. a cdef declaration)
                if kw in ('cdef', 'cpdef'):
                    out[i] = line[:indent] + 'pass'
                i += 1
                continue
            hm = re.match(r'^(\s*)(cdef|cpdef|def)\s+(.*?)([A-Za-z_][A-Za-z0-9_]*)\s*\((.*)\)\s*(.*?):\s*$',
                          text, re.S)
            if not hm:
                i += 1
                continue
            ind, kw, rtype, name, params, tail = hm.groups()
            exc = None
            em = re.search(r'except\s*(\??\s*[-\w*]+)', tail)
            if em:
                exc = em.group(1).strip()
            new_params = ','.join(_strip_param(p) for p in _split_params(params))
            new_text = '%sdef %s(%s):' % (ind, name, new_params)
            new_lines = new_text.split('\n')
            assert len(new_lines) == j - i + 1, (new_text, i, j)
            for k, nl in enumerate(new_lines):
                out[i + k] = nl
            funcs[i + 1] = PyxFunction(name, i + 1, kw != 'def', rtype.strip(), exc,
                                       class_indent is not None and indent > class_indent)
            i = j + 1
            continue
        if re.match(r'^\s*cdef\b', line):
            out[i] = line[:indent] + 'pass'
            i += 1
            continue
        i += 1
    text = '\n'.join(out)
    text = _CAST.sub('', text)
    text = _ADDR.sub('', text)
    text = _CCHAR.sub(r'\1', text)
    return text, funcs


def parse_pxd_enums(source):
    """Return {enum_name: [members]} from the .pxd (indentation-based)."""
    enums = {}
    cur = None
    cur_indent = None
    for line in source.split('\n'):
        if not line.strip() or line.strip().startswith('#'):
            continue
        indent = len(line) - len(line.lstrip())
        m = re.match(r'^\s*(?:cdef\s+|ctypedef\s+)?enum\s+(\w+)\s*:\s*$', line)
        if m:
            cur = m.group(1)
            cur_indent = indent
            enums[cur] = []
            continue
        if cur is not None:
            if indent > cur_indent:
                for name in re.findall(r'[A-Za-z_][A-Za-z0-9_]*', line.split('=')[0]):
                    enums[cur].append(name)
            else:
                cur = None
    return enums


def load(path_pyx):
    with open(path_pyx, encoding='utf-8') as f:
        src = f.read()
    text, funcs = lower(src)
    tree = ast.parse(text, filename=path_pyx)
    return src, text, tree, funcs
