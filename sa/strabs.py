"""String abstract interpreter over regular languages for the straight-line converters and representers (DESIGN 3.7).

The abstract value of a string variable is a DFA (sa.relang).  Branches on the tracked strings split the language;
unknown conditions explore both branches.  Conversions (int / float / subscript [0]) found on a path generate
obligations `language of the argument  subset-of  domain of the operation`, decided by automata inclusion with a shortest
witness.  A string operation the interpreter does not know yields Sigma* (nothing can be proved about it).
"""
import ast

from . import astutil as A
from . import relang as RL
from .srcmodel import AnalysisError, norm

NONSTR = 'nonstr'


class Obligation:
    def __init__(self, kind, node, lang, domain_name, ok, witness, note=''):
        self.kind = kind
        self.node = node
        self.lang = lang
        self.domain_name = domain_name
        self.ok = ok
        self.witness = witness
        self.note = note


class StrInterp:
    def __init__(self, alpha, domains, models=None, input_exprs=None, input_lang=None):
        self.alpha = alpha
        self.domains = domains          # name -> DFA
        self.models = models or {}      # normalised call text -> DFA
        self.input_exprs = input_exprs or ()
        self.input_lang = input_lang
        self.obligations = []
        self.results = []               # languages of returned/represented values: (node, tag expr, DFA)
        self.unknown_ops = []

    # ---- expressions -----------------------------------------------------------------------
    def lang(self, e, env):
        """DFA for a string-valued expression, NONSTR for a value that is certainly not a tracked string, None if unknown."""
        t = norm(e)
        if t in self.input_exprs:
            return self.input_lang
        if t in self.models:
            return self.models[t]
        if isinstance(e, ast.Constant):
            if isinstance(e.value, str):
                return RL.literal(self.alpha, e.value)
            return NONSTR
        if isinstance(e, ast.Name):
            v = env.get(e.id)
            if isinstance(v, tuple):
                # one half of a partition used on its own: not modelled
                self.unknown_ops.append((e, 'a part of str.partition used on its own'))
                return RL.sigma_star(self.alpha)
            return v
        if isinstance(e, ast.Call) and isinstance(e.func, ast.Attribute):
            base = self.lang(e.func.value, env)
            m = e.func.attr
            if isinstance(base, RL.DFA):
                args = [A.const_value(a) for a in e.args]
                if m == 'replace' and len(args) == 2 and isinstance(args[0], str) and len(args[0]) == 1 and args[1] == '':
                    return RL.delete_char(base, args[0])
                if m == 'replace' and len(args) == 3 and isinstance(args[0], str) and len(args[0]) == 1 \
                        and isinstance(args[1], str) and args[2] == 1:
                    try:
                        return RL.substitute_once(base, args[0], args[1])
                    except AnalysisError:
                        self.unknown_ops.append((e, 'replace(..., 1) on a language with repeated characters'))
                        return RL.sigma_star(self.alpha)
                if m == 'lower' and not args:
                    return RL.lower(base)
                if m == 'removeprefix' and len(args) == 1 and isinstance(args[0], str) and args[0]:
                    # words that start with the prefix lose it, the others are unchanged
                    sw = RL.starts_with(self.alpha, args[0])
                    return RL.union(RL.drop_first(RL.intersect(base, sw), len(args[0])), RL.difference(base, sw))
                if m == 'rstrip' and len(args) == 1 and isinstance(args[0], str) and args[0]:
                    return RL.rstrip_chars(base, args[0])
                if m in ('strip', 'lstrip', 'upper', 'title', 'format', 'zfill', 'rstrip', 'replace', 'join', 'capitalize',
                         'swapcase', 'casefold', 'expandtabs', 'translate', 'center', 'ljust', 'rjust', 'removeprefix',
                         'removesuffix'):
                    self.unknown_ops.append((e, 'str.%s is not modelled' % m))
                    return RL.sigma_star(self.alpha)
            return None
        if isinstance(e, ast.Subscript) and isinstance(e.slice, ast.Slice):
            base = self.lang(e.value, env)
            if isinstance(base, RL.DFA):
                lo = A.const_value(e.slice.lower) if e.slice.lower is not None else None
                hi = A.const_value(e.slice.upper) if e.slice.upper is not None else None
                if e.slice.step is None:
                    if isinstance(lo, int) and lo >= 0 and hi is None:
                        return RL.drop_first(base, lo)
                    if lo is None and isinstance(hi, int) and hi >= 0:
                        return RL.take_first(base, hi)
                self.unknown_ops.append((e, 'slice %s is not modelled' % norm(e.slice)))
                return RL.sigma_star(self.alpha)
            return None
        if isinstance(e, ast.BinOp) and isinstance(e.op, ast.Add):
            # head + K + tail of one partition == x.replace(c, K, 1) when every word of x contains c
            parts = []

            def flat(x):
                if isinstance(x, ast.BinOp) and isinstance(x.op, ast.Add):
                    flat(x.left)
                    flat(x.right)
                else:
                    parts.append(x)
            flat(e)
            if len(parts) == 3 and isinstance(parts[0], ast.Name) and isinstance(parts[2], ast.Name) \
                    and isinstance(parts[1], ast.Constant) and isinstance(parts[1].value, str):
                a, b = env.get(parts[0].id), env.get(parts[2].id)
                if isinstance(a, tuple) and isinstance(b, tuple) and a[0] == 'partition-head' and b[0] == 'partition-tail' \
                        and a[3] == b[3]:
                    base, sep = a[1], a[2]
                    without = RL.intersect(base, RL.complement(RL.contains(self.alpha, sep)))
                    if without.is_empty():
                        try:
                            return RL.substitute_once(base, sep, parts[1].value)
                        except AnalysisError:
                            pass
                    self.unknown_ops.append((e, 'partition / recombination on a language where the separator may be missing'))
                    return RL.sigma_star(self.alpha)
        if isinstance(e, ast.BinOp) and isinstance(e.op, (ast.Add, ast.Mod)):
            l = self.lang(e.left, env)
            if isinstance(l, RL.DFA):
                self.unknown_ops.append((e, 'string concatenation / formatting is not modelled'))
                return RL.sigma_star(self.alpha)
            return None
        if isinstance(e, ast.IfExp):
            a, b = self.lang(e.body, env), self.lang(e.orelse, env)
            if isinstance(a, RL.DFA) and isinstance(b, RL.DFA):
                return RL.union(a, b)
            return None
        return None

    # ---- conditions ------------------------------------------------------------------------
    def cond(self, test, env):
        """(var, DFA of the values of var for which the test is true) or None if the test is not about a tracked string."""
        if isinstance(test, ast.UnaryOp) and isinstance(test.op, ast.Not):
            c = self.cond(test.operand, env)
            if c is None:
                return None
            return c[0], RL.complement(c[1])
        if isinstance(test, ast.BoolOp):
            parts = [self.cond(v, env) for v in test.values]
            if any(p is None for p in parts) or len({p[0] for p in parts}) != 1:
                return None
            cur = parts[0][1]
            for p in parts[1:]:
                cur = RL.intersect(cur, p[1]) if isinstance(test.op, ast.And) else RL.union(cur, p[1])
            return parts[0][0], cur
        if isinstance(test, ast.Compare) and len(test.ops) == 1:
            l, op, r = test.left, test.ops[0], test.comparators[0]
            # x[0] == c / x[0] in 'lit'
            if isinstance(l, ast.Subscript) and isinstance(l.value, ast.Name) and A.const_value(l.slice) == 0 \
                    and isinstance(env.get(l.value.id), RL.DFA):
                var = l.value.id
                lit = A.const_str(r)
                if lit is not None and isinstance(op, (ast.Eq, ast.In, ast.NotEq, ast.NotIn)):
                    self.nonempty(l, var, env)
                    chars = lit if isinstance(op, (ast.In, ast.NotIn)) else lit
                    if isinstance(op, (ast.Eq, ast.NotEq)) and len(lit) != 1:
                        return None
                    d = RL.first_in(self.alpha, chars)
                    return var, (d if isinstance(op, (ast.Eq, ast.In)) else RL.complement(d))
            if isinstance(l, ast.Name) and isinstance(env.get(l.id), RL.DFA):
                lit = A.const_str(r)
                if lit is not None and isinstance(op, (ast.Eq, ast.NotEq)):
                    d = RL.literal(self.alpha, lit)
                    return l.id, (d if isinstance(op, ast.Eq) else RL.complement(d))
            # c in x
            cl = A.const_str(l)
            if cl is not None and len(cl) == 1 and isinstance(r, ast.Name) and isinstance(env.get(r.id), RL.DFA) \
                    and isinstance(op, (ast.In, ast.NotIn)):
                d = RL.contains(self.alpha, cl)
                return r.id, (d if isinstance(op, ast.In) else RL.complement(d))
        if isinstance(test, ast.Call) and isinstance(test.func, ast.Attribute) and test.func.attr == 'startswith' \
                and isinstance(test.func.value, ast.Name) and isinstance(env.get(test.func.value.id), RL.DFA) and len(test.args) == 1:
            lit = A.const_str(test.args[0])
            if lit is not None:
                return test.func.value.id, RL.starts_with(self.alpha, lit)
        return None

    def nonempty(self, node, var, env):
        L = env.get(var)
        if isinstance(L, RL.DFA):
            ok = not L.nullable()
            self.obligations.append(Obligation('index', node, L, 'non-empty string', ok, '' if not ok else None,
                                               '%s[0] needs a non-empty string' % var))

    # ---- conversions inside expressions ------------------------------------------------------------
    def conversions(self, e, env):
        for c in ast.walk(e):
            if isinstance(c, ast.ListComp) and len(c.generators) == 1:
                g = c.generators[0]
                it = g.iter
                if isinstance(it, ast.Call) and isinstance(it.func, ast.Attribute) and it.func.attr == 'split' \
                        and len(it.args) == 1 and isinstance(g.target, ast.Name):
                    sep = A.const_str(it.args[0])
                    base = self.lang(it.func.value, env)
                    if sep and len(sep) == 1 and isinstance(base, RL.DFA):
                        parts = RL.split_parts(base, sep)
                        env2 = dict(env)
                        env2[g.target.id] = parts
                        self._conv_calls(c.elt, env2)
                        continue
            if isinstance(c, ast.Call):
                pass
        self._conv_calls(e, env, skip_comprehensions=True)

    def _conv_calls(self, e, env, skip_comprehensions=False):
        for c in ast.walk(e):
            if isinstance(c, ast.Call) and isinstance(c.func, ast.Name) and c.func.id in ('int', 'float', 'complex') and c.args:
                if skip_comprehensions:
                    p = c
                    inside = False
                    while p is not None and p is not e:
                        p = getattr(p, '_parent', None)
                        if isinstance(p, (ast.ListComp, ast.GeneratorExp, ast.SetComp)):
                            inside = True
                    if inside:
                        continue
                arg = self.lang(c.args[0], env)
                if arg is NONSTR or arg is None:
                    continue
                dom = c.func.id
                if c.func.id == 'int':
                    base = 10
                    if len(c.args) > 1:
                        base = A.const_value(c.args[1])
                    dom = 'int%s' % base
                D = self.domains.get(dom)
                if D is None:
                    raise AnalysisError('no domain language for %s' % dom)
                ok, w = RL.included(arg, D)
                self.obligations.append(Obligation('conversion', c, arg, dom, ok, w, norm(c)))
            if isinstance(c, ast.Subscript) and not isinstance(c.slice, ast.Slice) and isinstance(c.value, ast.Name) \
                    and isinstance(env.get(c.value.id), RL.DFA) and A.const_value(c.slice) == 0 and isinstance(c.ctx, ast.Load):
                par = getattr(c, '_parent', None)
                if not isinstance(par, ast.Compare):
                    self.nonempty(c, c.value.id, env)

    # ---- statements ----------------------------------------------------------------------------------
    def run(self, stmts, env):
        """returns the list of environments with which execution continues after the block."""
        envs = [env]
        for st in stmts:
            nxt = []
            for e in envs:
                nxt.extend(self.stmt(st, e))
            envs = self.merge(nxt)
        return envs

    def merge(self, envs):
        if len(envs) <= 1:
            return envs
        keys = set()
        for e in envs:
            keys |= set(e)
        out = {}
        for k in keys:
            vals = [e.get(k) for e in envs]
            if all(isinstance(v, RL.DFA) for v in vals):
                cur = vals[0]
                for v in vals[1:]:
                    cur = RL.union(cur, v)
                out[k] = cur
            elif all(v is NONSTR for v in vals):
                out[k] = NONSTR
            else:
                out[k] = None
        return [out]

    def stmt(self, st, env):
        if isinstance(st, ast.Assign) and len(st.targets) == 1 and isinstance(st.targets[0], ast.Tuple) \
                and len(st.targets[0].elts) == 3 and all(isinstance(x, ast.Name) for x in st.targets[0].elts) \
                and isinstance(st.value, ast.Call) and isinstance(st.value.func, ast.Attribute) \
                and st.value.func.attr == 'partition' and len(st.value.args) == 1:
            # head, sep, tail = x.partition(c): remembered so that head + K + tail can be read as x.replace(c, K, 1)
            base = self.lang(st.value.func.value, env)
            sep = A.const_value(st.value.args[0])
            env = dict(env)
            h, m, t = [x.id for x in st.targets[0].elts]
            if isinstance(base, RL.DFA) and isinstance(sep, str) and len(sep) == 1:
                env[h] = ('partition-head', base, sep, id(st))
                env[t] = ('partition-tail', base, sep, id(st))
                env[m] = None
            else:
                env[h] = env[m] = env[t] = None
            return [env]
        if isinstance(st, ast.Assign):
            self.conversions(st.value, env)
            v = self.lang(st.value, env)
            env = dict(env)
            for t in st.targets:
                if isinstance(t, ast.Name):
                    env[t.id] = v if v is not None else (NONSTR if self._numeric(st.value) else None)
            return [env]
        if isinstance(st, ast.AugAssign):
            self.conversions(st.value, env)
            env = dict(env)
            if isinstance(st.target, ast.Name):
                env[st.target.id] = NONSTR if not isinstance(env.get(st.target.id), RL.DFA) else RL.sigma_star(self.alpha)
            return [env]
        if isinstance(st, ast.Expr):
            self.conversions(st.value, env)
            return [env]
        if isinstance(st, ast.Return):
            if st.value is not None:
                self.conversions(st.value, env)
                self.returned(st, env)
            return []
        if isinstance(st, ast.Raise):
            return []
        if isinstance(st, ast.If):
            c = self.cond(st.test, env)
            self.conversions(st.test, env)
            out = []
            if c is None:
                out.extend(self.run(st.body, dict(env)))
                out.extend(self.run(st.orelse, dict(env)))
                return out
            var, Lt = c
            cur = env[var]
            tl = RL.intersect(cur, Lt)
            fl = RL.difference(cur, Lt)
            if not tl.is_empty():
                e1 = dict(env)
                e1[var] = tl
                out.extend(self.run(st.body, e1))
            if not fl.is_empty():
                e2 = dict(env)
                e2[var] = fl
                out.extend(self.run(st.orelse, e2))
            return out
        if isinstance(st, (ast.For, ast.While)):
            # loops in the converters only do arithmetic on already-converted numbers
            for sub in st.body:
                for x in ast.walk(sub):
                    if isinstance(x, ast.Call) and isinstance(x.func, ast.Name) and x.func.id in ('int', 'float'):
                        self._conv_calls(x, env)
            env = dict(env)
            for n in ast.walk(st):
                if isinstance(n, ast.Name) and isinstance(n.ctx, ast.Store):
                    env[n.id] = NONSTR if not isinstance(env.get(n.id), RL.DFA) else RL.sigma_star(self.alpha)
            return [env]
        if isinstance(st, ast.Try):
            return self.run(st.body, env)
        if isinstance(st, (ast.Pass, ast.Assert)):
            return [env]
        raise AnalysisError('string interpreter: statement %s (line %d) not supported' % (type(st).__name__, st.lineno))

    def _numeric(self, e):
        if isinstance(e, (ast.UnaryOp, ast.BinOp)) or (isinstance(e, ast.Constant) and isinstance(e.value, (int, float))):
            return True
        if isinstance(e, ast.Call) and isinstance(e.func, ast.Name) and e.func.id in ('int', 'float', 'len'):
            return True
        if isinstance(e, (ast.List, ast.ListComp, ast.Dict)):
            return True
        return False

    def returned(self, st, env):
        v = st.value
        if isinstance(v, ast.Call) and isinstance(v.func, ast.Attribute) and v.func.attr == 'represent_scalar' and len(v.args) >= 2:
            L = self.lang(v.args[1], env)
            self.results.append((st, v.args[0], L))
