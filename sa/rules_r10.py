"""Rules added after round 10 of independent breaking edits.  Each states a necessary condition generally (never the edit).

R-SIMPLE-KEY-SETTLED     a token that cannot belong to a simple key is queued only after the key candidate of the current flow
                         level has been dropped; the level counter is decremented only after that, too (C09, C06).
"""
import ast

from . import astutil as A
from .cfg import CFG, own_exprs
from .srcmodel import AnalysisError, FuncInfo, norm, walk_function
from .rules_r6 import _method


# ---------------------------------------------------------------------------------------------- R-SIMPLE-KEY-SETTLED
# Token classes after which an earlier candidate can no longer become a key (YAML 1.1: a simple key is
# [properties] node-start ... ':' on one line; these tokens are none of that).  This table is the oracle, taken from the
# token grammar at the top of scanner.py / parser.py, not from the code of the fetch_* functions.
ENDS_CANDIDATE = {'FlowSequenceEndToken', 'FlowMappingEndToken', 'FlowEntryToken', 'BlockEntryToken', 'KeyToken',
                  'DocumentStartToken', 'DocumentEndToken', 'DirectiveToken', 'StreamEndToken'}


def _self_calls(f, node):
    me = f.params[0] if f.params else 'self'
    for x in ast.walk(node):
        if isinstance(x, ast.Call) and isinstance(x.func, ast.Attribute) and isinstance(x.func.value, ast.Name) \
                and x.func.value.id == me:
            yield x


def _is_keys_sub(f, e, level_only=True):
    """e is self.possible_simple_keys[self.flow_level]"""
    me = f.params[0] if f.params else 'self'
    return isinstance(e, ast.Subscript) and A.is_attr(e.value, me, 'possible_simple_keys') \
        and (not level_only or A.is_attr(e.slice, me, 'flow_level'))


def _is_level_test(f, t):
    """t is `self.flow_level in self.possible_simple_keys` -> True, `... not in ...` -> False, else None"""
    me = f.params[0] if f.params else 'self'
    if isinstance(t, ast.Compare) and len(t.ops) == 1 and A.is_attr(t.left, me, 'flow_level') \
            and A.is_attr(t.comparators[0], me, 'possible_simple_keys'):
        if isinstance(t.ops[0], ast.In):
            return True
        if isinstance(t.ops[0], ast.NotIn):
            return False
    return None


class _KeyModel:
    """which methods of Scanner leave no candidate for the current level on every normal path ("removers")."""

    def __init__(self, repo, S):
        self.repo, self.S = repo, S
        self.methods = {}
        for k in S.mro_classes():
            for name, f in k.methods.items():
                self.methods.setdefault(name, f)
        self.cfgs = {}
        self.removers = set()
        changed = True
        while changed:
            changed = False
            for name, f in self.methods.items():
                if name in self.removers or f.is_generator:
                    continue
                if not any(True for _ in self.settle_points(f)[0]) and not self.settle_points(f)[1]:
                    continue
                cfg = self.cfg(f)
                nodes, edges = self.settle_points(f)
                r = cfg.reach([cfg.entry], blocked=nodes, blocked_edges=edges, follow_exc=False)
                if not any(x in r for x in cfg.normal_exits()):
                    self.removers.add(name)
                    changed = True

    def cfg(self, f):
        if f not in self.cfgs:
            self.cfgs[f] = CFG(f.node)
        return self.cfgs[f]

    def settle_points(self, f):
        """(nodes, edges) after which the current level has no candidate: `del keys[level]`, a call of a remover, the
        no-entry edge of the membership test."""
        cfg = self.cfg(f)
        nodes, edges = [], []
        for n in cfg.nodes:
            if n.ast is None:
                continue
            if n.kind == 'test':
                v = _is_level_test(f, n.ast)
                if v is None:
                    v = self._got_test(f, n.ast)
                if v is not None:
                    edges.append((n, not v))
                continue
            if isinstance(n.ast, ast.Delete) and any(_is_keys_sub(f, t) for t in n.ast.targets):
                nodes.append(n)
                continue
            for x in own_exprs(n):
                if isinstance(x, ast.Call) and isinstance(x.func, ast.Attribute) and x.func.attr in self.removers \
                        and isinstance(x.func.value, ast.Name) and f.params and x.func.value.id == f.params[0]:
                    nodes.append(n)
                    break
                if isinstance(x, ast.Call) and isinstance(x.func, ast.Attribute) and x.func.attr == 'pop' \
                        and A.is_attr(x.func.value, f.params[0] if f.params else 'self', 'possible_simple_keys') \
                        and x.args and A.is_attr(x.args[0], f.params[0], 'flow_level'):
                    nodes.append(n)
                    break
        return nodes, edges

    def _got_test(self, f, t):
        """t tests the result of `self.possible_simple_keys.get(self.flow_level)` held in a local: True when the true edge
        means "there is a candidate" (`k is not None`, `k`), False for `k is None` / `not k`; None otherwise."""
        me = f.params[0] if f.params else 'self'
        inner, pos = A.strip_not(t)
        name, has = None, None
        if isinstance(inner, ast.Name):
            name, has = inner.id, True
        elif isinstance(inner, ast.Compare) and len(inner.ops) == 1 and isinstance(inner.left, ast.Name) \
                and isinstance(inner.comparators[0], ast.Constant) and inner.comparators[0].value is None:
            if isinstance(inner.ops[0], ast.IsNot):
                name, has = inner.left.id, True
            elif isinstance(inner.ops[0], ast.Is):
                name, has = inner.left.id, False
        if name is None:
            return None
        defs = [x.value for x in walk_function(f.node) if isinstance(x, ast.Assign)
                and any(isinstance(tg, ast.Name) and tg.id == name for tg in x.targets)]
        if len(defs) != 1:
            return None
        d = defs[0]
        if isinstance(d, ast.Call) and isinstance(d.func, ast.Attribute) and d.func.attr == 'get' \
                and A.is_attr(d.func.value, me, 'possible_simple_keys') and d.args and A.is_attr(d.args[0], me, 'flow_level') \
                and (len(d.args) == 1 or (isinstance(d.args[1], ast.Constant) and d.args[1].value is None)):
            return has if pos else (not has)
        return None

    def stores(self, f):
        """nodes that (may) record a new candidate for the current level."""
        out = []
        for n in self.cfg(f).nodes:
            if n.ast is None:
                continue
            if isinstance(n.ast, ast.Assign) and any(_is_keys_sub(f, t, level_only=False) for t in n.ast.targets):
                out.append(n)
        return out


def _token_classes_appended(repo, model, f, callers_of):
    """[(node, class name)] for self.tokens.append(K(...)) / insert(i, K(...)) in f; K may be a parameter of f, then the
    classes the callers pass."""
    me = f.params[0] if f.params else 'self'
    cfg = model.cfg(f)
    out = []
    for n in cfg.nodes:
        if n.ast is None:
            continue
        for x in own_exprs(n):
            if isinstance(x, ast.Call) and isinstance(x.func, ast.Attribute) and x.func.attr in ('append', 'insert') \
                    and A.is_attr(x.func.value, me, 'tokens') and x.args:
                tok = x.args[-1]
                if isinstance(tok, ast.Call) and isinstance(tok.func, ast.Name):
                    nm = tok.func.id
                    if nm in f.params:
                        i = f.params.index(nm)
                        for g, call in callers_of.get(f.name, []):
                            a = None
                            if i - 1 < len(call.args):
                                a = call.args[i - 1]
                            for kw in call.keywords:
                                if kw.arg == nm:
                                    a = kw.value
                            if isinstance(a, ast.Name):
                                out.append((n, a.id))
                            else:
                                raise AnalysisError('%s: token class passed by %s not resolved' % (f.qualname, g.qualname))
                    else:
                        out.append((n, nm))
                elif isinstance(tok, ast.Call) and isinstance(tok.func, ast.Attribute) and A.is_attr(tok.func, me) \
                        and tok.func.attr == 'scan_block_scalar':
                    out.append((n, 'block ScalarToken'))
    return out


def r_simple_key_settled(ctx, repo):
    rule = ctx.rule('R-SIMPLE-KEY-SETTLED',
                    'a token that cannot be part of a simple key (flow end, flow entry, block entry, "?", document markers, directive, '
                    'stream end, block scalar) is queued only after the key candidate of the current flow level has been dropped, and '
                    'flow_level is decremented only after that: a candidate never survives the construct it was found in')
    S = repo.cls('scanner.Scanner')
    model = _KeyModel(repo, S)
    if not model.removers:
        raise AnalysisError('Scanner: no method drops possible_simple_keys[flow_level] on every path')
    callers_of = {}
    for name, f in model.methods.items():
        for c in _self_calls(f, f.node):
            callers_of.setdefault(c.func.attr, []).append((f, c))
    n_tok = n_dec = 0
    for name, f in sorted(model.methods.items()):
        if f.is_generator or name in ('__init__',):
            continue
        me = f.params[0] if f.params else 'self'
        cfg = model.cfg(f)
        nodes, edges = model.settle_points(f)
        stores = model.stores(f)
        # tokens
        for n, cname in _token_classes_appended(repo, model, f, callers_of):
            if cname not in ENDS_CANDIDATE and cname != 'block ScalarToken':
                continue
            n_tok += 1
            # every path entry -> n passes a settle point, and none passes a store after its last settle point
            r = cfg.reach([cfg.entry], blocked=nodes, blocked_edges=edges, follow_exc=False)
            bad = n in r
            if not bad and stores:
                for s in stores:
                    starts = [m for (m, lab) in cfg.succ[s] if lab != 'exc']
                    if n in cfg.reach(starts, blocked=nodes, blocked_edges=edges, follow_exc=False):
                        bad = True
            if bad:
                rule.fail('%s|%s' % (f.qualname, cname), f.module.rel, n.lineno, f.qualname, A.anon_text(n.ast, f.node, 60),
                          'a %s is queued on a path on which the simple-key candidate of the current flow level has not been '
                          'dropped: a later ":" on the same line makes the stale candidate a key, KEY is inserted in front of the '
                          'wrong token (token order and marks are no longer those of the grammar; LibYAML drops the candidate here)'
                          % cname)
            else:
                rule.ok(f.loc(n.ast), '%s queued after the candidate was dropped' % cname)
        # level decrement
        for n in cfg.nodes:
            if n.ast is None:
                continue
            a = n.ast
            dec = (isinstance(a, ast.AugAssign) and isinstance(a.op, ast.Sub) and A.is_attr(a.target, me, 'flow_level')) or \
                  (isinstance(a, ast.Assign) and any(A.is_attr(t, me, 'flow_level') for t in a.targets)
                   and isinstance(a.value, ast.BinOp) and isinstance(a.value.op, ast.Sub) and A.is_attr(a.value.left, me, 'flow_level'))
            if not dec:
                continue
            n_dec += 1
            r = cfg.reach([cfg.entry], blocked=nodes, blocked_edges=edges, follow_exc=False)
            if n in r:
                rule.fail('%s|level-close' % f.qualname, f.module.rel, n.lineno, f.qualname, A.anon_text(a, f.node, 50),
                          'flow_level is decremented on a path on which the candidate recorded for the closing level has not been '
                          'dropped: possible_simple_keys keeps an entry for a level that no longer exists, which is revived with a '
                          'stale token number when that level is entered again on the same line')
            else:
                rule.ok(f.loc(a), 'the closing level\'s candidate is dropped before flow_level is decremented')
    if n_tok < 5 or n_dec < 1:
        raise AnalysisError('R-SIMPLE-KEY-SETTLED: only %d candidate-ending tokens and %d level decrements found' % (n_tok, n_dec))
    return rule


# --------------------------------------------------------------------------------------- R-MERGE-LIST-ENTRIES-MAPPINGS
def r_merge_list_entries(ctx, repo):
    """YAML 1.1 merge key: the value is a mapping or a *sequence of mappings*.  Decided on the CFG of flatten_mapping (helpers
    inlined): inside every loop over the entries of another node's value list, an entry that is a sequence or a scalar leads
    to a raise on every path - it never reaches the next iteration or the end of the function."""
    from .rules_r6 import _flatten
    rule = ctx.rule('R-MERGE-LIST-ENTRIES-MAPPINGS', 'in flatten_mapping an entry of a merge list that is not a mapping (a nested list, a '
                                                     'scalar) always ends in ConstructorError')
    f = _flatten(repo)
    cfg = CFG(f.node)
    node_param = f.params[1]
    loops = []
    for t in cfg.nodes:
        if t.kind != 'for' or not isinstance(t.stmt.target, ast.Name):
            continue
        if any(isinstance(x, ast.Attribute) and x.attr == 'value' and isinstance(x.value, ast.Name) and x.value.id != node_param
               for x in ast.walk(t.ast)):
            loops.append(t)
    # outermost only
    outer = [t for t in loops if not any(o is not t and any(t.stmt is x for x in ast.walk(o.stmt)) for o in loops)]
    if not outer:
        # no merge-list loop: then a sequence under `<<` must be rejected altogether (R-MERGE-VALUE-REJECTED covers scalars)
        raise AnalysisError('flatten_mapping: no loop over the entries of a merge list was found')
    heads = [n for n in cfg.nodes if n.kind == 'test' and isinstance(n.stmt, ast.While)]
    bases = {'SequenceNode': {'SequenceNode', 'CollectionNode', 'Node'}, 'ScalarNode': {'ScalarNode', 'Node'}}
    for t in outer:
        E = t.stmt.target.id
        aliases = {E}
        changed = True
        while changed:
            changed = False
            for x in ast.walk(t.stmt):
                if isinstance(x, ast.Assign) and len(x.targets) == 1 and isinstance(x.targets[0], ast.Name) \
                        and isinstance(x.value, ast.Name) and x.value.id in aliases and x.targets[0].id not in aliases:
                    # a name bound only to the entry
                    nm = x.targets[0].id
                    others = [y for y in ast.walk(f.node) if isinstance(y, ast.Assign) and any(isinstance(tg, ast.Name) and tg.id == nm for tg in y.targets)]
                    if all(isinstance(y.value, ast.Name) and y.value.id in aliases for y in others):
                        aliases.add(nm)
                        changed = True
        for scenario in ('SequenceNode', 'ScalarNode'):
            def atom(tst, scenario=scenario):
                if isinstance(tst, ast.Call) and isinstance(tst.func, ast.Name) and tst.func.id == 'isinstance' and len(tst.args) == 2 \
                        and isinstance(tst.args[0], ast.Name) and tst.args[0].id in aliases:
                    kinds = {norm(k).split('.')[-1] for k in (tst.args[1].elts if isinstance(tst.args[1], ast.Tuple) else [tst.args[1]])}
                    return bool(kinds & bases[scenario])
                if isinstance(tst, ast.Compare) and len(tst.ops) == 1 and isinstance(tst.ops[0], (ast.Eq, ast.NotEq)) \
                        and isinstance(tst.left, ast.Attribute) and tst.left.attr == 'id' and isinstance(tst.left.value, ast.Name) \
                        and tst.left.value.id in aliases and A.const_str(tst.comparators[0]) is not None:
                    want = {'SequenceNode': 'sequence', 'ScalarNode': 'scalar'}[scenario]
                    eq = A.const_str(tst.comparators[0]) == want
                    return eq if isinstance(tst.ops[0], ast.Eq) else not eq
                return None
            starts = [m for (m, lab) in cfg.succ[t] if lab is True]
            r = A.cfg_reach_under(cfg, atom, starts=starts, follow_exc=False)
            leak = t in r or any(x in r for x in cfg.normal_exits()) or any(h in r for h in heads)
            what = 'a nested sequence' if scenario == 'SequenceNode' else 'a scalar'
            if leak:
                rule.fail('%s|entry|%s' % (f.qualname, scenario), f.module.rel, t.lineno, f.qualname, 'for _ in %s' % A.anon_text(t.ast, f.node, 40),
                          'an entry of a merge list that is %s passes through flatten_mapping without ConstructorError: YAML 1.1 allows '
                          'only a mapping or a list of mappings under `<<`; what is merged from the malformed value depends on code '
                          'that was never meant to see it' % what)
            else:
                rule.ok(f.loc(t.stmt), '%s as an entry of a merge list always raises' % what)
    return rule


def _named_classes_flowing_into(repo, f, name, _seen=None):
    """names of package classes (written as such in the code of f) among the values that can flow into the local `name`:
    through assignments, augmented assignments, loop iterables, list displays and concatenations.  Operands of isinstance /
    issubclass tests are not values."""
    seen = _seen if _seen is not None else set()
    if name in seen:
        return set()
    seen.add(name)
    local = {x.id for x in walk_function(f.node) if isinstance(x, ast.Name) and isinstance(x.ctx, ast.Store)} | set(f.params)
    out = set()

    def values(e):
        if isinstance(e, ast.Call) and isinstance(e.func, ast.Name) and e.func.id in ('isinstance', 'issubclass', 'len', 'any', 'all'):
            return
        if isinstance(e, ast.Name):
            if e.id in local:
                out.update(_named_classes_flowing_into(repo, f, e.id, seen))
            else:
                r = repo.resolve_expr(f.module, e)
                if r is not None and r.kind == 'class':
                    out.add(e.id)
            return
        if isinstance(e, (ast.GeneratorExp, ast.ListComp, ast.SetComp)):
            values(e.elt)
            for g in e.generators:
                values(g.iter)
            return
        for ch in ast.iter_child_nodes(e):
            if isinstance(ch, ast.expr):
                values(ch)
    for x in walk_function(f.node):
        if isinstance(x, ast.Assign) and any(isinstance(t, ast.Name) and t.id == name for t in x.targets):
            values(x.value)
        elif isinstance(x, ast.AugAssign) and isinstance(x.target, ast.Name) and x.target.id == name:
            values(x.value)
        elif isinstance(x, (ast.For, ast.comprehension)) and isinstance(x.target, ast.Name) and x.target.id == name:
            values(x.iter)
        elif isinstance(x, ast.Call) and isinstance(x.func, ast.Attribute) and isinstance(x.func.value, ast.Name) \
                and x.func.value.id == name and x.func.attr in ('append', 'extend', 'insert', 'add', 'update'):
            for a in x.args:
                values(a)
    return out


# ------------------------------------------------------------------------------------------ R-METACLASS-OWN-TARGETS
def r_metaclass_own_targets(ctx, repo):
    """Defining a YAMLObject subclass customises the loaders / dumper *that class* names.  Decided on the metaclass: every
    read of .yaml_loader / .yaml_dumper in its methods is a read on the class being created (the first parameter or a plain
    alias of it) - never on a base, on another class of the hierarchy or on a named class."""
    rule = ctx.rule('R-METACLASS-OWN-TARGETS', 'the YAMLObject metaclass takes the loaders and the dumper to register on from the class '
                                               'being created only (cls.yaml_loader, cls.yaml_dumper)')
    c = repo.modules['__init__'].classes.get('YAMLObjectMetaclass')
    if c is None:
        raise AnalysisError('YAMLObjectMetaclass has vanished')
    n = 0
    for f in c.methods.values():
        if not f.params:
            continue
        me = {f.params[0]}
        for x in walk_function(f.node):
            if isinstance(x, ast.Assign) and isinstance(x.value, ast.Name) and x.value.id in me:
                me |= {t.id for t in x.targets if isinstance(t, ast.Name)}
        for x in walk_function(f.node):
            attr = None
            base = None
            if isinstance(x, ast.Attribute) and x.attr in ('yaml_loader', 'yaml_dumper') and isinstance(x.ctx, ast.Load):
                attr, base = x.attr, x.value
            elif isinstance(x, ast.Call) and norm(x.func) == 'getattr' and len(x.args) >= 2 \
                    and A.const_str(x.args[1]) in ('yaml_loader', 'yaml_dumper'):
                attr, base = A.const_str(x.args[1]), x.args[0]
            if attr is None:
                continue
            n += 1
            if isinstance(base, ast.Name) and base.id in me:
                rule.ok(f.loc(x), '%s.%s' % (base.id, attr))
            else:
                rule.fail('%s|%s|foreign' % (f.qualname, attr), f.module.rel, x.lineno, f.qualname, A.anon_text(x, f.node, 50),
                          'the metaclass reads .%s of %s, which is not the class being created: creating a YAMLObject subclass then '
                          'registers on loaders / dumpers that another class (a base, a sibling) named - a class statement changes '
                          'the tables of classes it never mentioned' % (attr, norm(base)[:40]))
    if n < 2:
        raise AnalysisError('YAMLObjectMetaclass: only %d reads of yaml_loader / yaml_dumper found' % n)
    # the receivers of the registrations are those attributes (or locals drawn from them), never a class named in the code
    ADDS = ('add_constructor', 'add_multi_constructor', 'add_representer', 'add_multi_representer', 'add_implicit_resolver',
            'add_path_resolver')
    for f in c.methods.values():
        local = {x.id for x in walk_function(f.node) if isinstance(x, ast.Name) and isinstance(x.ctx, ast.Store)} | set(f.params)
        for x in A.func_calls(f.node):
            if not (isinstance(x.func, ast.Attribute) and x.func.attr in ADDS):
                continue
            recv = x.func.value
            if isinstance(recv, ast.Attribute) and recv.attr in ('yaml_loader', 'yaml_dumper'):
                continue
            if isinstance(recv, ast.Name) and recv.id in local:
                # everything that flows into the local: no class named in the code among it
                named = _named_classes_flowing_into(repo, f, recv.id)
                if not named:
                    continue
                recv = ast.Name(id=', '.join(sorted(named)), ctx=ast.Load())
            rule.fail('%s|named-target|%s' % (f.qualname, norm(recv)[:30]), f.module.rel, x.lineno, f.qualname, A.anon_text(x, f.node, 60),
                      'the metaclass registers on %s, a class named in the library code rather than one the class being created names '
                      'in yaml_loader / yaml_dumper: creating a YAMLObject subclass changes the table of a shipped class it did not '
                      'ask for' % norm(recv)[:40])
    return rule


# ------------------------------------------------------------------------------------------- O-COMPLEX-TEXT-LOADS
# The float classes on which comparisons with zero and self-comparisons are constant, with the language of repr() on each
# (CPython: float_repr_style 'short' - digits '.' digits, or digits ['.' digits] 'e' sign digits; 'inf', 'nan').
_FIN = r'(?:[0-9]+\.[0-9]+|[0-9]+(?:\.[0-9]+)?e[+-][0-9]+)'
FLOAT_CLASSES = {
    'neg': ('-' + _FIN, -1.5), 'nzero': (r'-0\.0', -0.0), 'pzero': (r'0\.0', 0.0), 'pos': (_FIN, 1.5),
    'pinf': ('inf', float('inf')), 'ninf': ('-inf', float('-inf')), 'nan': ('nan', float('nan')),
}
# what complex(<str>) accepts (Python language reference, complex(): floatvalue | [floatvalue] "j" | floatvalue sign
# [absfloatvalue] "j"), without the optional blanks / parentheses, which only makes the accepted set smaller
_NUM = r'(?:(?:[0-9]+(?:_[0-9]+)*\.?(?:[0-9]+(?:_[0-9]+)*)?|\.[0-9]+(?:_[0-9]+)*)(?:[eE][+-]?[0-9]+(?:_[0-9]+)*)?)'
_ABS = r'(?:' + _NUM + r'|[iI][nN][fF](?:[iI][nN][iI][tT][yY])?|[nN][aA][nN])'
_FLT = r'(?:[+-]?' + _ABS + r')'
COMPLEX_ACCEPTS = r'^(?:' + _FLT + r'|' + _FLT + r'?[jJ]|[+-][jJ]|' + _FLT + r'[+-]' + _ABS + r'?[jJ])$'


class _CxInterp:
    """abstract interpretation of a representer of complex numbers: the argument is a pair of float classes, conditions on
    its parts are decided per class, strings are regular expressions built by concatenation."""

    def __init__(self, f, param):
        self.f, self.param = f, param

    def fval(self, e, env):
        """float class of an expression, or None"""
        if isinstance(e, ast.Attribute) and e.attr in ('real', 'imag') and isinstance(e.value, ast.Name):
            v = env.get(e.value.id)
            if isinstance(v, tuple) and v[0] == 'cx':
                return v[1] if e.attr == 'real' else v[2]
        if isinstance(e, ast.Name):
            v = env.get(e.id)
            if isinstance(v, tuple) and v[0] == 'fl':
                return v[1]
        return None

    def num(self, e, env):
        """concrete representative of a numeric expression (a float class or the constant zero), else raises"""
        c = self.fval(e, env)
        if c is not None:
            return FLOAT_CLASSES[c][1]
        if isinstance(e, ast.Constant) and isinstance(e.value, (int, float)) and not isinstance(e.value, bool) and e.value == 0:
            return e.value
        if isinstance(e, ast.UnaryOp) and isinstance(e.op, ast.USub):
            return -self.num(e.operand, env)
        raise AnalysisError('%s: numeric expression %s is not a part of the argument or zero' % (self.f.qualname, norm(e)[:40]))

    def cond(self, t, env):
        if isinstance(t, ast.BoolOp):
            vals = [self.cond(v, env) for v in t.values]
            return all(vals) if isinstance(t.op, ast.And) else any(vals)
        if isinstance(t, ast.UnaryOp) and isinstance(t.op, ast.Not):
            return not self.cond(t.operand, env)
        if isinstance(t, ast.Compare):
            left = self.num(t.left, env)
            res = True
            for op, r in zip(t.ops, t.comparators):
                right = self.num(r, env)
                fn = {ast.Eq: lambda a, b: a == b, ast.NotEq: lambda a, b: a != b, ast.Lt: lambda a, b: a < b,
                      ast.LtE: lambda a, b: a <= b, ast.Gt: lambda a, b: a > b, ast.GtE: lambda a, b: a >= b}.get(type(op))
                if fn is None:
                    raise AnalysisError('%s: comparison %s not understood' % (self.f.qualname, norm(t)[:50]))
                res = res and fn(left, right)
                left = right
            return res
        if isinstance(t, ast.Call) and norm(t.func) in ('math.isnan', 'math.isinf', 'math.isfinite') and len(t.args) == 1:
            import math
            return getattr(math, norm(t.func).split('.')[1])(self.num(t.args[0], env))
        c = self.fval(t, env)
        if c is not None:
            return bool(FLOAT_CLASSES[c][1])
        raise AnalysisError('%s: condition %s is not decided by the float classes' % (self.f.qualname, norm(t)[:50]))

    def text(self, e, env):
        """regular expression of the strings e can evaluate to"""
        import re as _re
        if isinstance(e, ast.Constant) and isinstance(e.value, str):
            return _re.escape(e.value)
        if isinstance(e, ast.Name):
            v = env.get(e.id)
            if isinstance(v, tuple) and v[0] == 're':
                return v[1]
            raise AnalysisError('%s: %s is not a string built from the argument' % (self.f.qualname, e.id))
        if isinstance(e, ast.IfExp):
            return self.text(e.body if self.cond(e.test, env) else e.orelse, env)
        if isinstance(e, ast.BinOp) and isinstance(e.op, ast.Add):
            return self.text(e.left, env) + self.text(e.right, env)
        if isinstance(e, ast.Call) and norm(e.func) in ('repr', 'str') and len(e.args) == 1:
            c = self.fval(e.args[0], env)
            if c is not None:
                return '(?:' + FLOAT_CLASSES[c][0] + ')'
            if norm(e.func) == 'str':
                return self.text(e.args[0], env)
        if isinstance(e, ast.BinOp) and isinstance(e.op, ast.Mod) and isinstance(e.left, ast.Constant) and isinstance(e.left.value, str):
            args = list(e.right.elts) if isinstance(e.right, ast.Tuple) else [e.right]
            out, i, fmt = '', 0, e.left.value
            k = 0
            while k < len(fmt):
                ch = fmt[k]
                if ch != '%':
                    out += _re.escape(ch)
                    k += 1
                    continue
                spec = fmt[k + 1] if k + 1 < len(fmt) else ''
                if spec == '%':
                    out += '%'
                elif spec in 'rs' and i < len(args):
                    a = args[i]
                    i += 1
                    c = self.fval(a, env)
                    if c is not None:
                        out += '(?:' + FLOAT_CLASSES[c][0] + ')'
                    elif spec == 's':
                        out += '(?:' + self.text(a, env) + ')'
                    else:
                        raise AnalysisError('%s: %%r of %s' % (self.f.qualname, norm(a)[:30]))
                else:
                    raise AnalysisError('%s: format %r not understood' % (self.f.qualname, fmt))
                k += 2
            if i != len(args):
                raise AnalysisError('%s: format %r and its arguments do not match' % (self.f.qualname, fmt))
            return out
        raise AnalysisError('%s: string expression %s not understood' % (self.f.qualname, norm(e)[:50]))

    def run(self, stmts, env):
        """-> ('ret', regex, tag) or ('next', env)"""
        for st in stmts:
            if isinstance(st, ast.If):
                r = self.run(st.body if self.cond(st.test, env) else st.orelse, env)
                if r[0] == 'ret':
                    return r
                env = r[1]
            elif isinstance(st, ast.Assign) and len(st.targets) == 1 and isinstance(st.targets[0], ast.Name):
                env = dict(env)
                c = self.fval(st.value, env)
                if c is not None:
                    env[st.targets[0].id] = ('fl', c)
                else:
                    env[st.targets[0].id] = ('re', self.text(st.value, env))
            elif isinstance(st, ast.Return) and isinstance(st.value, ast.Call) and isinstance(st.value.func, ast.Attribute) \
                    and st.value.func.attr == 'represent_scalar' and len(st.value.args) >= 2:
                return ('ret', self.text(st.value.args[1], env), A.const_str(st.value.args[0]))
            elif isinstance(st, (ast.Pass, ast.Expr)) and (isinstance(st, ast.Pass) or isinstance(st.value, ast.Constant)):
                continue
            else:
                raise AnalysisError('%s: statement not understood: %s' % (self.f.qualname, norm(st).split('\n')[0][:60]))
        return ('next', env)


def r_complex_text_loads(ctx, repo):
    from . import relang as RL
    rule = ctx.rule('O-COMPLEX-TEXT-LOADS', 'for every combination of float classes (negative, -0.0, 0.0, positive, inf, -inf, nan) of the '
                                            'real and imaginary part, the text represent_complex writes lies in the language complex() '
                                            'accepts - the constructor of !!python/complex applies complex() to the scalar text')
    rep = _method(repo, 'representer.Representer', 'represent_complex')
    con = _method(repo, 'constructor.FullConstructor', 'construct_python_complex')
    # reader side: complex(<the scalar text, unchanged>)
    rets = [r for r in walk_function(con.node) if isinstance(r, ast.Return)]
    ok_reader = len(rets) == 1 and isinstance(rets[0].value, ast.Call) and norm(rets[0].value.func) == 'complex' \
        and len(rets[0].value.args) == 1
    if ok_reader:
        a = rets[0].value.args[0]
        if isinstance(a, ast.Name):
            defs = [x.value for x in walk_function(con.node) if isinstance(x, ast.Assign)
                    and any(isinstance(t, ast.Name) and t.id == a.id for t in x.targets)]
            a = defs[0] if len(defs) == 1 else a
        ok_reader = isinstance(a, ast.Call) and isinstance(a.func, ast.Attribute) and a.func.attr == 'construct_scalar'
    if not ok_reader:
        raise AnalysisError('construct_python_complex is no longer complex(self.construct_scalar(node)): the accepted language is not known')
    if len(rep.params) < 2:
        raise AnalysisError('represent_complex: no data parameter')
    interp = _CxInterp(rep, rep.params[1])
    pts = RL.points_of(COMPLEX_ACCEPTS)
    results = []
    for rc in FLOAT_CLASSES:
        for ic in FLOAT_CLASSES:
            r = interp.run(rep.node.body, {rep.params[1]: ('cx', rc, ic)})
            if r[0] != 'ret':
                raise AnalysisError('represent_complex: no represent_scalar(...) result for real=%s imag=%s' % (rc, ic))
            pat = '^' + r[1] + '$'
            pts |= RL.points_of(pat)
            results.append((rc, ic, pat, r[2]))
    alpha = RL.Alphabet(pts)
    accepts = RL.compile_regex(alpha, COMPLEX_ACCEPTS)
    for rc, ic, pat, tag in results:
        d = RL.compile_regex(alpha, pat)
        inc, w = RL.included(d, accepts)
        if inc:
            rule.ok('%s:%d' % (rep.module.rel, rep.node.lineno), 'real %s, imag %s: text accepted by complex()' % (rc, ic))
        else:
            rule.fail('%s|%s|%s' % (rep.qualname, rc, ic), rep.module.rel, rep.node.lineno, rep.qualname, 'represent_complex',
                      'a complex number whose real part is %s and whose imaginary part is %s is written as %r, which complex() - '
                      'the constructor of %s - rejects with ValueError: the dumped object cannot be loaded'
                      % (_cls_words(rc), _cls_words(ic), w, tag), inp='yaml.unsafe_load(yaml.dump(complex(%r, %r)))'
                      % (FLOAT_CLASSES[rc][1], FLOAT_CLASSES[ic][1]))
    return rule


def _cls_words(c):
    return {'neg': 'negative', 'nzero': '-0.0', 'pzero': '0.0', 'pos': 'positive', 'pinf': 'inf', 'ninf': '-inf', 'nan': 'nan'}[c]


# ------------------------------------------------------------------------------------- R-CANONICAL-NO-SIMPLE-KEY
def r_canonical_no_simple_key(ctx, repo):
    """canonical=True asks for the canonical form, in which every mapping entry is written `? key : value`.  Canonical
    output is always in flow style, so the fact is decided on the emitter's flow-mapping key states: with self.canonical
    true, the branch that emits the key as a simple key (expect_node(..., simple_key=True)) is unreachable - either the
    state tests the option itself, or the predicate it relies on (check_simple_key) cannot return a true value under the
    option."""
    from .rules_emit import Scenario
    rule = ctx.rule('R-CANONICAL-NO-SIMPLE-KEY', 'with canonical=True no flow-mapping key is written as a simple key: in every state that '
                                                 'can start a key, the simple-key branch is unreachable under the option')
    E = repo.cls('emitter.Emitter')
    n_states = 0

    def simple_key_call(x):
        return isinstance(x, ast.Call) and isinstance(x.func, ast.Attribute) and x.func.attr == 'expect_node' and any(
            k.arg == 'simple_key' and isinstance(k.value, ast.Constant) and k.value.value is True for k in x.keywords)

    def predicate_false_under_canonical(name, depth=0):
        """every return of self.<name>() reachable with self.canonical true returns the constant False (or None)."""
        g = E.methods.get(name)
        if g is None or depth > 2:
            return False
        S = Scenario(repo, g)
        r = S.reach(table={'self.canonical': True})
        for n in S.cfg.nodes:
            if n in r and n.kind == 'return':
                v = n.ast.value
                if v is None or (isinstance(v, ast.Constant) and not v.value):
                    continue
                return False
        if S.cfg.exit_fall in r:
            return True         # falling off the end returns None
        return True

    for name, f in sorted(E.methods.items()):
        calls = [x for x in walk_function(f.node) if simple_key_call(x)]
        # only mapping keys in flow context: the state also writes the "?" indicator on its other branch or is named by the
        # flow-mapping states; block mappings are never written in canonical mode (expect_node chooses the flow style)
        if not calls or 'flow' not in name:
            continue
        n_states += 1
        S = Scenario(repo, f)
        cfg = S.cfg

        def hook(e, f=f):
            inner, pos = A.strip_not(e)
            if isinstance(inner, ast.Call) and isinstance(inner.func, ast.Attribute) and isinstance(inner.func.value, ast.Name) \
                    and f.params and inner.func.value.id == f.params[0] and not inner.args and not inner.keywords \
                    and inner.func.attr in E.methods and inner.func.attr.startswith('check_') \
                    and any(isinstance(x, ast.Return) and x.value is not None for x in walk_function(E.methods[inner.func.attr].node)):
                if predicate_false_under_canonical(inner.func.attr):
                    return False if pos else True      # the predicate is false under the option
            return None
        r = S.reach(table={'self.canonical': True}, hook=hook)
        for c in calls:
            nodes = cfg.nodes_of(A.enclosing_stmt(c))
            if any(n in r for n in nodes):
                rule.fail('%s|simple-key-under-canonical' % f.qualname, f.module.rel, c.lineno, f.qualname, A.anon_text(c, f.node, 60),
                          'with canonical=True this state can still write the key as a simple key (`key: value`): the canonical form '
                          'requires the explicit `? key : value` entry for every key, whatever the key is (alias, empty collection, '
                          'scalar)')
            else:
                rule.ok(f.loc(c), 'simple-key branch unreachable when canonical')
    if n_states < 2:
        raise AnalysisError('R-CANONICAL-NO-SIMPLE-KEY: only %d flow-mapping key states found' % n_states)
    return rule


# ------------------------------------------------------------------------------------- R-MARK-COMPONENTS-COHERENT
def r_mark_components_coherent(ctx, repo):
    """A Mark says "character number index is at (line, column)".  The three numbers are true together only when they are read
    from one snapshot of one position: in every Mark(name, index, line, column, ...) construction of the package (Python and
    the lowered .pyx) the three arguments are the attributes .index / .line / .column of the same object expression (or
    plain locals each bound once to such attributes of one object)."""
    rule = ctx.rule('R-MARK-COMPONENTS-COHERENT', 'index, line and column of every Mark(...) are read from one and the same position object')
    n = 0
    for f in repo.all_functions():
        for c in A.func_calls(f.node):
            if not (isinstance(c.func, ast.Name) and c.func.id == 'Mark') or c.keywords or len(c.args) < 4:
                continue
            n += 1
            bases = []
            for a, want in zip(c.args[1:4], ('index', 'line', 'column')):
                if isinstance(a, ast.Name):
                    defs = [x.value for x in walk_function(f.node) if isinstance(x, ast.Assign)
                            and any(isinstance(t, ast.Name) and t.id == a.id for t in x.targets)]
                    a = defs[0] if len(defs) == 1 else a
                if isinstance(a, ast.Attribute):
                    bases.append((norm(a.value), a.attr))
                else:
                    bases.append((None, norm(a)[:30]))
            objs = {b for b, _ in bases}
            if None in objs:
                raise AnalysisError('%s: Mark(...) built from %s, which is not an attribute of a position object'
                                    % (f.qualname, ', '.join(t for b, t in bases if b is None)))
            if len(objs) == 1:
                rule.ok(f.loc(c), 'Mark from %s' % next(iter(objs)))
            else:
                rule.fail('%s|mixed' % f.qualname, f.module.rel, c.lineno, f.qualname, A.anon_text(c, f.node, 70),
                          'this Mark takes its index / line / column from different objects (%s): a position saved earlier combined '
                          'with the current one names a place that does not exist (the line has moved on since the index and the '
                          'column were saved), so error messages and token marks point to the wrong line'
                          % ', '.join('%s from %s' % (t, b) for b, t in bases))
    if n < 2:
        raise AnalysisError('only %d Mark(...) constructions found' % n)
    return rule


# ------------------------------------------------------------------------------------------ R-DISPATCH-NAMES-CLOSED
def r_dispatch_names_closed(ctx, repo, modules):
    """The analyses follow calls by name.  A method selected by a name that is computed at run time
    (`getattr(self, 'process_%s_directive' % token.name.lower())(...)`) is reached by no call the analyses can see, and - when
    the name is derived from the input - which code runs is chosen by the document.  After normalisation (constant tables are
    expanded into the comparisons they abbreviate, literal names into attribute accesses) no such call may be left in the
    given modules: what remains cannot be analysed, so it is reported as ANALYSIS-ERROR, not as a verdict."""
    rule = ctx.rule('R-DISPATCH-NAMES-CLOSED', 'no method of the package is selected by a name computed at run time (after constant '
                                               'tables and literal names have been folded)')
    n = 0
    bad = []
    for f in repo.all_functions(modules):
        n += 1
        me = f.params[0] if f.params else None
        called_names = set()
        for x in walk_function(f.node):
            if isinstance(x, ast.Call) and isinstance(x.func, ast.Name):
                called_names.add(x.func.id)
        for x in walk_function(f.node):
            if not (isinstance(x, ast.Call) and isinstance(x.func, ast.Name) and x.func.id == 'getattr' and len(x.args) >= 2):
                continue
            if isinstance(x.args[1], ast.Constant):
                continue
            if not (isinstance(x.args[0], ast.Name) and x.args[0].id == me) and not (
                    isinstance(x.args[0], ast.Attribute) and x.args[0].attr == '__class__'):
                continue
            par = getattr(x, '_parent', None)
            is_called = isinstance(par, ast.Call) and par.func is x
            if not is_called and isinstance(par, ast.Assign) and len(par.targets) == 1 and isinstance(par.targets[0], ast.Name):
                is_called = par.targets[0].id in called_names
            if not is_called and isinstance(par, ast.BoolOp):
                gp = getattr(par, '_parent', None)
                is_called = isinstance(gp, ast.Assign) and len(gp.targets) == 1 and isinstance(gp.targets[0], ast.Name) \
                    and gp.targets[0].id in called_names
            if is_called:
                bad.append((f, x))
    if bad:
        f, x = bad[0]
        raise AnalysisError('%s:%d %s: a method is selected by a computed name (%s) and then called: the code it reaches is not '
                            'analysed, and which code runs may depend on the input' % (f.module.rel, x.lineno, f.qualname, norm(x)[:70]))
    rule.ok('%d functions' % n, 'no call through a computed method name')
    rule.instances += n
    return rule


# ----------------------------------------------------------------------------------------- R-ROOT-PLAIN-OPEN-ENDED
def r_root_plain_open_ended(ctx, repo):
    """The scanner continues a plain scalar over the following lines until a document marker (at the root of a document
    there is no indentation that could end it), so a `%YAML` / `%TAG` line written after a root-level plain scalar would be
    read as a continuation of that scalar.  The emitter prevents this with its open_ended flag, which expect_document_start
    consumes (R-DIRECTIVE-AFTER-OPEN-ENDED).  This rule decides the producing side: with self.root_context true, every way
    of writing a plain scalar (write_plain itself, or process_scalar around its call) sets self.open_ended to True before
    control returns to the state machine."""
    from .rules_emit import Scenario
    rule = ctx.rule('R-ROOT-PLAIN-OPEN-ENDED', 'a plain scalar written at the root of a document marks the document open-ended '
                                               '(self.open_ended = True on every path with self.root_context true)')
    E = repo.cls('emitter.Emitter')
    wp, ps = E.methods.get('write_plain'), E.methods.get('process_scalar')
    if wp is None or ps is None:
        raise AnalysisError('Emitter.write_plain / process_scalar have vanished')

    def sets(f):
        S = Scenario(repo, f)
        me = f.params[0]
        nodes = [n for n in S.cfg.nodes if isinstance(n.ast, ast.Assign) and any(A.is_attr(t, me, 'open_ended') for t in n.ast.targets)
                 and isinstance(n.ast.value, ast.Constant) and n.ast.value.value is True]
        return S, nodes
    S, marks = sets(wp)
    inside = False
    if marks:
        r = S.reach(table={'self.root_context': True}, blocked=marks)
        inside = not any(x in r for x in S.cfg.normal_exits())
    if inside:
        rule.ok(wp.loc(marks[0].ast), 'write_plain sets open_ended on every path when root_context is true')
        return rule
    # around the call, in process_scalar
    S2, marks2 = sets(ps)
    calls = [n for n in S2.cfg.nodes if n.ast is not None and any(
        isinstance(x, ast.Call) and isinstance(x.func, ast.Attribute) and x.func.attr == 'write_plain' for x in own_exprs(n))]
    if not calls:
        raise AnalysisError('process_scalar: the call of write_plain was not found')
    ok = bool(marks2)
    if ok:
        for c in calls:
            before = c not in S2.reach(table={'self.root_context': True}, blocked=marks2)
            starts = [m for (m, lab) in S2.cfg.succ[c] if lab != 'exc']
            after_r = S2.reach(table={'self.root_context': True}, blocked=marks2, starts=starts)
            after = not any(x in after_r for x in S2.cfg.normal_exits())
            ok = ok and (before or after)
    if ok:
        rule.ok(ps.loc(marks2[0].ast), 'process_scalar sets open_ended around every write_plain call when root_context is true')
    else:
        rule.fail('%s|root-plain' % wp.qualname, wp.module.rel, wp.node.lineno, wp.qualname, 'def write_plain',
                  'a plain scalar can be written at the root of a document (self.root_context true) without self.open_ended being '
                  'set: the next document\'s %YAML / %TAG directive is then written directly after it, and the scanner reads the '
                  'directive line as a continuation of the plain scalar (dump_all(["foo", 12], version=(1, 1)) loads as '
                  '["foo %YAML 1.1", ...])')
    return rule


# =================================================================================================== C12 rules
def _writes_indicator(n, text):
    """CFG node n writes the indicator `text` (self.write_indicator('<text>', ...))"""
    if n.ast is None:
        return False
    for x in own_exprs(n):
        if isinstance(x, ast.Call) and isinstance(x.func, ast.Attribute) and x.func.attr == 'write_indicator' and x.args \
                and isinstance(x.args[0], ast.Constant) and isinstance(x.args[0].value, str) and x.args[0].value.strip() == text:
            return True
    return False


def _emitter_scenario(repo, name):
    from .rules_emit import Scenario
    E = repo.cls('emitter.Emitter')
    f = E.methods.get(name)
    if f is None:
        raise AnalysisError('Emitter.%s has vanished' % name)
    return f, Scenario(repo, f)


def _event_hook(f, kind, repo, env=None, extra=None):
    """decides isinstance(self.event, K) for an event of class `kind`, and tests of a local bound once to a boolean
    expression by three-valued evaluation of that expression under env"""
    from . import charworld as CW
    ev = repo.modules['events']
    me = f.params[0]

    def sub(a, b):
        ka, kb = ev.classes.get(a), ev.classes.get(b)
        return ka is not None and kb is not None and (a == b or ka.is_subclass_of(kb))

    def atom(t):
        if isinstance(t, ast.Call) and isinstance(t.func, ast.Name) and t.func.id == 'isinstance' and len(t.args) == 2 \
                and A.is_attr(t.args[0], me, 'event'):
            ks = t.args[1].elts if isinstance(t.args[1], ast.Tuple) else [t.args[1]]
            if all(isinstance(k, ast.Name) for k in ks):
                return any(sub(kind, k.id) for k in ks)
        if extra is not None:
            v = extra(t)
            if v is not None:
                return v
        return CW.eval_cond(repo, t, env or {})

    def hook(e):
        inner, pos = A.strip_not(e)
        v = None
        if isinstance(inner, ast.Name) and inner.id not in (env or {}):
            defs = [x.value for x in walk_function(f.node) if isinstance(x, ast.Assign)
                    and any(isinstance(tg, ast.Name) and tg.id == inner.id for tg in x.targets)]
            if len(defs) == 1 and isinstance(defs[0], (ast.BoolOp, ast.UnaryOp, ast.Compare)):
                v = A.eval3(defs[0], atom)
        else:
            v = atom(inner)
        if v is None:
            return None
        return v if pos else (not v)
    return hook


def r_document_separators(ctx, repo):
    """C12, writing side, decided on the emitter's document states for every event payload:
    (a) a document that is not the first of the stream always gets its `---` (the implicit form exists for the first only);
    (b) an explicit document end always writes `...`;
    (c) at the end of the stream an open-ended document is closed with `...` before the stream ends."""
    rule = ctx.rule('R-DOCUMENT-SEPARATORS', 'every document after the first is introduced by "---", an explicit end writes "...", and an '
                                             'open-ended last document is closed with "..." before the stream ends')
    f, S = _emitter_scenario(repo, 'expect_document_start')
    cfg = S.cfg
    me = f.params[0]
    first = f.params[1] if len(f.params) > 1 else None
    if first is None:
        raise AnalysisError('expect_document_start: no parameter that tells the first document from the others')
    dashes = [n for n in cfg.nodes if _writes_indicator(n, '---')]
    dots = [n for n in cfg.nodes if _writes_indicator(n, '...')]
    if not dashes or not dots:
        raise AnalysisError('expect_document_start: the writes of "---" / "..." were not found')
    state_sets = [n for n in cfg.nodes if isinstance(n.ast, ast.Assign) and any(A.is_attr(t, me, 'state') for t in n.ast.targets)]
    # (a)
    r = S.reach(env={first: False}, blocked=dashes, hook=_event_hook(f, 'DocumentStartEvent', repo, {first: False}))
    leak = [n for n in state_sets if n in r and 'root' in norm(n.ast.value)] or [x for x in cfg.normal_exits() if x in r]
    if leak:
        rule.fail('%s|no-separator' % f.qualname, f.module.rel, dashes[0].lineno, f.qualname, 'write_indicator("---")',
                  'a document that is not the first of the stream can be started without "---": its text runs on from the previous '
                  'document, so the stream reads back as fewer documents (or does not parse)')
    else:
        rule.ok(f.loc(dashes[0].ast), 'documents after the first always get "---"')
    # (c)
    ends = [n for n in cfg.nodes if n.ast is not None and any(
        isinstance(x, ast.Call) and isinstance(x.func, ast.Attribute) and x.func.attr == 'write_stream_end' for x in own_exprs(n))]
    if not ends:
        raise AnalysisError('expect_document_start: write_stream_end() not found')
    r = S.reach(table={'self.open_ended': True}, blocked=dots, hook=_event_hook(f, 'StreamEndEvent', repo))
    if any(n in r for n in ends):
        rule.fail('%s|open-ended-at-end' % f.qualname, f.module.rel, ends[0].lineno, f.qualname, 'self.write_stream_end()',
                  'the stream can end while the last document is open-ended without "..." being written: the trailing line breaks of '
                  'a keep-chomped block scalar / the extent of a root plain scalar are then not what was emitted')
    else:
        rule.ok(f.loc(ends[0].ast), 'an open-ended last document is closed before the stream ends')
    # (b)
    g, S2 = _emitter_scenario(repo, 'expect_document_end')
    dots2 = [n for n in S2.cfg.nodes if _writes_indicator(n, '...')]
    r = S2.reach(table={'self.event.explicit': True}, blocked=dots2, hook=_event_hook(g, 'DocumentEndEvent', repo))
    if not dots2 or any(x in r for x in S2.cfg.normal_exits()):
        rule.fail('%s|explicit-end' % g.qualname, g.module.rel, (dots2[0].lineno if dots2 else g.node.lineno), g.qualname, 'write_indicator("...")',
                  'a DocumentEndEvent with explicit=True can be processed without writing "...": explicit_end is not honoured and '
                  'an open-ended document is not closed')
    else:
        rule.ok(g.loc(dots2[0].ast), 'explicit document end writes "..."')
    return rule


def r_keep_chomp_open_ended(ctx, repo):
    """C12: a block scalar written with the keep indicator `+` ends in line breaks that belong to it; only a following
    document marker delimits them, so the writer marks the document open-ended.  Decided for write_folded / write_literal:
    on every path on which the written hints end with '+', self.open_ended = True is assigned."""
    rule = ctx.rule('R-KEEP-CHOMP-OPEN-ENDED', 'write_folded / write_literal set self.open_ended whenever the chomping indicator they write is "+"')
    for name in ('write_folded', 'write_literal'):
        f, S = _emitter_scenario(repo, name)
        me = f.params[0]
        marks = [n for n in S.cfg.nodes if isinstance(n.ast, ast.Assign) and any(A.is_attr(t, me, 'open_ended') for t in n.ast.targets)
                 and isinstance(n.ast.value, ast.Constant) and n.ast.value.value is True]
        hint_names = {t.id for x in walk_function(f.node) if isinstance(x, ast.Assign) and isinstance(x.value, ast.Call)
                      and isinstance(x.value.func, ast.Attribute) and x.value.func.attr == 'determine_block_hints'
                      for t in x.targets if isinstance(t, ast.Name)}
        if not hint_names:
            raise AnalysisError('%s: the call of determine_block_hints was not found' % f.qualname)

        def hook(e, hint_names=hint_names):
            inner, pos = A.strip_not(e)
            v = None
            if isinstance(inner, ast.Compare) and len(inner.ops) == 1 and isinstance(inner.ops[0], (ast.Eq, ast.NotEq)) \
                    and A.const_str(inner.comparators[0]) == '+' and isinstance(inner.left, ast.Subscript) \
                    and isinstance(inner.left.value, ast.Name) and inner.left.value.id in hint_names:
                v = isinstance(inner.ops[0], ast.Eq)
            elif isinstance(inner, ast.Call) and isinstance(inner.func, ast.Attribute) and inner.func.attr == 'endswith' \
                    and isinstance(inner.func.value, ast.Name) and inner.func.value.id in hint_names and inner.args \
                    and A.const_str(inner.args[0]) == '+':
                v = True
            elif isinstance(inner, ast.Compare) and len(inner.ops) == 1 and isinstance(inner.ops[0], (ast.In, ast.NotIn)) \
                    and A.const_str(inner.left) == '+' and isinstance(inner.comparators[0], ast.Name) \
                    and inner.comparators[0].id in hint_names:
                v = isinstance(inner.ops[0], ast.In)
            if v is None:
                return None
            return v if pos else (not v)
        r = S.reach(blocked=marks, hook=hook)
        if not marks or any(x in r for x in S.cfg.normal_exits()):
            rule.fail('%s|keep' % f.qualname, f.module.rel, f.node.lineno, f.qualname, 'def %s' % name,
                      '%s can write a block scalar with the keep indicator "+" without setting self.open_ended: the "..." that '
                      'delimits its trailing line breaks from the next document (or the end of the stream) is not written' % name)
        else:
            rule.ok(f.loc(marks[0].ast), '%s: "+" implies open_ended' % name)
    return rule


# --------------------------------------------------------------------------------------------- R-LOOKUP-RUNS-NO-CODE
def r_lookup_runs_no_code(ctx, repo):
    """C04: full loading "never imports, calls or instantiates".  The one name lookup the full loader performs is
    find_python_name(unsafe=False): hasattr / getattr with a document-chosen name on an object taken from sys.modules.
    An attribute lookup is not passive in Python: a module can define `__getattr__` (PEP 562; the standard library uses it for
    lazy sub-module imports), and attributes can be descriptors.  Every such lookup with a non-constant name that is reachable
    with unsafe false is therefore reported: code chosen by the document may run, including an import."""
    rule = ctx.rule('R-LOOKUP-RUNS-NO-CODE', 'no attribute lookup with a document-chosen name is reachable in the full loader (module-level '
                                             '__getattr__ and descriptors make such a lookup run code)')
    f = _method(repo, 'constructor.FullConstructor', 'find_python_name')
    from .rules_emit import Scenario
    S = Scenario(repo, f)
    flag = None
    for p_, d in f.defaults().items():
        if isinstance(d, ast.Constant) and d.value is False:
            flag = p_
    env = {flag: False} if flag else {}
    r = S.reach(env=env)
    n = 0
    for node in S.cfg.nodes:
        if node not in r or node.ast is None:
            continue
        for x in own_exprs(node):
            if isinstance(x, ast.Call) and isinstance(x.func, ast.Name) and x.func.id in ('getattr', 'hasattr') and len(x.args) >= 2 \
                    and not isinstance(x.args[1], ast.Constant):
                n += 1
                rule.fail('%s|%s|doc-named' % (f.qualname, x.func.id), f.module.rel, x.lineno, f.qualname, A.anon_text(x, f.node, 50),
                          '%s() with a name taken from the document on an object from sys.modules is reachable in the full loader: '
                          'a module-level __getattr__ (PEP 562) or a descriptor runs code chosen by the document'
                          % x.func.id,
                          inp="import concurrent.futures; yaml.full_load('!!python/name:concurrent.futures.ThreadPoolExecutor')  "
                              "-> imports concurrent.futures.thread (module __getattr__)")
    if n == 0:
        rule.ok(f.loc(), 'no document-named attribute lookup reachable with unsafe false')
    return rule


# ------------------------------------------------------------------------------------------ R-DOCMARKER-FOLLOW-AGREE
def r_docmarker_follow_agree(ctx, repo):
    """A document marker is `---` / `...` at column 0 followed by a blank, a line break or the end of input.  The scanner tests
    that in several places (where a token starts; where a plain scalar and a quoted scalar continue on the next line), and all
    of them must agree, character for character, on what may follow the marker: a character accepted at one site only ends a
    scalar at a marker that is then not scanned as one (or the reverse).  Decided by evaluating, at every conjunction that
    compares three characters with '---' / '...', the test applied to the character after them for the probe characters."""
    from . import charworld as CW
    rule = ctx.rule('R-DOCMARKER-FOLLOW-AGREE', 'every place of the scanner that recognises a document marker accepts the same characters '
                                                'after it')
    S = repo.cls('scanner.Scanner')
    probes = sorted(set(CW.representative_chars(repo, 'scanner')) | set('\0 \t\r\n\x85  a-.'))
    sites = []
    for name, f in sorted(S.methods.items()):
        # only functions that compare three characters with a marker
        if not any(isinstance(c, ast.Constant) and c.value in ('---', '...') for c in ast.walk(f.node)):
            continue
        cfg = CFG(f.node)
        for n in cfg.nodes:
            if n.kind != 'test' or n.ast is None:
                continue
            t = n.ast
            # the atomic test of the character after the marker: `self.peek(3) in <literal>` (any spelling of membership)
            def after_marker(x):
                # self.peek(3), or the 4th character of a local holding self.prefix(n >= 4): c[3], c[3:], c[3:4]
                if isinstance(x, ast.Call) and isinstance(x.func, ast.Attribute) and x.func.attr == 'peek' \
                        and len(x.args) == 1 and A.const_value(x.args[0]) == 3:
                    return True
                if isinstance(x, ast.Subscript) and isinstance(x.value, ast.Name):
                    sl = x.slice
                    idx = A.const_value(sl.lower) if isinstance(sl, ast.Slice) and sl.lower is not None else (
                        A.const_value(sl) if not isinstance(sl, ast.Slice) else None)
                    if idx == 3 and (not isinstance(sl, ast.Slice) or sl.upper is None or A.const_value(sl.upper) == 4):
                        defs = [y.value for y in walk_function(f.node) if isinstance(y, ast.Assign)
                                and any(isinstance(tg, ast.Name) and tg.id == x.value.id for tg in y.targets)]
                        return len(defs) == 1 and isinstance(defs[0], ast.Call) and isinstance(defs[0].func, ast.Attribute) \
                            and defs[0].func.attr == 'prefix' and defs[0].args and isinstance(A.const_value(defs[0].args[0]), int) \
                            and A.const_value(defs[0].args[0]) >= 4
                return False
            peek3 = [x for x in ast.walk(t) if after_marker(x)]
            if not peek3:
                continue
            # ... in a function that compares three characters with a marker
            marker = any(isinstance(c, ast.Constant) and c.value in ('---', '...') for c in ast.walk(f.node))
            if not marker:
                continue
            acc = set()
            undecided = False
            for ch in probes:
                from .rules_emit import rebuild

                def fn(node, ch=ch):
                    if after_marker(node):
                        return ast.copy_location(ast.Constant(value=ch), node)
                    return None
                tt = rebuild(t, fn)
                v = CW.eval_cond(repo, tt, {})
                if v is None:
                    undecided = True
                elif v:
                    acc.add(ch)
            if undecided:
                raise AnalysisError('%s: the test of the character after a document marker (%s) is not decidable' % (f.qualname, norm(t)[:60]))
            sites.append((f, n, frozenset(acc)))
    if len(sites) < 2:
        raise AnalysisError('only %d document-marker tests found in the scanner (5 confirmed)' % len(sites))
    # the reference is the majority set; every site must equal it
    from collections import Counter
    ref = Counter(s for _, _, s in sites).most_common(1)[0][0]
    for f, n, acc in sites:
        if acc == ref:
            rule.ok(f.loc(n.ast), '%s: same follow set' % f.name)
        else:
            diff = sorted(acc ^ ref)
            rule.fail('%s|follow' % f.qualname, f.module.rel, n.lineno, f.qualname, A.anon_text(n.ast, f.node, 60),
                      '%s accepts a different set of characters after a document marker than the other %d places (%s differ): a '
                      'marker followed by such a character ends a scalar at one place and is not scanned as a marker at the other, so '
                      'a stream written with that line break does not keep its document boundaries'
                      % (f.name, len(sites) - 1, ', '.join(repr(c) for c in diff[:5])))
    return rule


# -------------------------------------------------------------------------------------------- R-DIRECTIVE-NAME-EXACT
def r_directive_name_exact(ctx, repo):
    """The scanner builds a directive token's value only for the exact names it compares (`name == 'YAML'`, `name == 'TAG'`);
    for any other name the value is None.  The parser unpacks the value of the directives it recognises, so it must recognise
    them by comparing the same, untransformed name with (a subset of) the same literals: a comparison after .upper() /
    .lower() / .strip() admits names for which the scanner built no value (TypeError on unpacking None)."""
    rule = ctx.rule('R-DIRECTIVE-NAME-EXACT', 'the parser recognises directives by comparing the untransformed token name with literals the '
                                              'scanner builds a value for')
    sc = _method(repo, 'scanner.Scanner', 'scan_directive')
    built = set()
    for x in walk_function(sc.node):
        if isinstance(x, ast.Compare) and len(x.ops) == 1 and isinstance(x.ops[0], (ast.Eq, ast.In, ast.NotEq, ast.NotIn)):
            for c in x.comparators:
                v = A.const_value(c)
                if isinstance(v, str):
                    built.add(v)
                elif isinstance(v, (tuple, list)):
                    built |= {y for y in v if isinstance(y, str)}
    if not built:
        raise AnalysisError('scan_directive: the names a value is built for were not found')
    pf = _method(repo, 'parser.Parser', 'process_directives')
    n = 0
    for x in walk_function(pf.node):
        if not (isinstance(x, ast.Compare) and len(x.ops) == 1 and isinstance(x.ops[0], (ast.Eq, ast.NotEq, ast.In, ast.NotIn))):
            continue
        sides = [x.left] + list(x.comparators)
        # a local bound once to (an expression over) the token's name stands for that expression
        resolved = []
        for sd in sides:
            if isinstance(sd, ast.Name):
                vals = A.local_values(pf.node, sd, pf.params)
                if len(vals) == 1 and any(isinstance(y, ast.Attribute) and y.attr == 'name' for y in ast.walk(vals[0])):
                    sd = vals[0]
            resolved.append(sd)
        sides = resolved
        name_side = [s for s in sides if any(isinstance(y, ast.Attribute) and y.attr == 'name' for y in ast.walk(s))]
        if not name_side:
            continue
        n += 1
        s0 = name_side[0]
        lits = set()
        for s in sides:
            if s is s0:
                continue
            v = A.const_value(s)
            if isinstance(v, str):
                lits.add(v)
            elif isinstance(v, (tuple, list)):
                lits |= {y for y in v if isinstance(y, str)}
        if not (isinstance(s0, ast.Attribute) and s0.attr == 'name'):
            rule.fail('%s|transformed' % pf.qualname, pf.module.rel, x.lineno, pf.qualname, A.anon_text(x, pf.node, 60),
                      'the directive name is transformed (%s) before it is compared: names the scanner built no value for (it compares '
                      'the exact names %s) are taken for known directives and their value None is unpacked - TypeError instead of '
                      'the directive being ignored' % (norm(s0)[:40], ', '.join(sorted(built))))
        elif not lits <= built:
            rule.fail('%s|unknown-name' % pf.qualname, pf.module.rel, x.lineno, pf.qualname, A.anon_text(x, pf.node, 60),
                      'the parser recognises the directive name(s) %s, for which the scanner builds no value'
                      % ', '.join(sorted(lits - built)))
        else:
            rule.ok(pf.loc(x), 'token.name compared with %s' % ', '.join(sorted(lits)))
    if n < 2:
        raise AnalysisError('process_directives: only %d comparisons of the directive name found' % n)
    return rule
