"""Rules added after round 10 of independent breaking edits.  Each states a necessary condition generally (never the edit).

R-SIMPLE-KEY-SETTLED     a token that cannot belong to a simple key is queued only after the key candidate of the current flow
                         level has been dropped; the level counter is decremented only after that, too (C09, C06).
"""
import ast

from . import astutil as A
from .cfg import CFG, own_exprs
from .srcmodel import AnalysisError, FuncInfo, norm, walk_function
from .rules_r6 import _method


# ---------------------------------------------------------------------------------------------- R-SIMPLE-KEY-SETTLED
# Token classes after which an earlier candidate can no longer become a key (YAML 1.1: a simple key is
# [properties] node-start ... ':' on one line; these tokens are none of that).  This table is the oracle, taken from the
# token grammar at the top of scanner.py / parser.py, not from the code of the fetch_* functions.
ENDS_CANDIDATE = {'FlowSequenceEndToken', 'FlowMappingEndToken', 'FlowEntryToken', 'BlockEntryToken', 'KeyToken',
                  'DocumentStartToken', 'DocumentEndToken', 'DirectiveToken', 'StreamEndToken'}


def _self_calls(f, node):
    me = f.params[0] if f.params else 'self'
    for x in ast.walk(node):
        if isinstance(x, ast.Call) and isinstance(x.func, ast.Attribute) and isinstance(x.func.value, ast.Name) \
                and x.func.value.id == me:
            yield x


def _is_keys_sub(f, e, level_only=True):
    """e is self.possible_simple_keys[self.flow_level]"""
    me = f.params[0] if f.params else 'self'
    return isinstance(e, ast.Subscript) and A.is_attr(e.value, me, 'possible_simple_keys') \
        and (not level_only or A.is_attr(e.slice, me, 'flow_level'))


def _is_level_test(f, t):
    """t is `self.flow_level in self.possible_simple_keys` -> True, `... not in ...` -> False, else None"""
    me = f.params[0] if f.params else 'self'
    if isinstance(t, ast.Compare) and len(t.ops) == 1 and A.is_attr(t.left, me, 'flow_level') \
            and A.is_attr(t.comparators[0], me, 'possible_simple_keys'):
        if isinstance(t.ops[0], ast.In):
            return True
        if isinstance(t.ops[0], ast.NotIn):
            return False
    return None


class _KeyModel:
    """which methods of Scanner leave no candidate for the current level on every normal path ("removers")."""

    def __init__(self, repo, S):
        self.repo, self.S = repo, S
        self.methods = {}
        for k in S.mro_classes():
            for name, f in k.methods.items():
                self.methods.setdefault(name, f)
        self.cfgs = {}
        self.removers = set()
        changed = True
        while changed:
            changed = False
            for name, f in self.methods.items():
                if name in self.removers or f.is_generator:
                    continue
                if not any(True for _ in self.settle_points(f)[0]) and not self.settle_points(f)[1]:
                    continue
                cfg = self.cfg(f)
                nodes, edges = self.settle_points(f)
                r = cfg.reach([cfg.entry], blocked=nodes, blocked_edges=edges, follow_exc=False)
                if not any(x in r for x in cfg.normal_exits()):
                    self.removers.add(name)
                    changed = True

    def cfg(self, f):
        if f not in self.cfgs:
            self.cfgs[f] = CFG(f.node)
        return self.cfgs[f]

    def settle_points(self, f):
        """(nodes, edges) after which the current level has no candidate: `del keys[level]`, a call of a remover, the
        no-entry edge of the membership test."""
        cfg = self.cfg(f)
        nodes, edges = [], []
        for n in cfg.nodes:
            if n.ast is None:
                continue
            if n.kind == 'test':
                v = _is_level_test(f, n.ast)
                if v is not None:
                    edges.append((n, not v))
                continue
            if isinstance(n.ast, ast.Delete) and any(_is_keys_sub(f, t) for t in n.ast.targets):
                nodes.append(n)
                continue
            for x in own_exprs(n):
                if isinstance(x, ast.Call) and isinstance(x.func, ast.Attribute) and x.func.attr in self.removers \
                        and isinstance(x.func.value, ast.Name) and f.params and x.func.value.id == f.params[0]:
                    nodes.append(n)
                    break
                if isinstance(x, ast.Call) and isinstance(x.func, ast.Attribute) and x.func.attr == 'pop' \
                        and A.is_attr(x.func.value, f.params[0] if f.params else 'self', 'possible_simple_keys') \
                        and x.args and A.is_attr(x.args[0], f.params[0], 'flow_level'):
                    nodes.append(n)
                    break
        return nodes, edges

    def stores(self, f):
        """nodes that (may) record a new candidate for the current level."""
        out = []
        for n in self.cfg(f).nodes:
            if n.ast is None:
                continue
            if isinstance(n.ast, ast.Assign) and any(_is_keys_sub(f, t, level_only=False) for t in n.ast.targets):
                out.append(n)
        return out


def _token_classes_appended(repo, model, f, callers_of):
    """[(node, class name)] for self.tokens.append(K(...)) / insert(i, K(...)) in f; K may be a parameter of f, then the
    classes the callers pass."""
    me = f.params[0] if f.params else 'self'
    cfg = model.cfg(f)
    out = []
    for n in cfg.nodes:
        if n.ast is None:
            continue
        for x in own_exprs(n):
            if isinstance(x, ast.Call) and isinstance(x.func, ast.Attribute) and x.func.attr in ('append', 'insert') \
                    and A.is_attr(x.func.value, me, 'tokens') and x.args:
                tok = x.args[-1]
                if isinstance(tok, ast.Call) and isinstance(tok.func, ast.Name):
                    nm = tok.func.id
                    if nm in f.params:
                        i = f.params.index(nm)
                        for g, call in callers_of.get(f.name, []):
                            a = None
                            if i - 1 < len(call.args):
                                a = call.args[i - 1]
                            for kw in call.keywords:
                                if kw.arg == nm:
                                    a = kw.value
                            if isinstance(a, ast.Name):
                                out.append((n, a.id))
                            else:
                                raise AnalysisError('%s: token class passed by %s not resolved' % (f.qualname, g.qualname))
                    else:
                        out.append((n, nm))
                elif isinstance(tok, ast.Call) and isinstance(tok.func, ast.Attribute) and A.is_attr(tok.func, me) \
                        and tok.func.attr == 'scan_block_scalar':
                    out.append((n, 'block ScalarToken'))
    return out


def r_simple_key_settled(ctx, repo):
    rule = ctx.rule('R-SIMPLE-KEY-SETTLED',
                    'a token that cannot be part of a simple key (flow end, flow entry, block entry, "?", document markers, directive, '
                    'stream end, block scalar) is queued only after the key candidate of the current flow level has been dropped, and '
                    'flow_level is decremented only after that: a candidate never survives the construct it was found in')
    S = repo.cls('scanner.Scanner')
    model = _KeyModel(repo, S)
    if not model.removers:
        raise AnalysisError('Scanner: no method drops possible_simple_keys[flow_level] on every path')
    callers_of = {}
    for name, f in model.methods.items():
        for c in _self_calls(f, f.node):
            callers_of.setdefault(c.func.attr, []).append((f, c))
    n_tok = n_dec = 0
    for name, f in sorted(model.methods.items()):
        if f.is_generator or name in ('__init__',):
            continue
        me = f.params[0] if f.params else 'self'
        cfg = model.cfg(f)
        nodes, edges = model.settle_points(f)
        stores = model.stores(f)
        # tokens
        for n, cname in _token_classes_appended(repo, model, f, callers_of):
            if cname not in ENDS_CANDIDATE and cname != 'block ScalarToken':
                continue
            n_tok += 1
            # every path entry -> n passes a settle point, and none passes a store after its last settle point
            r = cfg.reach([cfg.entry], blocked=nodes, blocked_edges=edges, follow_exc=False)
            bad = n in r
            if not bad and stores:
                for s in stores:
                    starts = [m for (m, lab) in cfg.succ[s] if lab != 'exc']
                    if n in cfg.reach(starts, blocked=nodes, blocked_edges=edges, follow_exc=False):
                        bad = True
            if bad:
                rule.fail('%s|%s' % (f.qualname, cname), f.module.rel, n.lineno, f.qualname, A.anon_text(n.ast, f.node, 60),
                          'a %s is queued on a path on which the simple-key candidate of the current flow level has not been '
                          'dropped: a later ":" on the same line makes the stale candidate a key, KEY is inserted in front of the '
                          'wrong token (token order and marks are no longer those of the grammar; LibYAML drops the candidate here)'
                          % cname)
            else:
                rule.ok(f.loc(n.ast), '%s queued after the candidate was dropped' % cname)
        # level decrement
        for n in cfg.nodes:
            if n.ast is None:
                continue
            a = n.ast
            dec = (isinstance(a, ast.AugAssign) and isinstance(a.op, ast.Sub) and A.is_attr(a.target, me, 'flow_level')) or \
                  (isinstance(a, ast.Assign) and any(A.is_attr(t, me, 'flow_level') for t in a.targets)
                   and isinstance(a.value, ast.BinOp) and isinstance(a.value.op, ast.Sub) and A.is_attr(a.value.left, me, 'flow_level'))
            if not dec:
                continue
            n_dec += 1
            r = cfg.reach([cfg.entry], blocked=nodes, blocked_edges=edges, follow_exc=False)
            if n in r:
                rule.fail('%s|level-close' % f.qualname, f.module.rel, n.lineno, f.qualname, A.anon_text(a, f.node, 50),
                          'flow_level is decremented on a path on which the candidate recorded for the closing level has not been '
                          'dropped: possible_simple_keys keeps an entry for a level that no longer exists, which is revived with a '
                          'stale token number when that level is entered again on the same line')
            else:
                rule.ok(f.loc(a), 'the closing level\'s candidate is dropped before flow_level is decremented')
    if n_tok < 5 or n_dec < 1:
        raise AnalysisError('R-SIMPLE-KEY-SETTLED: only %d candidate-ending tokens and %d level decrements found' % (n_tok, n_dec))
    return rule
