"""Registry reconstruction and the ownership rules (DESIGN 3.4, C10, C01, C04).

* discover the class-level registries and the classmethods that write them;
* R-COW: every write is preceded, on every path, by the ownership test-and-copy;
* R-SOLE-WRITER: nothing else in the package writes or rebinds a registry;
* fold the module-level registration statements over an abstract heap using the
  *derived* summaries, giving the effective table of every class.
"""
import ast

from . import astutil as A
from .cfg import CFG
from .srcmodel import AnalysisError, ClassInfo, FuncInfo, Ref, attr_chain, norm, walk_function

FRESH_DICT_CALLS = {'dict', 'collections.OrderedDict', 'OrderedDict'}


class Registry:
    def __init__(self, name, decl_cls):
        self.name = name
        self.decl_cls = decl_cls      # class that declares the initial {}
        self.writers = []             # Writer objects

    def __repr__(self):
        return 'Registry(%s on %s)' % (self.name, self.decl_cls.qualname)


class Writer:
    """An add_* classmethod and its derived effect summary."""

    def __init__(self, func, registry):
        self.func = func
        self.registry = registry
        self.cow = None          # True: copy-on-write holds; False: violated
        self.deep = None         # element copy (needed when elements are mutated)
        self.needs_deep = False
        self.problems = []       # (key, node, why)
        self.key_params = []     # parameter names used as key
        self.value_param = None
        self.mutations = []


def _is_empty_dict(node):
    return (isinstance(node, ast.Dict) and not node.keys) or \
           (isinstance(node, ast.Call) and norm(node.func) == 'dict' and not node.args and not node.keywords)


def discover_registries(repo):
    """{name: Registry}: class-level dict attributes mutated through `cls` by a classmethod."""
    regs = {}
    for cls in repo.classes.values():
        for f in cls.methods.values():
            if not f.params or not f.is_classmethod:
                continue
            first = f.params[0]
            names = set()
            for mu in A.find_mutations(f.node):
                if A.is_attr(mu.root, first):
                    names.add(mu.root.attr)
            for name in names:
                found = repo.lookup(cls, name)
                if found is None or isinstance(found[1], FuncInfo):
                    continue
                owner, values = found
                if not any(isinstance(v, (ast.Dict, ast.Call)) for v in values):
                    continue
                if not any(isinstance(v, ast.Dict) or _is_empty_dict(v) for v in values):
                    continue
                reg = regs.get(name)
                if reg is None:
                    reg = regs[name] = Registry(name, owner)
                reg.writers.append(Writer(f, reg))
    return regs


# ---------------------------------------------------------------------------
# R-COW

def _owned_polarity(test, cls_name, reg):
    """If `test` decides ownership of cls.<reg>, return the edge label on which the class
    is known to own the registry already (True / False); else None."""
    inner, pos = A.strip_not(test)
    if isinstance(inner, ast.Compare) and len(inner.ops) == 1:
        left, op, right = inner.left, inner.ops[0], inner.comparators[0]
        if isinstance(left, ast.Constant) and left.value == reg and _is_cls_dict(right, cls_name):
            if isinstance(op, ast.In):
                return pos
            if isinstance(op, ast.NotIn):
                return not pos
    if isinstance(inner, ast.Call) and norm(inner.func) == 'hasattr':
        return None
    return None


def _is_cls_dict(node, cls_name):
    if A.is_attr(node, cls_name, '__dict__'):
        return True
    if isinstance(node, ast.Call) and norm(node.func) == 'vars' and len(node.args) == 1 \
            and isinstance(node.args[0], ast.Name) and node.args[0].id == cls_name:
        return True
    return False


def _copy_kind(expr, cls_name, reg, fnode):
    """Classify the right-hand side of `cls.R = expr`.

    returns (fresh, from_inherited, deep): fresh = a new dict object; from_inherited = built
    from cls.R; deep = each value list is itself copied."""
    target = '%s.%s' % (cls_name, reg)
    if isinstance(expr, ast.Call):
        fn = norm(expr.func)
        if fn == target + '.copy' and not expr.args:
            return True, True, False
        if fn in ('dict', 'collections.OrderedDict') and len(expr.args) == 1 and norm(expr.args[0]) == target:
            return True, True, False
        if fn in ('copy.copy',) and len(expr.args) == 1 and norm(expr.args[0]) == target:
            return True, True, False
        if fn in ('copy.deepcopy',) and len(expr.args) == 1 and norm(expr.args[0]) == target:
            return True, True, True
        if fn == 'dict' and not expr.args:
            return True, False, False
    if isinstance(expr, ast.Dict):
        inherited = any(k is None and norm(v) == target for k, v in zip(expr.keys, expr.values))
        return True, inherited or not expr.keys and False, False
    if isinstance(expr, ast.DictComp):
        src = norm(expr.generators[0].iter) if expr.generators else ''
        inherited = src.startswith(target)
        return True, inherited, _is_elem_copy(expr.value)
    if isinstance(expr, ast.Name):
        return _local_dict_copy(expr.id, cls_name, reg, fnode)
    return False, False, False


def _is_elem_copy(v):
    if isinstance(v, ast.Subscript) and isinstance(v.slice, ast.Slice) \
            and v.slice.lower is None and v.slice.upper is None and v.slice.step is None:
        return True
    if isinstance(v, ast.Call):
        fn = norm(v.func)
        if fn in ('list', 'copy.copy', 'copy.deepcopy') and len(v.args) == 1:
            return True
        if isinstance(v.func, ast.Attribute) and v.func.attr == 'copy' and not v.args:
            return True
    if isinstance(v, ast.List) and len(v.elts) == 1 and isinstance(v.elts[0], ast.Starred):
        return True
    if isinstance(v, ast.BinOp) and isinstance(v.op, ast.Add) and isinstance(v.right, ast.List) and not v.right.elts:
        return True
    return False


def _local_dict_copy(name, cls_name, reg, fnode):
    """`name` is a local bound to a fresh dict and filled from a loop over cls.R."""
    target = '%s.%s' % (cls_name, reg)
    binds = []
    stores = []
    for n in walk_function(fnode):
        if isinstance(n, ast.Assign):
            for t in n.targets:
                if isinstance(t, ast.Name) and t.id == name:
                    binds.append(n.value)
                if isinstance(t, ast.Subscript) and isinstance(t.value, ast.Name) and t.value.id == name:
                    stores.append(n)
    if not binds:
        return False, False, False
    fresh = True
    inherited = False
    deep = True
    for b in binds:
        if _is_empty_dict(b):
            continue
        f, i, d = _copy_kind(b, cls_name, reg, fnode) if not isinstance(b, ast.Name) else (False, False, False)
        if not f:
            fresh = False
        inherited = inherited or i
        if i and not d:
            deep = False
    for st in stores:
        # must be inside a loop over cls.R
        p = st
        in_loop = False
        while p is not None and p is not fnode:
            if isinstance(p, ast.For) and norm(p.iter).startswith(target):
                in_loop = True
            p = getattr(p, '_parent', None)
        if in_loop:
            inherited = True
            if not _is_elem_copy(st.value):
                deep = False
    # name.update(X): X must be the inherited table itself; anything else means the new table is not (only) a copy of it
    foreign_fill = False
    for n in walk_function(fnode):
        if isinstance(n, ast.Call) and isinstance(n.func, ast.Attribute) and isinstance(n.func.value, ast.Name) \
                and n.func.value.id == name and n.func.attr in ('update', 'setdefault', '__setitem__'):
            srcs = [norm(a) for a in n.args]
            if n.func.attr == 'update' and srcs and srcs[0] in (target, '%s.items()' % target, 'dict(%s)' % target):
                inherited = True
                deep = False
            else:
                foreign_fill = True
    for st in stores:
        p = st
        ok_loop = False
        while p is not None and p is not fnode:
            if isinstance(p, ast.For) and norm(p.iter).startswith(target):
                ok_loop = True
            p = getattr(p, '_parent', None)
        if not ok_loop:
            foreign_fill = True
    if foreign_fill:
        inherited = False
    if not stores and not inherited:
        deep = False
    return fresh, inherited, deep


def _alias_depths(fnode, cls_name, reg):
    """{local name: depth} for locals that may refer to cls.<reg> (0), one of its values (1), an entry of a value (2) ..."""
    alias = {}

    def depth(e):
        if A.is_attr(e, cls_name, reg):
            return 0
        if isinstance(e, ast.Name):
            return alias.get(e.id)
        if isinstance(e, ast.Subscript) and not isinstance(e.slice, ast.Slice):
            d = depth(e.value)
            return None if d is None else d + 1
        if isinstance(e, ast.Call) and isinstance(e.func, ast.Attribute) and e.func.attr in ('get', 'setdefault', 'pop', '__getitem__'):
            d = depth(e.func.value)
            return None if d is None else d + 1
        if isinstance(e, ast.IfExp):
            ds = [x for x in (depth(e.body), depth(e.orelse)) if x is not None]
            return min(ds) if ds else None
        if isinstance(e, ast.BoolOp):
            ds = [x for x in map(depth, e.values) if x is not None]
            return min(ds) if ds else None
        return None

    def elem_depth(it):
        """depth of what iterating `it` yields (None: not part of the registry), and the position for tuple targets."""
        if isinstance(it, ast.Call) and isinstance(it.func, ast.Attribute) and not it.args:
            d = depth(it.func.value)
            if d is not None and it.func.attr == 'values':
                return d + 1, None
            if d is not None and it.func.attr == 'items':
                return d + 1, 1
            if d is not None and it.func.attr == 'keys':
                return None, None
        if isinstance(it, ast.Call) and norm(it.func) in ('reversed', 'iter', 'list', 'tuple', 'sorted') and len(it.args) == 1:
            return elem_depth(it.args[0])
        if isinstance(it, ast.Call) and norm(it.func) == 'enumerate' and it.args:
            d, pos = elem_depth(it.args[0])
            return (d, 1) if d is not None and pos is None else (None, None)
        d = depth(it)
        if d is not None and d >= 1:
            return d + 1, None          # iterating a value (a list) yields its entries
        return None, None

    def bind(t, d):
        if isinstance(t, ast.Name) and d is not None and alias.get(t.id, 99) > d:
            alias[t.id] = d
            return True
        return False
    changed = True
    while changed:
        changed = False
        for n in walk_function(fnode):
            if isinstance(n, ast.Assign):
                d = depth(n.value)
                for t in n.targets:
                    changed |= bind(t, d)
            elif isinstance(n, ast.NamedExpr):
                changed |= bind(n.target, depth(n.value))
            elif isinstance(n, (ast.For, ast.comprehension)):
                d, pos = elem_depth(n.iter)
                if d is None:
                    continue
                if pos is None:
                    changed |= bind(n.target, d)
                elif isinstance(n.target, (ast.Tuple, ast.List)) and pos < len(n.target.elts):
                    changed |= bind(n.target.elts[pos], d)
    return alias


def check_cow(repo, writer):
    f = writer.func
    reg = writer.registry.name
    fnode = f.node
    if not f.is_classmethod:
        writer.problems.append(('not-classmethod', fnode,
                                '%s writes the class registry %s but is not a classmethod' % (f.qualname, reg)))
    cls_name = f.params[0]
    muts = [m for m in A.find_mutations(fnode) if A.is_attr(m.root, cls_name, reg)]
    # local aliases of cls.R or of something inside it: x = cls.R ; v = cls.R.setdefault(k, []) ; for e in v: ...  Each alias
    # has a depth: 0 the table, 1 one of its values (for the implicit resolvers: the list of a first character), 2 an entry
    # of such a value, ...  A mutation through an alias at depth d is a mutation of cls.R at depth d + (its own depth).
    alias = _alias_depths(fnode, cls_name, reg)
    alias_depth_of = {}
    for m in A.find_mutations(fnode):
        if isinstance(m.root, ast.Name) and m.root.id in alias and m.kind != 'rebind':
            alias_depth_of[id(m)] = alias[m.root.id]
            muts.append(m)
    rebinds = [m for m in muts if m.kind == 'rebind']
    writes = [m for m in muts if m.kind != 'rebind']
    writer.mutations = writes
    LISTOPS = ('append', 'extend', 'insert', 'remove', 'pop', 'clear', 'sort', 'reverse', 'add', 'update', 'discard')

    def total_depth(m):
        return m.depth + alias_depth_of.get(id(m), 0)
    writer.needs_deep = any(total_depth(m) >= 1 and m.kind.startswith('call:') and m.kind[5:] in LISTOPS for m in writes) \
        or any(total_depth(m) >= 1 and m.kind in ('setitem', 'delitem') for m in writes)
    entry_muts = [m for m in writes if total_depth(m) >= 2 and
                  ((m.kind.startswith('call:') and m.kind[5:] in LISTOPS) or m.kind in ('setitem', 'delitem', 'augassign'))]
    cfg = CFG(fnode)
    good_rebind_nodes = []
    all_deep = True
    any_copy = False
    for rb in rebinds:
        fresh, inherited, deep = _copy_kind(rb.stmt.value, cls_name, reg, fnode) \
            if isinstance(rb.stmt, ast.Assign) else (False, False, False)
        if not fresh:
            writer.problems.append(('rebind-not-fresh|' + norm(rb.stmt), rb.stmt,
                                    '%s rebinds cls.%s to a value that is not a fresh copy' % (f.qualname, reg)))
            continue
        if not inherited:
            writer.problems.append(('rebind-not-inherited|' + reg, rb.stmt,
                                    '%s makes cls.%s a fresh table that is not a copy of the one the class inherits (cls.%s): the '
                                    'class starts from other contents than the table it was using (e.g. a merge over the whole MRO '
                                    'resurrects registrations made on a base after a nearer ancestor took its own copy)'
                                    % (f.qualname, reg, reg)))
            continue
        any_copy = True
        if inherited and not deep:
            all_deep = False
        good_rebind_nodes.extend(cfg.nodes_of(rb.stmt))
    owned_edges = []
    for n in cfg.nodes:
        if n.kind == 'test':
            pol = _owned_polarity(n.ast, cls_name, reg)
            if pol is not None:
                owned_edges.append((n, pol))
    cow = True
    for m in writes:
        for node in cfg.nodes_of(m.stmt) or []:
            if not cfg.guarded(node, nodes=good_rebind_nodes, edges=owned_edges):
                cow = False
                writer.problems.append((
                    'unowned-write|' + norm(m.stmt), m.stmt,
                    '%s mutates cls.%s on a path where the class does not own the registry '
                    '(no `if %r not in cls.__dict__: cls.%s = <copy>` before it): the write lands in the '
                    'table inherited from a base class and is seen by every class sharing it'
                    % (f.qualname, reg, reg, reg)))
                break
    if writer.needs_deep and any_copy and not all_deep:
        writer.problems.append((
            'shallow-copy|' + reg, rebinds[0].stmt if rebinds else fnode,
            '%s copies cls.%s shallowly but then mutates its value lists in place: the lists stay '
            'shared with the base class' % (f.qualname, reg)))
    if entry_muts and not all(isinstance(rb.stmt, ast.Assign) and isinstance(rb.stmt.value, ast.Call)
                              and norm(rb.stmt.value.func) == 'copy.deepcopy' for rb in rebinds if rb.stmt is not None):
        m = entry_muts[0]
        writer.problems.append((
            'entry-mutated|' + reg, m.stmt,
            '%s changes an entry of a value of cls.%s in place (%s): the first-write copy duplicates the table and its value lists, '
            'not the entries, so the entry is the one shared with the base class and with every class that copied it before'
            % (f.qualname, reg, norm(m.stmt).split('\n')[0][:60])))
        cow = False
    writer.cow = cow and any_copy or (cow and not writes)
    writer.deep = all_deep
    # parameter roles (key / value) from the first direct store
    for m in writes:
        if m.kind == 'setitem' and m.depth == 0 and isinstance(m.stmt, ast.Assign):
            subs = [t for t in m.stmt.targets if isinstance(t, ast.Subscript)]
            if not subs:
                continue
            t = subs[0]
            writer.key_params = sorted(A.names_read(t.slice) & set(f.params))
            if isinstance(m.stmt.value, ast.Name):
                writer.value_param = m.stmt.value.id
    return writer


# ---------------------------------------------------------------------------
# R-SOLE-WRITER

def sole_writer_violations(repo, regs):
    """Mutations / rebindings of any registry outside its add_* writers and class-body declarations."""
    out = []
    names = set(regs)
    writer_funcs = {w.func.node for r in regs.values() for w in r.writers}
    for f in repo.all_functions():
        if f.node in writer_funcs:
            # inside a writer only its own registry may be touched (through cls)
            own = {r.name for r in regs.values() for w in r.writers if w.func.node is f.node}
        else:
            own = set()
        alias = {}
        for n in walk_function(f.node):
            if isinstance(n, ast.Assign) and isinstance(n.value, ast.Attribute) and n.value.attr in names:
                for t in n.targets:
                    if isinstance(t, ast.Name):
                        alias[t.id] = n.value.attr
        for m in A.find_mutations(f.node):
            reg = None
            if isinstance(m.root, ast.Attribute) and m.root.attr in names:
                reg = m.root.attr
            elif isinstance(m.root, ast.Name) and m.root.id in alias and m.kind != 'rebind':
                reg = alias[m.root.id]
            if reg is None or reg in own:
                continue
            out.append((f, m, reg))
    # setattr(K, 'yaml_x', ...) anywhere
    for f in repo.all_functions():
        for c in A.func_calls(f.node):
            if norm(c.func) == 'setattr' and len(c.args) >= 2:
                s = A.const_str(c.args[1])
                if s in names:
                    out.append((f, A.Mutation(c, A.enclosing_stmt(c), c.args[0], 'setattr'), s))
    return out


def class_body_declarations(repo, regs):
    """(cls, name, value node, ok) for every class-level binding of a registry name."""
    out = []
    for cls in repo.classes.values():
        for name in regs:
            for v in cls.attrs.get(name, []):
                ok = _is_empty_dict(v) or (isinstance(v, ast.Dict) and all(k is not None for k in v.keys))
                out.append((cls, name, v, ok))
    return out


# ---------------------------------------------------------------------------
# folding the module-level registrations

class Heap:
    """Abstract heap: which dict object each class owns for each registry."""

    def __init__(self, repo, regs):
        self.repo = repo
        self.regs = regs
        self.own = {}        # (cls qualname, reg) -> table dict  (key -> value)
        self.events = []     # (module, lineno, cls, reg, key, value, landed_in_cls)
        self.dynamic = []    # (module, for-statement, [(class or None, writer name)]) registrations computed at import time
        for cls, name, v, ok in class_body_declarations(repo, regs):
            self.own[(cls.qualname, name)] = {}

    def owner(self, cls, reg):
        for k in cls.mro:
            if isinstance(k, ClassInfo) and (k.qualname, reg) in self.own:
                return k
        return None

    def table(self, cls, reg):
        o = self.owner(cls, reg)
        return self.own[(o.qualname, reg)] if o else {}

    def register(self, writer, cls, key, value, where):
        reg = writer.registry.name
        o = self.owner(cls, reg)
        if o is None:
            raise AnalysisError('registry %s not declared in the MRO of %s' % (reg, cls.qualname))
        if o is not cls and writer.cow:
            src = self.own[(o.qualname, reg)]
            if writer.needs_deep and writer.deep:
                new = {k: (list(v) if isinstance(v, list) else v) for k, v in src.items()}
            else:
                new = dict(src)          # shallow: value lists stay shared (aliasing is real)
            self.own[(cls.qualname, reg)] = new
            o = cls
        tbl = self.own[(o.qualname, reg)]
        if writer.needs_deep or isinstance(key, list):
            keys = key if isinstance(key, list) else [key]
            for k in keys:
                tbl.setdefault(k, []).append(value)
        else:
            tbl[key] = value
        self.events.append((where, cls, reg, key, value, o))


def _literal_seq(node):
    """list('abc') / ['a', 'b'] / ('a',) -> python list, else NotImplemented."""
    if isinstance(node, ast.Call) and norm(node.func) == 'list' and len(node.args) == 1:
        s = A.const_str(node.args[0])
        if s is not None:
            return list(s)
    v = A.const_value(node)
    if v is not NotImplemented and isinstance(v, (list, tuple)):
        return list(v)
    if v is not NotImplemented and isinstance(v, str):
        return list(v)          # iterating a string gives its characters, as list('...') does
    if v is None:
        return None
    return NotImplemented


class Registration:
    def __init__(self, module, stmt, cls, writer, key, value, value_text, extra=None):
        self.module = module
        self.stmt = stmt
        self.cls = cls
        self.writer = writer
        self.key = key
        self.value = value
        self.value_text = value_text
        self.extra = extra or {}


def fold_registrations(repo, regs, module_order=None):
    writers_by_name = {}
    for r in regs.values():
        for w in r.writers:
            writers_by_name.setdefault(w.func.name, []).append(w)
    heap = Heap(repo, regs)
    registrations = []
    order = module_order or ['error', 'tokens', 'events', 'nodes', 'reader', 'scanner', 'parser', 'composer',
                             'constructor', 'resolver', 'loader', 'emitter', 'serializer', 'representer',
                             'dumper', 'cyaml', '__init__']
    mods = [repo.modules[m] for m in order if m in repo.modules]
    mods += [m for m in repo.modules.values() if m not in mods and m.kind == 'py']

    def handle(m, st, env):
        if isinstance(st, ast.Expr) and isinstance(st.value, ast.Call):
            call = st.value
            if isinstance(call.func, ast.Attribute) and call.func.attr in writers_by_name:
                target = repo.resolve_expr(m, call.func.value)
                if target is None or target.kind != 'class':
                    raise AnalysisError('%s:%d: cannot resolve the class of registration %s'
                                        % (m.rel, st.lineno, norm(call.func)))
                cls = target.obj
                found = repo.lookup(cls, call.func.attr)
                if found is None or not isinstance(found[1], FuncInfo):
                    raise AnalysisError('%s:%d: %s is not a method of %s' % (m.rel, st.lineno, call.func.attr, cls.qualname))
                cands = [w for w in writers_by_name[call.func.attr] if w.func is found[1]]
                # a writer may touch several registries; the registration lands in the one it stores a key into
                keyed = [w for w in cands if w.key_params or w.needs_deep or w.value_param]
                w = keyed[0] if keyed else (cands[0] if cands else None)
                if w is None:
                    raise AnalysisError('%s:%d: %s resolves to an unanalysed writer' % (m.rel, st.lineno, norm(call.func)))
                args = list(call.args)
                kw = {k.arg: k.value for k in call.keywords}
                params = w.func.params[1:]
                bound = {}
                for p, a in zip(params, args):
                    bound[p] = a
                bound.update(kw)
                reg = w.registry.name
                where = '%s:%d' % (m.rel, st.lineno)
                if reg == 'yaml_implicit_resolvers':
                    tag = A.const_value(_subst(bound.get('tag'), env))
                    first = _literal_seq(_subst(bound.get('first'), env)) if bound.get('first') is not None else None
                    if first is NotImplemented or tag is NotImplemented:
                        raise AnalysisError('%s: non-literal implicit resolver registration' % where)
                    keys = first if first is not None else [None]
                    rx = bound.get('regexp')
                    heap.register(w, cls, list(keys), (tag, rx), where)
                    registrations.append(Registration(m, st, cls, w, list(keys), (tag, rx), norm(rx),
                                                      {'tag': tag, 'regexp': rx, 'first': first}))
                elif reg == 'yaml_path_resolvers':
                    heap.register(w, cls, norm(bound.get('path')), A.const_value(bound.get('tag')), where)
                else:
                    kp = w.key_params[0] if w.key_params else params[0]
                    vp = w.value_param or params[1]
                    knode = _subst(bound.get(kp), env)
                    vnode = _subst(bound.get(vp), env)
                    if 'representers' in reg:
                        key = norm(knode)
                    else:
                        key = A.const_value(knode)
                        if key is NotImplemented:
                            raise AnalysisError('%s: registration with a non-constant tag %s' % (where, norm(knode)))
                    vref = repo.resolve_expr(m, vnode)
                    if vref is None or vref.kind != 'func':
                        raise AnalysisError('%s: registered value %s does not resolve to a function'
                                            % (where, norm(vnode)))
                    heap.register(w, cls, key, vref.obj, where)
                    registrations.append(Registration(m, st, cls, w, key, vref.obj, norm(vnode)))
                return
        if isinstance(st, ast.For):
            # a loop over a literal table of the module (rows of constants / names / attribute references): unrolled, the
            # row written into a copy of the body
            it = st.iter
            if isinstance(it, ast.Name):
                binds = [x.value for x in m.tree.body if isinstance(x, ast.Assign) and len(x.targets) == 1
                         and isinstance(x.targets[0], ast.Name) and x.targets[0].id == it.id]
                if len(binds) == 1:
                    it = binds[0]
            # `for k, v in {k1: v1, ...}.items()` is the table ((k1, v1), ...); `for k in {k1: v1}` / `.keys()` its keys
            def dict_of(e):
                if isinstance(e, ast.Name):
                    b = [x.value for x in m.tree.body if isinstance(x, ast.Assign) and len(x.targets) == 1
                         and isinstance(x.targets[0], ast.Name) and x.targets[0].id == e.id]
                    e = b[0] if len(b) == 1 else e
                return e if isinstance(e, ast.Dict) and e.keys and all(k is not None for k in e.keys) else None
            if isinstance(it, ast.Call) and isinstance(it.func, ast.Attribute) and not it.args and not it.keywords \
                    and it.func.attr in ('items', 'keys', 'values') and dict_of(it.func.value) is not None:
                dd = dict_of(it.func.value)
                if it.func.attr == 'items':
                    it = ast.Tuple(elts=[ast.Tuple(elts=[k, v], ctx=ast.Load()) for k, v in zip(dd.keys, dd.values)], ctx=ast.Load())
                else:
                    it = ast.Tuple(elts=list(dd.keys if it.func.attr == 'keys' else dd.values), ctx=ast.Load())
            elif dict_of(it) is not None and isinstance(it, (ast.Dict, ast.Name)) and not isinstance(it, ast.Name):
                it = ast.Tuple(elts=list(it.keys), ctx=ast.Load())
            tnames = None
            if isinstance(st.target, ast.Name):
                tnames = [st.target.id]
            elif isinstance(st.target, ast.Tuple) and all(isinstance(t, ast.Name) for t in st.target.elts):
                tnames = [t.id for t in st.target.elts]

            def simple(e):
                if isinstance(e, (ast.Constant, ast.Name)):
                    return True
                if isinstance(e, ast.Attribute):
                    return simple(e.value)
                if isinstance(e, ast.Call) and isinstance(e.func, ast.Name) and e.func.id in ('type', 'list', 're.compile') or (
                        isinstance(e, ast.Call) and norm(e.func) in ('re.compile', 'type', 'list')):
                    return True
                if isinstance(e, (ast.Tuple, ast.List)):
                    return all(simple(x) for x in e.elts)
                return False
            if isinstance(it, (ast.List, ast.Tuple)) and tnames and A.const_value(st.iter) is NotImplemented and not st.orelse \
                    and all((isinstance(r, (ast.Tuple, ast.List)) and len(r.elts) == len(tnames) and all(simple(x) for x in r.elts))
                            if len(tnames) > 1 else simple(r) for r in it.elts):
                import copy
                for r in it.elts:
                    row = dict(zip(tnames, r.elts if len(tnames) > 1 else [r]))

                    class Sub(ast.NodeTransformer):
                        def visit_Name(self, node):
                            if node.id in row and isinstance(node.ctx, ast.Load):
                                return ast.copy_location(copy.deepcopy(row[node.id]), node)
                            return node
                    for sub in st.body:
                        new = Sub().visit(copy.deepcopy(sub))
                        ast.fix_missing_locations(new)
                        for x in ast.walk(new):
                            if not hasattr(x, 'lineno'):
                                x.lineno = st.lineno
                        handle(m, new, env)
                return
        if isinstance(st, ast.For) and any(
                isinstance(c.func, ast.Attribute) and c.func.attr in writers_by_name for c in A.calls_in(st.body)):
            seq = A.const_value(st.iter)
            if seq is NotImplemented or not isinstance(st.target, (ast.Name, ast.Tuple)):
                # registrations computed at import time from something that is not a literal (vars(), dir(), a table
                # built elsewhere): recorded, and every table the loop can write is reported as not provably closed
                classes = []
                for c in A.calls_in(st.body):
                    if isinstance(c.func, ast.Attribute) and c.func.attr in writers_by_name:
                        t = repo.resolve_expr(m, c.func.value)
                        classes.append((t.obj if t is not None and t.kind == 'class' else None, c.func.attr))
                heap.dynamic.append((m, st, classes))
                return
            for item in seq:
                e = dict(env)
                if isinstance(st.target, ast.Name):
                    e[st.target.id] = ast.Constant(item)
                else:
                    for t, v in zip(st.target.elts, item):
                        e[t.id] = ast.Constant(v)
                for sub in st.body:
                    handle(m, sub, e)
            return
        if isinstance(st, (ast.If, ast.Try)):
            for sub in ast.iter_child_nodes(st):
                if isinstance(sub, ast.stmt):
                    handle(m, sub, env)

    for m in mods:
        for st in m.tree.body:
            handle(m, st, {})
    return heap, registrations


def _subst(node, env):
    """node with the loop variables of an unrolled registration loop replaced by their constants, string arithmetic on
    constants folded ('prefix' + k, 'prefix%s' % k, f'prefix{k}') and getattr(X, '<literal>') written X.<literal>."""
    if node is None or not env:
        return node
    if isinstance(node, ast.Name):
        return env.get(node.id, node)
    if not any(isinstance(x, ast.Name) and x.id in env for x in ast.walk(node)):
        return node
    import copy

    class T(ast.NodeTransformer):
        def visit_Name(self, n):
            if n.id in env and isinstance(n.ctx, ast.Load):
                return ast.copy_location(copy.deepcopy(env[n.id]), n)
            return n

        def visit_BinOp(self, n):
            self.generic_visit(n)
            if isinstance(n.left, ast.Constant) and isinstance(n.right, ast.Constant) and isinstance(n.left.value, str):
                try:
                    if isinstance(n.op, ast.Add) and isinstance(n.right.value, str):
                        return ast.copy_location(ast.Constant(n.left.value + n.right.value), n)
                    if isinstance(n.op, ast.Mod) and isinstance(n.right.value, (str, int)):
                        return ast.copy_location(ast.Constant(n.left.value % n.right.value), n)
                except (TypeError, ValueError):
                    pass
            return n

        def visit_JoinedStr(self, n):
            self.generic_visit(n)
            parts = []
            for v in n.values:
                if isinstance(v, ast.Constant) and isinstance(v.value, str):
                    parts.append(v.value)
                elif isinstance(v, ast.FormattedValue) and v.conversion == -1 and v.format_spec is None \
                        and isinstance(v.value, ast.Constant) and isinstance(v.value.value, str):
                    parts.append(v.value.value)
                else:
                    return n
            return ast.copy_location(ast.Constant(''.join(parts)), n)

        def visit_Call(self, n):
            self.generic_visit(n)
            if isinstance(n.func, ast.Name) and n.func.id == 'getattr' and len(n.args) == 2 and not n.keywords \
                    and isinstance(n.args[1], ast.Constant) and isinstance(n.args[1].value, str) and n.args[1].value.isidentifier():
                return ast.copy_location(ast.Attribute(value=n.args[0], attr=n.args[1].value, ctx=ast.Load()), n)
            return n
    new = T().visit(copy.deepcopy(node))
    ast.fix_missing_locations(new)
    return new


def dynamic_registrations(repo, regs):
    """add_* calls inside functions (run-time histories): (func, call, receiver expr)."""
    names = {w.func.name for r in regs.values() for w in r.writers}
    out = []
    for f in repo.all_functions():
        for c in A.func_calls(f.node):
            if isinstance(c.func, ast.Attribute) and c.func.attr in names:
                out.append((f, c, c.func.value))
    return out
